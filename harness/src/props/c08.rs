//! C08 — HTTP/2 responses are complete and well-described under any flow-control schedule.
//!
//! World: the real `HttpService` (`Protocol::Http2`) on one end of a `tokio::io::duplex` pipe, an
//! `h2` client on the other, everything on one single-threaded runtime with the clock paused.  The
//! handler is an interpreter of per-stream programs (status, user headers, body kind, body script);
//! body bytes are a fixed function of (stream, offset) so any loss, duplication, reordering or
//! cross-stream mixing is visible.  The client reads DATA but returns flow-control credit only when
//! the stream's release schedule says so (immediately / every k chunks / n bytes per step / only
//! when the whole system is quiescent / never), resets streams at scripted points, opens streams
//! late and may resize SETTINGS_INITIAL_WINDOW_SIZE in mid-connection.
//!
//! Stall verdicts are logical: the client waits inside `tokio::time::timeout` on a paused clock,
//! which can only fire when no task is runnable.  On such a quiescence the client first hands back
//! every deferred credit; only a quiescence at which it holds nothing back (victims excepted, and
//! only while they leave connection window) convicts an unfinished stream.
//!
//! Oracle (per stream, see `judge`): head arrives with the program's status; none of `connection`,
//! `transfer-encoding`, `upgrade`, `keep-alive`, `proxy-connection`; HEAD/204/304 carry no DATA;
//! otherwise the received bytes are exactly the script's bytes and the stream ends cleanly; a body
//! that fails ends the stream with an error after a correct prefix (never a clean end);
//! `content-length`, when present, is single and equals the body length.  Independence: streams
//! that are reset by the client or never released only owe a correct prefix, every other stream of
//! the same connection still owes everything; a victim released late owes everything too.

use std::{
    cell::RefCell,
    collections::VecDeque,
    future::Future,
    io,
    pin::Pin,
    rc::Rc,
    task::{Context, Poll},
    time::Duration,
};

use actix_http::{
    body::{BodySize, BodyStream, BoxBody, MessageBody, SizedStream},
    HttpService, KeepAlive, Protocol, Request, Response, StatusCode,
};
use actix_service::{fn_service, Service as _, ServiceFactory as _};
use bytes::Bytes;
use futures_core::Stream;
use serde::{Deserialize, Serialize};
use serde_json::json;

use crate::{
    report::{guard, panic_site, Ctx, Reporter},
    util::Rng,
    world::exec::run_virtual,
};

const HOP: [&str; 5] = ["connection", "transfer-encoding", "upgrade", "keep-alive", "proxy-connection"];
const FRAME: usize = 16_384;

// ------------------------------------------------------------------------------------------------
// case description

#[derive(Clone, Copy, Debug, PartialEq, Eq, Serialize, Deserialize)]
enum Kind {
    /// `body::None`
    None,
    /// one `Bytes` holding the script's concatenation
    Bytes,
    /// `SizedStream::new(declared, script)`
    SizedStream,
    /// `BodyStream::new(script)`
    BodyStream,
    /// custom `MessageBody`, `BodySize::Stream`, yields the script verbatim (empty chunks too)
    CustomStream,
    /// custom `MessageBody`, `BodySize::Sized(declared)`, yields the script verbatim
    CustomSized,
}

impl Kind {
    fn sized(self) -> bool {
        matches!(self, Kind::Bytes | Kind::SizedStream | Kind::CustomSized)
    }
    fn scripted(self) -> bool {
        !matches!(self, Kind::None | Kind::Bytes)
    }
    fn verbatim(self) -> bool {
        matches!(self, Kind::CustomStream | Kind::CustomSized)
    }
}

#[derive(Clone, Copy, Debug, PartialEq, Eq, Serialize, Deserialize)]
enum Step {
    /// yield a chunk of this many bytes (0: an empty chunk)
    D(usize),
    /// return `Pending` once after waking the task
    Y,
    /// the body fails here
    E,
}

#[derive(Clone, Copy, Debug, PartialEq, Eq, Serialize, Deserialize)]
enum Late {
    /// once every other stream is finished, release everything and read on: must complete exactly
    Release,
    /// once every other stream is finished, reset the stream
    Reset,
    /// keep holding until the connection is dropped
    Hold,
}

#[derive(Clone, Copy, Debug, PartialEq, Eq, Serialize, Deserialize)]
enum Rel {
    Imm,
    /// release everything held once k chunks are held
    Every(usize),
    /// release at most n bytes per client step
    Drip(usize),
    /// release only when nothing in the system can move any more
    Lazy,
    /// never release (victim)
    Never(Late),
}

#[derive(Clone, Copy, Debug, PartialEq, Eq, Serialize, Deserialize)]
enum ResetAt {
    /// before any response event, as soon as the request has reached its handler
    Open,
    /// when the response head arrives
    Head,
    /// after this many DATA chunks were received (>= 1)
    Chunk(usize),
}

#[derive(Clone, Debug, PartialEq, Serialize, Deserialize)]
struct StreamSpec {
    /// "GET" | "HEAD" | "POST"
    method: String,
    /// request body length (POST only); the handler reads it to the end before answering
    req_body: usize,
    status: u16,
    /// response headers set by the handler (hop-by-hop ones, content-length, benign ones)
    hdrs: Vec<(String, String)>,
    kind: Kind,
    steps: Vec<Step>,
    /// declared size of sized stream kinds = sum of all D steps + delta (delta != 0: a lying body)
    delta: i64,
    /// answer through the service's `Err` path
    fail: bool,
    rel: Rel,
    reset: Option<ResetAt>,
    /// open the stream only after this many client events (0: up front; huge: only once nothing
    /// else can move, i.e. after the slow streams have reached their gates)
    open_after: usize,
    /// slow stream: the handler reads the whole request body, then keeps its response pending until
    /// the client has seen every other stream served (or stalled)
    #[serde(default)]
    gate: bool,
    /// send the request body with END_STREAM on an empty DATA frame of its own instead of on the
    /// frame that carries the last bytes
    #[serde(default)]
    tail_empty: bool,
}

#[derive(Clone, Debug, PartialEq, Serialize, Deserialize)]
struct Case {
    /// client SETTINGS_INITIAL_WINDOW_SIZE
    sw: u32,
    /// client connection window target
    cw: u32,
    /// capacity of the in-memory pipe
    pipe: usize,
    /// server keep-alive (HTTP/2 ping-pong) in seconds, 0 = disabled
    keep_alive_s: u64,
    /// server windows (request bodies)
    srv_sw: u32,
    srv_cw: u32,
    /// change SETTINGS_INITIAL_WINDOW_SIZE to .1 after .0 client events
    resize: Option<(usize, u32)>,
    streams: Vec<StreamSpec>,
}

impl StreamSpec {
    fn data_all(&self) -> usize {
        self.steps.iter().map(|s| if let Step::D(n) = s { *n } else { 0 }).sum()
    }
    /// bytes the body produces before it ends or fails
    fn total(&self) -> usize {
        match self.kind {
            Kind::None => 0,
            Kind::Bytes => self.data_all(),
            _ => {
                let mut t = 0;
                for s in &self.steps {
                    match s {
                        Step::D(n) => t += n,
                        Step::E => break,
                        Step::Y => {}
                    }
                }
                t
            }
        }
    }
    fn errs(&self) -> bool {
        self.kind.scripted() && self.steps.contains(&Step::E)
    }
    fn declared(&self) -> u64 {
        (self.data_all() as i64 + self.delta).max(0) as u64
    }
    fn liar(&self) -> bool {
        matches!(self.kind, Kind::SizedStream | Kind::CustomSized) && self.delta != 0
    }
    fn head_only(&self) -> bool {
        self.method == "HEAD"
    }
    fn bodiless(&self) -> bool {
        self.head_only() || self.status == 204 || self.status == 304
    }
    fn victim(&self) -> bool {
        matches!(self.rel, Rel::Never(_))
    }
    /// chunking class relative to the stream window and the 16 KiB send unit
    fn chunk_class(&self, sw: u32) -> String {
        let sw = sw as usize;
        let mut f: Vec<&str> = vec![];
        let ds: Vec<usize> = self.steps.iter().filter_map(|s| if let Step::D(n) = s { Some(*n) } else { None }).collect();
        if self.kind == Kind::None {
            return "none".into();
        }
        if self.kind == Kind::Bytes {
            let t = self.data_all();
            return format!("bytes{}{}{}", if t == 0 { ":empty" } else { "" }, if t > sw { ":>win" } else { "" }, if t > FRAME { ":>16k" } else { "" });
        }
        if ds.is_empty() {
            f.push("nochunk");
        }
        if ds.len() == 1 {
            f.push("single");
        }
        if ds.len() > 1 {
            f.push("multi");
        }
        if ds.iter().any(|&n| n == 0) {
            f.push(if self.kind.verbatim() { "empty" } else { "empty-filtered" });
        }
        if ds.iter().any(|&n| n > sw) {
            f.push(">win");
        }
        if ds.iter().any(|&n| n == sw) {
            f.push("=win");
        }
        if ds.iter().any(|&n| n > FRAME) {
            f.push(">16k");
        }
        if ds.iter().any(|&n| n == FRAME) {
            f.push("=16k");
        }
        if self.steps.contains(&Step::Y) {
            f.push("yield");
        }
        if self.steps.contains(&Step::E) {
            f.push("err");
        }
        f.join(":")
    }
    /// input class used in violation signatures: specific, but independent of sizes and seeds
    fn class(&self) -> String {
        let has_empty = self.kind.verbatim() && self.steps.iter().any(|s| *s == Step::D(0));
        let mut hop: Vec<&str> = self.hdrs.iter().map(|(k, _)| k.as_str()).filter(|k| HOP.contains(k)).collect();
        hop.sort_unstable();
        hop.dedup();
        format!(
            "{} {} {:?}{}{}{}{}{}",
            self.method,
            self.status,
            self.kind,
            if has_empty { " empty-chunk" } else { "" },
            if self.errs() { " body-err" } else { "" },
            if self.liar() { " lying-size" } else { "" },
            if self.fail { " via-err" } else { "" },
            if self.hdrs.iter().any(|(k, _)| k == "content-length") { " user-cl" } else { "" },
        ) + &format!(
            "{}{}{}",
            if self.gate { " gated" } else { "" },
            if self.method == "POST" && self.tail_empty { " tail-empty" } else { "" },
            if hop.is_empty() { String::new() } else { format!(" hop[{}]", hop.join(",")) },
        )
    }
}

/// byte at offset `o` of response body `i`
#[inline]
fn pat(i: usize, o: usize) -> u8 {
    let x = (o as u32).wrapping_mul(2_654_435_761).wrapping_add((i as u32).wrapping_mul(40_503));
    (x >> 23) as u8 ^ (o as u8)
}

fn fill(i: usize, off: usize, len: usize) -> Bytes {
    let mut v = Vec::with_capacity(len);
    for k in 0..len {
        v.push(pat(i, off + k));
    }
    Bytes::from(v)
}

// ------------------------------------------------------------------------------------------------
// server side: handler interpreter

#[derive(Clone, Debug, Default)]
struct Rec {
    invoked: u32,
    method: String,
    req_len: usize,
    req_bad_at: Option<usize>,
    req_end: Option<Result<(), String>>,
    yielded: usize,
    chunks: usize,
    empty_chunks: usize,
    /// the handler has read the request to its end and waits at (or has passed) its gate
    at_gate: bool,
    /// offset at which the last non-empty chunk yielded so far starts
    last_start: usize,
    /// 0 open, 1 ended, 2 failed
    end: u8,
    body_made: bool,
    dropped: bool,
}

struct Sh {
    specs: Vec<StreamSpec>,
    recs: Vec<Rec>,
    gate_open: bool,
    gate_waiters: Vec<std::task::Waker>,
}

/// resolves once the client has opened the gate
struct GateWait(Shared);

impl Future for GateWait {
    type Output = ();
    fn poll(self: Pin<&mut Self>, cx: &mut Context<'_>) -> Poll<()> {
        let mut sh = self.0.borrow_mut();
        if sh.gate_open {
            Poll::Ready(())
        } else {
            sh.gate_waiters.push(cx.waker().clone());
            Poll::Pending
        }
    }
}
type Shared = Rc<RefCell<Sh>>;

struct Script {
    sh: Shared,
    idx: usize,
    steps: VecDeque<Step>,
    off: usize,
    over: bool,
}

impl Stream for Script {
    type Item = Result<Bytes, io::Error>;
    fn poll_next(mut self: Pin<&mut Self>, cx: &mut Context<'_>) -> Poll<Option<Self::Item>> {
        if self.over {
            return Poll::Ready(None);
        }
        match self.steps.pop_front() {
            None => {
                self.over = true;
                self.sh.borrow_mut().recs[self.idx].end = 1;
                Poll::Ready(None)
            }
            Some(Step::Y) => {
                cx.waker().wake_by_ref();
                Poll::Pending
            }
            Some(Step::E) => {
                self.over = true;
                self.sh.borrow_mut().recs[self.idx].end = 2;
                Poll::Ready(Some(Err(io::Error::other("scripted body error"))))
            }
            Some(Step::D(n)) => {
                let b = fill(self.idx, self.off, n);
                let start = self.off;
                self.off += n;
                let mut sh = self.sh.borrow_mut();
                let r = &mut sh.recs[self.idx];
                if n > 0 {
                    r.last_start = start;
                }
                r.yielded += n;
                r.chunks += 1;
                if n == 0 {
                    r.empty_chunks += 1;
                }
                Poll::Ready(Some(Ok(b)))
            }
        }
    }
}

impl Drop for Script {
    fn drop(&mut self) {
        if let Ok(mut sh) = self.sh.try_borrow_mut() {
            sh.recs[self.idx].dropped = true;
        }
    }
}

struct Custom {
    size: BodySize,
    inner: Script,
}

impl MessageBody for Custom {
    type Error = io::Error;
    fn size(&self) -> BodySize {
        self.size
    }
    fn poll_next(mut self: Pin<&mut Self>, cx: &mut Context<'_>) -> Poll<Option<Result<Bytes, io::Error>>> {
        Pin::new(&mut self.inner).poll_next(cx)
    }
}

struct HErr(Response<BoxBody>);

impl std::fmt::Debug for HErr {
    fn fmt(&self, f: &mut std::fmt::Formatter<'_>) -> std::fmt::Result {
        f.write_str("HErr")
    }
}

impl From<HErr> for Response<BoxBody> {
    fn from(e: HErr) -> Self {
        e.0
    }
}

async fn handler(sh: Shared, mut req: Request) -> Result<Response<BoxBody>, HErr> {
    use futures_util::StreamExt as _;
    let idx: usize = req.path().trim_start_matches('/').parse().unwrap_or(usize::MAX);
    let spec = {
        let mut s = sh.borrow_mut();
        if idx >= s.specs.len() {
            return Ok(Response::build(StatusCode::IM_A_TEAPOT).finish().map_into_boxed_body());
        }
        s.recs[idx].invoked += 1;
        s.recs[idx].method = req.method().as_str().to_string();
        s.specs[idx].clone()
    };
    if spec.method == "POST" {
        let mut pl = req.take_payload();
        let mut off = 0usize;
        loop {
            match pl.next().await {
                Some(Ok(c)) => {
                    let mut s = sh.borrow_mut();
                    let r = &mut s.recs[idx];
                    for (k, b) in c.iter().enumerate() {
                        if *b != pat(idx + 1000, off + k) && r.req_bad_at.is_none() {
                            r.req_bad_at = Some(off + k);
                        }
                    }
                    off += c.len();
                    r.req_len = off;
                }
                Some(Err(e)) => {
                    sh.borrow_mut().recs[idx].req_end = Some(Err(format!("{e:?}")));
                    break;
                }
                None => {
                    sh.borrow_mut().recs[idx].req_end = Some(Ok(()));
                    break;
                }
            }
        }
    }

    if spec.gate {
        sh.borrow_mut().recs[idx].at_gate = true;
        GateWait(sh.clone()).await;
    }

    let mut rb = Response::build(StatusCode::from_u16(spec.status).unwrap_or(StatusCode::OK));
    rb.insert_header(("x-idx", idx.to_string()));
    for (k, v) in &spec.hdrs {
        rb.append_header((k.as_str(), v.as_str()));
    }
    let script = |sh: &Shared| Script { sh: sh.clone(), idx, steps: spec.steps.iter().copied().collect(), off: 0, over: false };
    let body: BoxBody = match spec.kind {
        Kind::None => {
            sh.borrow_mut().recs[idx].end = 1;
            BoxBody::new(actix_http::body::None::new())
        }
        Kind::Bytes => {
            let n = spec.data_all();
            {
                let mut s = sh.borrow_mut();
                let r = &mut s.recs[idx];
                r.yielded = n;
                r.chunks = 1;
                r.end = 1;
            }
            BoxBody::new(fill(idx, 0, n))
        }
        Kind::SizedStream => BoxBody::new(SizedStream::new(spec.declared(), script(&sh))),
        Kind::BodyStream => BoxBody::new(BodyStream::new(script(&sh))),
        Kind::CustomStream => BoxBody::new(Custom { size: BodySize::Stream, inner: script(&sh) }),
        Kind::CustomSized => BoxBody::new(Custom { size: BodySize::Sized(spec.declared()), inner: script(&sh) }),
    };
    sh.borrow_mut().recs[idx].body_made = true;
    let res = rb.message_body(body).map_err(|_| HErr(Response::internal_server_error().map_into_boxed_body()))?;
    if spec.fail {
        Err(HErr(res))
    } else {
        Ok(res)
    }
}

// ------------------------------------------------------------------------------------------------
// client side

#[derive(Clone, Debug, PartialEq)]
enum End {
    /// not opened / no terminal event yet
    Open,
    Clean,
    Err(String),
    ClientReset,
}

enum Phase {
    Unopened,
    Head(h2::client::ResponseFuture),
    Body,
    Done,
}

struct CStream {
    phase: Phase,
    send: Option<h2::SendStream<Bytes>>,
    recv: Option<h2::RecvStream>,
    rel: Rel,
    head: Option<(u16, Vec<(String, Vec<u8>)>)>,
    open_err: Option<String>,
    got: usize,
    bad_at: Option<usize>,
    nchunks: usize,
    max_chunk: usize,
    pending: usize,
    pending_chunks: usize,
    end: End,
    trailers: bool,
    stalled: bool,
    /// what had been seen of the stream at the quiescence that convicted it
    stall_note: Option<String>,
    /// owes a complete response (false for client-reset streams and unreleased victims)
    late_released: bool,
    window_full: u64,
}

#[derive(Debug)]
enum Ev {
    Conn,
    Head(usize),
    Data(usize),
    End(usize),
}

/// everything the oracle sees of one run
struct Obs {
    streams: Vec<SObs>,
    recs: Vec<Rec>,
    conn_end: Option<Option<String>>,
    handshake_err: Option<String>,
    events: u64,
    quiescences: u64,
    flushes: u64,
    phase2: bool,
    victims_choked_conn: bool,
    read_ahead: usize,
    server: String,
    harness: Vec<String>,
    virtual_ms: u64,
}

#[derive(Clone, Debug)]
struct SObs {
    head: Option<(u16, Vec<(String, Vec<u8>)>)>,
    open_err: Option<String>,
    got: usize,
    bad_at: Option<usize>,
    nchunks: usize,
    max_chunk: usize,
    end: End,
    trailers: bool,
    stalled: bool,
    /// what had been seen of the stream at the quiescence that convicted it
    stall_note: Option<String>,
    late_released: bool,
    window_full: u64,
    held_at_end: usize,
}

struct Client {
    case: Case,
    /// the handlers' world: read only, to learn that a request has reached its handler
    sh: Shared,
    conn: Option<h2::client::Connection<tokio::io::DuplexStream, Bytes>>,
    sr: Option<h2::client::SendRequest<Bytes>>,
    conn_end: Option<Option<String>>,
    st: Vec<CStream>,
    rr: usize,
    events: u64,
    quiescences: u64,
    flushes: u64,
    phase2: bool,
    victims_choked_conn: bool,
    cur_sw: u32,
    resized: bool,
    shrunk: bool,
    pokes: u32,
    /// observation only: bytes of earlier chunks still undelivered at a quiescence although the
    /// body had already been polled for a later chunk (how far the dispatcher reads ahead of the window)
    read_ahead: usize,
    harness: Vec<String>,
}

impl Client {
    fn poll_event(&mut self, cx: &mut Context<'_>) -> Poll<Ev> {
        if let Some(c) = self.conn.as_mut() {
            if let Poll::Ready(r) = Pin::new(c).poll(cx) {
                self.conn = None;
                self.conn_end = Some(r.err().map(|e| e.to_string()));
                return Poll::Ready(Ev::Conn);
            }
        }
        let n = self.st.len();
        for j in 0..n {
            let i = (self.rr + j) % n;
            let s = &mut self.st[i];
            match &mut s.phase {
                Phase::Unopened | Phase::Done => {}
                Phase::Head(fut) => {
                    if let Poll::Ready(r) = Pin::new(fut).poll(cx) {
                        self.rr = i + 1;
                        match r {
                            Ok(resp) => {
                                let (parts, body) = resp.into_parts();
                                let mut hs: Vec<(String, Vec<u8>)> =
                                    parts.headers.iter().map(|(k, v)| (k.as_str().to_string(), v.as_bytes().to_vec())).collect();
                                hs.sort();
                                s.head = Some((parts.status.as_u16(), hs));
                                s.recv = Some(body);
                                s.phase = Phase::Body;
                                return Poll::Ready(Ev::Head(i));
                            }
                            Err(e) => {
                                s.end = End::Err(e.to_string());
                                s.phase = Phase::Done;
                                return Poll::Ready(Ev::End(i));
                            }
                        }
                    }
                }
                Phase::Body => {
                    let rs = s.recv.as_mut().expect("body phase has a RecvStream");
                    match rs.poll_data(cx) {
                        Poll::Ready(Some(Ok(b))) => {
                            self.rr = i + 1;
                            for (k, x) in b.iter().enumerate() {
                                if *x != pat(i, s.got + k) {
                                    if s.bad_at.is_none() {
                                        s.bad_at = Some(s.got + k);
                                    }
                                    break;
                                }
                            }
                            s.got += b.len();
                            s.nchunks += 1;
                            s.max_chunk = s.max_chunk.max(b.len());
                            s.pending += b.len();
                            s.pending_chunks += 1;
                            return Poll::Ready(Ev::Data(i));
                        }
                        Poll::Ready(Some(Err(e))) => {
                            self.rr = i + 1;
                            s.end = End::Err(e.to_string());
                            s.phase = Phase::Done;
                            return Poll::Ready(Ev::End(i));
                        }
                        Poll::Ready(None) => {
                            self.rr = i + 1;
                            match rs.poll_trailers(cx) {
                                Poll::Ready(Ok(t)) => {
                                    s.trailers = t.is_some();
                                    s.end = End::Clean;
                                }
                                Poll::Ready(Err(e)) => s.end = End::Err(format!("trailers: {e}")),
                                Poll::Pending => {
                                    // data ended but trailers pending: not expected after `None`
                                    s.end = End::Err("trailers pending after end of data".into());
                                }
                            }
                            s.phase = Phase::Done;
                            return Poll::Ready(Ev::End(i));
                        }
                        Poll::Pending => {}
                    }
                }
            }
        }
        Poll::Pending
    }

    fn release(&mut self, i: usize, n: usize) {
        let s = &mut self.st[i];
        let n = n.min(s.pending);
        if n == 0 {
            return;
        }
        if let Some(rs) = s.recv.as_mut() {
            if let Err(e) = rs.flow_control().release_capacity(n) {
                // a stream that was reset by the peer has already given its capacity back
                if s.end == End::Open {
                    self.harness.push(format!("release_capacity({n}) on stream {i}: {e}"));
                }
            }
        }
        s.pending -= n;
        if s.pending == 0 {
            s.pending_chunks = 0;
        }
    }

    fn reset(&mut self, i: usize) {
        let s = &mut self.st[i];
        if let Some(tx) = s.send.as_mut() {
            tx.send_reset(h2::Reason::CANCEL);
        }
        // a client that gave the stream up keeps no handle to it (h2 returns the connection-level
        // credit of a closed stream only when its last handle is gone)
        s.send = None;
        s.end = End::ClientReset;
        s.phase = Phase::Done;
        s.recv = None;
        s.pending = 0;
        s.pending_chunks = 0;
    }

    async fn open(&mut self, i: usize) {
        let spec = self.case.streams[i].clone();
        let Some(mut sr) = self.sr.take() else {
            self.st[i].open_err = Some("connection gone".into());
            self.st[i].end = End::Err("connection gone".into());
            self.st[i].phase = Phase::Done;
            return;
        };
        let ready = tokio::time::timeout(
            Duration::from_secs(2),
            std::future::poll_fn(|cx| {
                if let Some(c) = self.conn.as_mut() {
                    if let Poll::Ready(r) = Pin::new(c).poll(cx) {
                        self.conn = None;
                        self.conn_end = Some(r.err().map(|e| e.to_string()));
                    }
                }
                sr.poll_ready(cx)
            }),
        )
        .await;
        let fail = |s: &mut CStream, m: String| {
            s.open_err = Some(m.clone());
            s.end = End::Err(m);
            s.phase = Phase::Done;
        };
        match ready {
            Err(_) => {
                self.harness.push(format!("stream {i}: SendRequest never became ready"));
                fail(&mut self.st[i], "not ready".into());
            }
            Ok(Err(e)) => fail(&mut self.st[i], format!("poll_ready: {e}")),
            Ok(Ok(())) => {
                let req = http::Request::builder()
                    .method(spec.method.as_str())
                    .uri(format!("http://localhost/{i}"))
                    .body(())
                    .expect("request");
                let has_body = spec.method == "POST";
                match sr.send_request(req, !has_body) {
                    Ok((fut, mut tx)) => {
                        if has_body {
                            // h2 queues what exceeds the server's window and sends it as credit arrives
                            let split = spec.tail_empty && spec.req_body > 0;
                            let mut r = tx.send_data(fill(i + 1000, 0, spec.req_body), !split);
                            if split && r.is_ok() {
                                r = tx.send_data(Bytes::new(), true);
                            }
                            if let Err(e) = r {
                                self.harness.push(format!("stream {i}: send_data(request body): {e}"));
                            }
                        }
                        let s = &mut self.st[i];
                        s.phase = Phase::Head(fut);
                        s.send = Some(tx);
                    }
                    Err(e) => fail(&mut self.st[i], format!("send_request: {e}")),
                }
            }
        }
        self.sr = Some(sr);
    }

    fn after_event(&mut self, ev: Ev) {
        match ev {
            Ev::Conn => {}
            Ev::Head(i) => {
                if matches!(self.case.streams[i].reset, Some(ResetAt::Head | ResetAt::Open)) {
                    self.reset(i);
                }
            }
            Ev::Data(i) => {
                if self.st[i].pending >= self.cur_sw as usize {
                    self.st[i].window_full += 1;
                }
                if let Some(ResetAt::Chunk(k)) = self.case.streams[i].reset {
                    if self.st[i].nchunks >= k.max(1) {
                        self.reset(i);
                        return;
                    }
                }
                match self.st[i].rel {
                    Rel::Imm => {
                        let p = self.st[i].pending;
                        self.release(i, p);
                    }
                    Rel::Every(k) => {
                        if self.st[i].pending_chunks >= k {
                            let p = self.st[i].pending;
                            self.release(i, p);
                        }
                    }
                    Rel::Drip(_) | Rel::Lazy | Rel::Never(_) => {}
                }
            }
            Ev::End(i) => {
                self.st[i].send = None;
                // a finished stream gives its credit back unless it is a victim still being starved
                if !matches!(self.st[i].rel, Rel::Never(_)) {
                    let p = self.st[i].pending;
                    self.release(i, p);
                    self.st[i].recv = None;
                    self.st[i].pending = 0;
                }
            }
        }
    }

    fn mark_stalled(&mut self, i: usize) {
        let sh = self.sh.borrow();
        let r = &sh.recs[i];
        let spec = &self.case.streams[i];
        let s = &mut self.st[i];
        s.stalled = true;
        s.stall_note = Some(format!(
            "{}, {} of {} response bytes received, handler invoked {}x and had read {} of {} request bytes{}, body had yielded {} bytes in {} chunks",
            if s.head.is_some() { "head received" } else { "no head" },
            s.got,
            spec.total(),
            r.invoked,
            r.req_len,
            if spec.method == "POST" { spec.req_body } else { 0 },
            if spec.gate { if r.at_gate { " (waiting at its gate)" } else { " (gate not reached)" } } else { "" },
            r.yielded,
            r.chunks
        ));
    }

    /// Nothing is runnable.  Returns false when the run is over.
    async fn quiescent(&mut self) -> bool {
        self.quiescences += 1;
        {
            let sh = self.sh.borrow();
            for (i, s) in self.st.iter().enumerate() {
                if matches!(s.phase, Phase::Body) && s.end == End::Open {
                    self.read_ahead = self.read_ahead.max(sh.recs[i].last_start.saturating_sub(s.got));
                }
            }
        }
        // 1. streams that are still to be opened
        if let Some(i) = (0..self.st.len()).find(|&i| matches!(self.st[i].phase, Phase::Unopened)) {
            self.open(i).await;
            return true;
        }
        // 2. hand back every deferred credit (victims excepted)
        let mut flushed = false;
        for i in 0..self.st.len() {
            if self.st[i].pending > 0 && !matches!(self.st[i].rel, Rel::Never(_)) && matches!(self.st[i].phase, Phase::Body) {
                let p = self.st[i].pending;
                self.release(i, p);
                flushed = true;
            }
        }
        if flushed {
            self.flushes += 1;
            return true;
        }
        // 2b. after SETTINGS_INITIAL_WINDOW_SIZE was lowered the h2 client re-evaluates which
        //     WINDOW_UPDATEs it owes only on the next release_capacity call: make that call (for 0
        //     bytes) so that the client really holds nothing back
        if self.shrunk && self.pokes < 2 {
            self.pokes += 1;
            for s in self.st.iter_mut() {
                if matches!(s.phase, Phase::Body) {
                    if let Some(rs) = s.recv.as_mut() {
                        let _ = rs.flow_control().release_capacity(0);
                    }
                }
            }
            return true;
        }
        // 3. first time with nothing held back: judge the non-victims, then deal with the victims
        if !self.phase2 {
            self.phase2 = true;
            let held: usize = self.st.iter().filter(|s| matches!(s.rel, Rel::Never(_))).map(|s| s.pending).sum();
            let choked = held as u64 >= self.case.cw as u64;
            self.victims_choked_conn = choked;
            let mut any_victim = false;
            // slow (gated) streams: by now their handlers must hold the complete request; then they
            // are let go
            for i in 0..self.st.len() {
                if self.case.streams[i].gate && !matches!(self.st[i].phase, Phase::Done | Phase::Unopened) {
                    any_victim = true;
                    if !self.sh.borrow().recs[i].at_gate {
                        self.mark_stalled(i);
                    }
                }
            }
            let waiters = {
                let mut sh = self.sh.borrow_mut();
                sh.gate_open = true;
                std::mem::take(&mut sh.gate_waiters)
            };
            for w in waiters {
                w.wake();
            }
            for i in 0..self.st.len() {
                if self.case.streams[i].gate && !matches!(self.st[i].rel, Rel::Never(_)) {
                    continue;
                }
                match self.st[i].rel {
                    Rel::Never(late) => {
                        any_victim = true;
                        match late {
                            Late::Release => {
                                self.st[i].rel = Rel::Imm;
                                self.st[i].late_released = true;
                                let p = self.st[i].pending;
                                self.release(i, p);
                                if matches!(self.st[i].phase, Phase::Done) {
                                    self.st[i].recv = None;
                                }
                            }
                            Late::Reset => {
                                if !matches!(self.st[i].phase, Phase::Done) {
                                    self.reset(i);
                                }
                            }
                            Late::Hold => {}
                        }
                    }
                    _ => {
                        if !matches!(self.st[i].phase, Phase::Done) && !choked {
                            self.mark_stalled(i);
                        }
                    }
                }
            }
            if any_victim {
                return true;
            }
        }
        // 4. final: whoever owes a complete response and has not finished is stalled (unless victims
        //    that are still being held keep the whole connection window)
        let held: usize = self.st.iter().filter(|s| matches!(s.rel, Rel::Never(_))).map(|s| s.pending).sum();
        if held as u64 >= self.case.cw as u64 {
            self.victims_choked_conn = true;
            return false;
        }
        for i in 0..self.st.len() {
            if !matches!(self.st[i].phase, Phase::Done) && !matches!(self.st[i].rel, Rel::Never(_)) && !self.st[i].stalled {
                self.mark_stalled(i);
            }
        }
        false
    }
}

async fn run_case(case: Case) -> Obs {
    let t0 = tokio::time::Instant::now();
    let n = case.streams.len();
    let sh: Shared = Rc::new(RefCell::new(Sh { specs: case.streams.clone(), recs: vec![Rec::default(); n], gate_open: false, gate_waiters: vec![] }));
    let (cio, sio) = tokio::io::duplex(case.pipe.max(1));

    let sh2 = sh.clone();
    let factory = HttpService::build()
        .keep_alive(if case.keep_alive_s == 0 { KeepAlive::Disabled } else { KeepAlive::Timeout(Duration::from_secs(case.keep_alive_s)) })
        .h2_initial_window_size(case.srv_sw)
        .h2_initial_connection_window_size(case.srv_cw)
        .finish(fn_service(move |req: Request| handler(sh2.clone(), req)));
    let svc = factory.new_service(()).await.expect("service init");
    let srv = actix_rt::spawn(svc.call((sio, Protocol::Http2, None)));

    let mut cl = Client {
        case: case.clone(),
        sh: sh.clone(),
        conn: None,
        sr: None,
        conn_end: None,
        st: (0..n)
            .map(|i| CStream {
                phase: Phase::Unopened,
                send: None,
                recv: None,
                rel: case.streams[i].rel,
                head: None,
                open_err: None,
                got: 0,
                bad_at: None,
                nchunks: 0,
                max_chunk: 0,
                pending: 0,
                pending_chunks: 0,
                end: End::Open,
                trailers: false,
                stalled: false,
                stall_note: None,
                late_released: false,
                window_full: 0,
            })
            .collect(),
        rr: 0,
        events: 0,
        quiescences: 0,
        flushes: 0,
        phase2: false,
        victims_choked_conn: false,
        cur_sw: case.sw,
        resized: false,
        shrunk: false,
        pokes: 0,
        read_ahead: 0,
        harness: vec![],
    };
    let mut handshake_err = None;

    let mut b = h2::client::Builder::new();
    b.initial_window_size(case.sw).initial_connection_window_size(case.cw);
    match tokio::time::timeout(Duration::from_secs(2), b.handshake::<_, Bytes>(cio)).await {
        Ok(Ok((sr, conn))) => {
            cl.sr = Some(sr);
            cl.conn = Some(conn);
        }
        Ok(Err(e)) => handshake_err = Some(e.to_string()),
        Err(_) => handshake_err = Some("handshake deadlocked".into()),
    }

    if handshake_err.is_none() {
        let cap: u64 = 3_000_000;
        loop {
            // streams that are due
            for i in 0..n {
                if matches!(cl.st[i].phase, Phase::Unopened) && cl.events >= case.streams[i].open_after as u64 {
                    cl.open(i).await;
                }
            }
            // "reset right after opening": as soon as the request is known to have reached its
            // handler (h2's client drops a still-queued HEADERS frame when the stream is reset and
            // then sends RST_STREAM for an idle stream, a connection error of its own making)
            for i in 0..n {
                if case.streams[i].reset == Some(ResetAt::Open) && matches!(cl.st[i].phase, Phase::Head(_)) && cl.sh.borrow().recs[i].invoked > 0 {
                    cl.reset(i);
                }
            }
            // mid-connection SETTINGS change
            if let Some((at, nsw)) = case.resize {
                if !cl.resized && cl.events >= at as u64 {
                    if let Some(c) = cl.conn.as_mut() {
                        // refused while the previous SETTINGS frame is not acknowledged yet: try again later
                        if c.set_initial_window_size(nsw).is_ok() {
                            cl.resized = true;
                            cl.shrunk = nsw < cl.cur_sw;
                            cl.cur_sw = nsw;
                        }
                    }
                }
            }
            // dripping streams give back a little on every step
            for i in 0..n {
                if let Rel::Drip(k) = cl.st[i].rel {
                    if cl.st[i].pending > 0 && matches!(cl.st[i].phase, Phase::Body) {
                        cl.release(i, k.max(1));
                    }
                }
            }
            if cl.st.iter().all(|s| matches!(s.phase, Phase::Done)) {
                break;
            }
            let ev = tokio::time::timeout(Duration::from_secs(1), std::future::poll_fn(|cx| cl.poll_event(cx))).await;
            match ev {
                Ok(ev) => {
                    cl.events += 1;
                    cl.after_event(ev);
                }
                Err(_) => {
                    if !cl.quiescent().await {
                        break;
                    }
                }
            }
            if cl.events + cl.quiescences > cap {
                cl.harness.push("event cap reached".into());
                break;
            }
        }
    }

    let streams: Vec<SObs> = cl
        .st
        .iter()
        .map(|s| SObs {
            head: s.head.clone(),
            open_err: s.open_err.clone(),
            got: s.got,
            bad_at: s.bad_at,
            nchunks: s.nchunks,
            max_chunk: s.max_chunk,
            end: s.end.clone(),
            trailers: s.trailers,
            stalled: s.stalled,
            stall_note: s.stall_note.clone(),
            late_released: s.late_released,
            window_full: s.window_full,
            held_at_end: s.pending,
        })
        .collect();
    let (events, quiescences, flushes, phase2, choked, conn_end, harness) =
        (cl.events, cl.quiescences, cl.flushes, cl.phase2, cl.victims_choked_conn, cl.conn_end.clone(), cl.harness.clone());
    let read_ahead = cl.read_ahead;
    // close the client; the server connection must wind down (observed, not judged)
    drop(cl);
    let server = match tokio::time::timeout(Duration::from_secs(30), srv).await {
        Ok(Ok(Ok(()))) => "ok".to_string(),
        Ok(Ok(Err(e))) => format!("err:{}", short_err(&format!("{e:?}"))),
        Ok(Err(je)) => {
            if je.is_panic() {
                "PANIC".to_string()
            } else {
                "cancelled".to_string()
            }
        }
        Err(_) => "still-running".to_string(),
    };
    // let handler tasks observe the closed connection and drop their bodies
    for _ in 0..4 {
        tokio::task::yield_now().await;
    }
    let recs = sh.borrow().recs.clone();
    Obs {
        streams,
        recs,
        conn_end,
        handshake_err,
        events,
        quiescences,
        flushes,
        phase2,
        victims_choked_conn: choked,
        read_ahead,
        server,
        harness,
        virtual_ms: t0.elapsed().as_millis() as u64,
    }
}

fn short_err(s: &str) -> String {
    let s: String = s.chars().filter(|c| !c.is_ascii_digit()).collect();
    s.chars().take(60).collect()
}

// ------------------------------------------------------------------------------------------------
// oracle

struct Viol {
    class: &'static str,
    sig: String,
    detail: String,
}

fn cl_values(h: &[(String, Vec<u8>)]) -> Vec<String> {
    h.iter().filter(|(k, _)| k == "content-length").map(|(_, v)| String::from_utf8_lossy(v).to_string()).collect()
}

fn judge(case: &Case, obs: &Obs, rep: &mut Reporter) -> Vec<Viol> {
    let mut out = vec![];
    if let Some(e) = &obs.handshake_err {
        out.push(Viol { class: "handshake", sig: "h2 handshake".into(), detail: format!("HTTP/2 handshake failed: {e}") });
        return out;
    }
    if obs.server == "PANIC" {
        out.push(Viol { class: "panic", sig: "server connection task".into(), detail: "the server connection future panicked".into() });
    }
    rep.count(&format!("server-connection-end:{}", obs.server), 1);
    match &obs.conn_end {
        None => rep.count("client-connection:open-at-end", 1),
        Some(None) => rep.count("client-connection:closed-clean", 1),
        Some(Some(_)) => rep.count("client-connection:error", 1),
    }

    for (i, spec) in case.streams.iter().enumerate() {
        let o = &obs.streams[i];
        let r = &obs.recs[i];
        let cls = spec.class();
        let rel = format!("{:?}", spec.rel);
        let mut v = |class: &'static str, extra: &str, detail: String| {
            out.push(Viol {
                class,
                // a body on a bodiless response does not depend on what kind of body it is
                sig: if extra.starts_with("bodiless") {
                    format!("{} {} | {extra}", spec.method, spec.status)
                } else if extra.is_empty() {
                    cls.clone()
                } else {
                    format!("{cls} | {extra}")
                },
                detail: format!("stream #{i} ({cls}; release {rel}; sw={} cw={}; {} streams): {detail}", case.sw, case.cw, case.streams.len()),
            })
        };

        // what the stream owes
        let client_reset = o.end == End::ClientReset;
        let starved_victim = spec.victim() && !o.late_released;
        let owes_all = !client_reset && !starved_victim;

        rep.count(&format!("streams:{}", if client_reset { "client-reset" } else if starved_victim { "victim-unreleased" } else if o.late_released { "victim-released-late" } else { "normal" }), 1);
        rep.count("data-chunks-received", o.nchunks as u64);
        rep.count("bytes-received", o.got as u64);
        rep.max("data-chunk-bytes", o.max_chunk as u64);
        rep.count("stream-window-exhausted-events", o.window_full);
        if r.empty_chunks > 0 {
            rep.count("empty-chunks-yielded-by-bodies", r.empty_chunks as u64);
        }
        if o.trailers {
            rep.count("trailers-received", 1);
        }

        // --- clauses on whatever was received, whoever the stream is
        if let Some(at) = o.bad_at {
            v("body-bytes", "", format!("byte {at} of the received body differs from what the body produced ({} bytes received)", o.got));
            continue;
        }
        if o.got > spec.total() && !spec.liar() {
            v("body-bytes", "extra", format!("{} bytes received, the body produced {}", o.got, spec.total()));
            continue;
        }
        if let Some((status, hs)) = &o.head {
            if *status != spec.status {
                v("status", "", format!("status {status}, handler answered {}", spec.status));
            }
            let hop: Vec<&str> = hs.iter().map(|(k, _)| k.as_str()).filter(|k| HOP.contains(k)).collect();
            if !hop.is_empty() {
                v("hop-header", &hop.join(","), format!("connection-specific header(s) {hop:?} arrived on HTTP/2"));
            }
            if hs.iter().filter(|(k, _)| k == "x-idx").count() != 1 || !hs.iter().any(|(k, val)| k == "x-idx" && val == i.to_string().as_bytes()) {
                v("head-mixup", "", "x-idx of the response is not the stream's own".to_string());
            }
            if spec.bodiless() && o.got > 0 {
                v("body-on-bodiless", "bodiless", format!("{} DATA bytes on a {} {} response", o.got, spec.method, spec.status));
            }
            // content-length
            let cls_v = cl_values(hs);
            rep.count(if cls_v.is_empty() { "content-length:absent" } else { "content-length:present" }, 1);
            if cls_v.len() > 1 {
                v("content-length", "duplicate", format!("{} content-length fields: {cls_v:?}", cls_v.len()));
            } else if let Some(c) = cls_v.first() {
                let user_cl: Option<&String> = spec.hdrs.iter().find(|(k, _)| k == "content-length").map(|(_, val)| val);
                let want: Option<u64> = if spec.liar() || (spec.errs() && !spec.kind.sized()) {
                    None
                } else if spec.status == 304 && user_cl.is_some_and(|u| u == c) {
                    // on a 304 the field describes the representation a 200 would carry: the
                    // handler's own value may be retained
                    None
                } else if spec.status == 204 {
                    Some(0)
                } else if spec.kind.sized() {
                    Some(spec.declared())
                } else {
                    // streamed body: only a handler-supplied (honest) value can be there
                    Some(spec.data_all() as u64)
                };
                match (c.parse::<u64>(), want) {
                    (Err(_), _) => v("content-length", "unparsable", format!("content-length {c:?}")),
                    (Ok(n), Some(w)) if n != w => v("content-length", "mismatch", format!("content-length {n}, body length {w}")),
                    _ => {}
                }
            }
        }

        // --- completeness
        if o.stalled {
            let note = o.stall_note.clone().unwrap_or_default();
            v("stall", "", format!("nothing is runnable, the client holds back no credit, and the stream has not been served: {note}"));
            continue;
        }
        if !owes_all {
            continue;
        }
        if o.end == End::Open && obs.victims_choked_conn {
            // the run ended while victims kept the whole connection window: the peer granted
            // nothing, so nothing is owed
            rep.count("streams-unjudged:victims-held-the-whole-connection-window", 1);
            continue;
        }
        if let Some(e) = &o.open_err {
            rep.inconclusive(&format!("stream could not be opened: {e}"));
            continue;
        }
        if spec.liar() {
            rep.count(&format!("lying-size-outcome:{}", match &o.end { End::Clean => "clean", End::Err(_) => "error", _ => "other" }), 1);
            continue;
        }
        let Some(_) = &o.head else {
            let e = if let End::Err(e) = &o.end { e.clone() } else { format!("{:?}", o.end) };
            v("no-response", "", format!("no response head: {e}"));
            continue;
        };
        if spec.bodiless() {
            if o.end != End::Clean {
                v("incomplete", "bodiless", format!("bodiless response did not end cleanly: {:?}", o.end));
            }
            rep.count("outcome:bodiless-clean", 1);
            continue;
        }
        let sized_all_delivered = spec.kind.sized() && o.got as u64 == spec.declared();
        match (&o.end, r.end) {
            (End::Clean, 1) => {
                if o.got != spec.total() || o.got != r.yielded {
                    v("body-bytes", "short", format!("clean end after {} bytes, the body produced {}", o.got, r.yielded));
                } else {
                    rep.count("outcome:complete-exact", 1);
                    if spec.method == "POST" {
                        if r.req_len != spec.req_body || r.req_bad_at.is_some() || r.req_end != Some(Ok(())) {
                            v("request-body", "", format!("handler read {} of {} request bytes (bad at {:?}, end {:?})", r.req_len, spec.req_body, r.req_bad_at, r.req_end));
                        } else {
                            rep.count("request-bodies-delivered-exact", 1);
                        }
                    }
                }
            }
            // the body failed, or was not polled to its end: a clean end is only right when every
            // declared byte of a sized body was delivered before
            (End::Clean, 2) if !sized_all_delivered => {
                v("body-error-clean-end", "", format!("the body failed after {} bytes but the stream ended cleanly ({} received)", r.yielded, o.got))
            }
            (End::Clean, 0) if !sized_all_delivered => {
                v("body-bytes", "abandoned", format!("clean end after {} bytes although the body was not polled to its end ({} yielded so far)", o.got, r.yielded))
            }
            (End::Clean, _) => rep.count("outcome:sized-body-complete-before-its-end", 1),
            (End::Err(_), 2) => rep.count("outcome:body-error-seen-as-stream-error", 1),
            (End::Err(e), _) => v("incomplete", "", format!("stream error {e:?} after {} of {} bytes; the body did not fail", o.got, spec.total())),
            (e, _) => v("incomplete", "", format!("unexpected end {e:?}")),
        }
    }
    if !obs.harness.is_empty() {
        rep.inconclusive(&format!("harness: {}", obs.harness.join("; ")));
    }
    out
}

// ------------------------------------------------------------------------------------------------
// running one case

fn bucket(n: usize) -> &'static str {
    match n {
        1 => "1",
        2 => "2",
        3..=4 => "3-4",
        5..=8 => "5-8",
        9..=16 => "9-16",
        _ => "17-32",
    }
}

fn cw_class(case: &Case) -> &'static str {
    let held: u64 = case.streams.iter().filter(|s| s.victim()).map(|s| (s.total() as u64).min(case.sw as u64)).sum();
    let free = (case.cw as u64).saturating_sub(held);
    match free {
        0 => "0",
        1..=99 => "<100",
        100..=16_383 => "<16k",
        16_384..=65_534 => "<64k",
        65_535 => "64k",
        _ => ">64k",
    }
}

fn rel_class(r: Rel) -> String {
    match r {
        Rel::Imm => "imm".into(),
        Rel::Every(k) => format!("every{}", k.min(4)),
        Rel::Drip(n) => format!("drip{}", if n == 1 { "1" } else if n < 50 { "7" } else { "100" }),
        Rel::Lazy => "lazy".into(),
        Rel::Never(l) => format!("never-{l:?}"),
    }
}

fn exec(case: &Case, rep: &mut Reporter, sample_kind: Option<&str>) {
    rep.eval();
    let c2 = case.clone();
    let obs = match guard(move || run_virtual(run_case(c2))) {
        Ok(o) => o,
        Err(p) => {
            rep.violation("panic", &panic_site(&p), &format!("panic while serving an HTTP/2 connection: {p}"), serde_json::to_value(case).unwrap());
            return;
        }
    };
    rep.count("client-events", obs.events);
    rep.count("quiescences", obs.quiescences);
    rep.count("quiescences-with-deferred-credit-flushed", obs.flushes);
    rep.max("virtual-ms-per-case", obs.virtual_ms);
    if obs.victims_choked_conn {
        rep.count("cases-where-victims-exhausted-the-connection-window", 1);
    }
    if case.resize.is_some() {
        rep.count("cases-with-settings-resize", 1);
    } else {
        // not part of the statement (back-pressure), reported so that a dispatcher that hands whole
        // chunks to h2 regardless of the capacity it was given shows up in the evidence
        rep.max("bytes-of-earlier-chunks-undelivered-at-quiescence-while-a-later-chunk-was-already-polled", obs.read_ahead as u64);
    }
    let n = case.streams.len();
    for s in &case.streams {
        let reset = match s.reset {
            None => "-".to_string(),
            Some(ResetAt::Open) => "open".into(),
            Some(ResetAt::Head) => "head".into(),
            Some(ResetAt::Chunk(k)) => format!("chunk{}", k.min(4)),
        };
        rep.sig(&format!("sw{}|cw{}|{}|{}|n{}|rst:{}{}", case.sw, cw_class(case), rel_class(s.rel), s.chunk_class(case.sw), bucket(n), reset, if case.resize.is_some() { "|resize" } else { "" }));
    }
    let viols = judge(case, &obs, rep);
    for v in &viols {
        rep.violation(v.class, &v.sig, &v.detail, serde_json::to_value(case).unwrap());
    }
    if let Some(k) = sample_kind {
        rep.sample(
            k,
            json!({
                "case": case,
                "events": obs.events,
                "quiescences": obs.quiescences,
                "streams": obs.streams.iter().map(|s| json!({"status": s.head.as_ref().map(|h| h.0), "bytes": s.got, "chunks": s.nchunks, "end": format!("{:?}", s.end)})).collect::<Vec<_>>(),
            }),
        );
    }
}

// ------------------------------------------------------------------------------------------------
// workloads

fn base_case(sw: u32, cw: u32) -> Case {
    Case { sw, cw, pipe: 65_536, keep_alive_s: 3600, srv_sw: 1 << 20, srv_cw: 2 << 20, resize: None, streams: vec![] }
}

fn base_stream() -> StreamSpec {
    StreamSpec {
        method: "GET".into(),
        req_body: 0,
        status: 200,
        hdrs: vec![],
        kind: Kind::Bytes,
        steps: vec![Step::D(10)],
        delta: 0,
        fail: false,
        rel: Rel::Imm,
        reset: None,
        open_after: 0,
        gate: false,
        tail_empty: false,
    }
}

/// rough number of client events a stream costs
fn cost(s: &StreamSpec, sw: u32) -> u64 {
    if s.bodiless() {
        return 2;
    }
    let mut grant = (sw as u64).min(FRAME as u64).max(1);
    if matches!(s.rel, Rel::Never(Late::Hold | Late::Reset)) {
        return 2 + (s.total() as u64).min(sw as u64) / grant;
    }
    if let Rel::Drip(k) = s.rel {
        grant = grant.min(k.max(1) as u64);
    }
    2 + s.total() as u64 / grant + s.steps.len() as u64
}

fn grid_chunkings(sw: u32) -> Vec<(&'static str, Vec<Step>)> {
    use Step::*;
    let w = sw as usize;
    vec![
        ("single-small", vec![D(37)]),
        ("many-small", vec![D(1), D(2), D(3), D(50), D(7)]),
        (">window", vec![D(2 * w + 3)]),
        ("=window", vec![D(w), D(1), D(w.saturating_sub(1)), D(w + 1)]),
        (">16k", vec![D(FRAME + 1), D(40_000)]),
        ("=16k", vec![D(FRAME), D(FRAME - 1), D(FRAME + 1)]),
        ("empties", vec![D(0), D(5), D(0), D(0), D(9), D(0)]),
        ("only-empties", vec![D(0), D(0)]),
        ("yields", vec![Y, D(10), Y, Y, D(w + 1), Y]),
        ("err-mid", vec![D(10), D(20), E, D(5)]),
        ("err-first", vec![E]),
        ("no-chunk", vec![]),
    ]
}

fn grid(ctx: &Ctx, rep: &mut Reporter) {
    let budget: u64 = if ctx.is_miri() { 60 } else if ctx.thorough() { 60_000 } else { 1_500 };
    let sws: &[u32] = if ctx.is_miri() { &[1, 100] } else { &[1, 100, 16_384, 65_535] };
    let cws = [65_535u32, 1 << 20];
    let rels = [Rel::Imm, Rel::Every(3), Rel::Drip(1), Rel::Lazy];
    let kinds = [Kind::Bytes, Kind::SizedStream, Kind::BodyStream, Kind::CustomStream, Kind::CustomSized];
    let ms = [("GET", 200u16), ("HEAD", 200), ("GET", 204), ("GET", 304), ("GET", 404)];
    let mut idx = 0u64;
    let mut complete = true;
    let mut skipped_by_budget = 0u64;
    'outer: for &sw in sws {
        let chunkings = grid_chunkings(sw);
        for &cw in &cws {
            for rel in rels {
                for (cname, steps) in &chunkings {
                    for kind in kinds {
                        if kind == Kind::Bytes && steps.iter().any(|s| !matches!(s, Step::D(n) if *n > 0)) {
                            continue; // Bytes ignores yields/errors/empties: same cell as another chunking
                        }
                        for (m, st) in ms {
                            for nstreams in [1usize, 3] {
                                let mut c = base_case(sw, cw);
                                for _ in 0..nstreams {
                                    let mut s = base_stream();
                                    s.method = m.into();
                                    s.status = st;
                                    s.kind = kind;
                                    s.steps = steps.clone();
                                    s.rel = rel;
                                    c.streams.push(s);
                                }
                                let cost: u64 = c.streams.iter().map(|s| cost(s, sw)).sum();
                                if cost > budget {
                                    skipped_by_budget += 1;
                                    continue;
                                }
                                idx += 1;
                                if !ctx.mine(idx) {
                                    continue;
                                }
                                if ctx.out_of_time() {
                                    complete = false;
                                    break 'outer;
                                }
                                let sample = if *cname == ">window" && kind == Kind::BodyStream && nstreams == 3 && rel == Rel::Lazy && sw == 100 && m == "GET" && st == 200 && cw == 65_535 {
                                    Some("grid-cell")
                                } else {
                                    None
                                };
                                exec(&c, rep, sample);
                                rep.count("grid-cells", 1);
                            }
                        }
                    }
                }
            }
        }
    }
    rep.count("grid-cells-over-event-budget-(not-run)", if ctx.shard == 0 { skipped_by_budget } else { 0 });
    rep.exhaustive("stream window x connection window x release pattern x chunking x body kind x method/status x {1,3} streams (cells under the event budget)", complete);
}

fn gen_steps(rng: &mut Rng, sw: u32, kind: Kind) -> Vec<Step> {
    let w = sw as usize;
    let n = *rng.pick(&[0usize, 1, 1, 2, 3, 4, 6, 9]);
    let mut v = vec![];
    for _ in 0..n {
        let r = rng.below(100);
        let s = if r < 12 {
            Step::Y
        } else if r < 22 && kind.verbatim() {
            Step::D(0)
        } else if r < 24 {
            Step::D(0)
        } else if r < 50 {
            Step::D(rng.range(1, 100))
        } else if r < 60 {
            Step::D(rng.range(100, 5_000))
        } else if r < 70 {
            Step::D(*rng.pick(&[w.saturating_sub(1).max(1), w, w + 1, 2 * w + 3]).min(&140_000))
        } else if r < 80 {
            Step::D(*rng.pick(&[FRAME - 1, FRAME, FRAME + 1, 2 * FRAME, 40_000]))
        } else if r < 90 {
            Step::D(rng.range(1, 20))
        } else {
            Step::D(rng.range(5_000, 70_000))
        };
        v.push(s);
    }
    if kind.scripted() && rng.chance(1, 9) {
        let at = rng.below(v.len() + 1);
        v.insert(at, Step::E);
    }
    v
}

/// smallest credit the schedule can make the server work with
fn eff_grant(c: &Case) -> u32 {
    let held: u64 = c.streams.iter().filter(|s| s.victim()).map(|s| (s.total() as u64).min(c.sw as u64)).sum();
    let free = (c.cw as u64).saturating_sub(held).max(1).min(u32::MAX as u64) as u32;
    let rs = c.resize.map(|r| r.1).unwrap_or(c.sw);
    c.sw.min(rs).min(free).max(1)
}

fn shrink_to_budget(c: &mut Case, budget: u64) {
    for _ in 0..64 {
        let sw = eff_grant(c);
        let total: u64 = c.streams.iter().map(|s| cost(s, sw)).sum();
        if total <= budget {
            return;
        }
        // halve the largest chunk of the most expensive stream
        let Some(s) = c.streams.iter_mut().max_by_key(|s| cost(s, sw)) else { return };
        if let Some(Step::D(n)) = s.steps.iter_mut().filter(|x| matches!(x, Step::D(_))).max_by_key(|x| if let Step::D(n) = x { *n } else { 0 }) {
            *n /= 2;
        }
        if let Rel::Drip(k) = s.rel {
            if k < 100 && s.total() > 2_000 {
                s.rel = Rel::Drip(100);
            }
        }
    }
}

fn gen_case(rng: &mut Rng, budget: u64) -> Case {
    let n = *rng.pick(&[1usize, 1, 2, 2, 3, 4, 4, 6, 8, 12, 16, 24, 32]);
    let sw = *rng.pick(&[1u32, 1, 2, 7, 100, 100, 1_000, 16_383, 16_384, 16_385, 65_535, 65_535, 100_000, 1 << 20]);
    let mut cw = *rng.pick(&[65_535u32, 65_535, 65_536, 100_000, 1 << 20, 1 << 20, 20_000, 3_000]);
    let mut c = base_case(sw, cw);
    c.pipe = *rng.pick(&[16usize, 64, 1_024, 16_384, 65_536, 1 << 20]);
    c.keep_alive_s = *rng.pick(&[0u64, 5, 5, 3600]);
    if rng.chance(1, 4) {
        c.srv_sw = *rng.pick(&[65_535u32, 70_000, 200_000]);
        c.srv_cw = *rng.pick(&[65_535u32, 70_000, 1 << 20]);
    }
    if rng.chance(1, 10) {
        c.resize = Some((rng.range(0, 12), *rng.pick(&[1u32, 50, 100, 1_000, 16_384, 65_535, 200_000])));
    }
    let mut resets_at_open = 0;
    let gated_case = rng.chance(1, 5);
    for _ in 0..n {
        let mut s = base_stream();
        let m = rng.below(100);
        s.method = if m < 68 { "GET" } else if m < 84 { "HEAD" } else { "POST" }.into();
        if s.method == "POST" {
            s.req_body = *rng.pick(&[0usize, 1, 10, 1_000, 16_384, 70_000, 100_000]);
            if c.srv_sw <= 100 {
                s.req_body = s.req_body.min(2_000);
            }
        }
        s.status = *rng.pick(&[200u16, 200, 200, 200, 200, 201, 204, 304, 404, 500, 206]);
        s.kind = *rng.pick(&[Kind::None, Kind::Bytes, Kind::Bytes, Kind::SizedStream, Kind::BodyStream, Kind::BodyStream, Kind::CustomStream, Kind::CustomStream, Kind::CustomSized]);
        s.steps = if s.kind == Kind::None { vec![] } else { gen_steps(rng, sw, s.kind) };
        if s.kind == Kind::Bytes {
            s.steps.retain(|x| matches!(x, Step::D(_)));
        }
        if matches!(s.kind, Kind::SizedStream | Kind::CustomSized) && !s.steps.contains(&Step::E) && rng.chance(1, 20) {
            s.delta = *rng.pick(&[-3i64, -1, 1, 5]);
            if s.data_all() as i64 + s.delta < 0 {
                s.delta = 1;
            }
        }
        s.fail = rng.chance(1, 16);
        // handler-set headers
        for (k, vals) in [
            ("connection", &["close", "keep-alive", "upgrade"][..]),
            ("transfer-encoding", &["chunked"][..]),
            ("upgrade", &["websocket"][..]),
            ("keep-alive", &["timeout=5"][..]),
            ("proxy-connection", &["keep-alive"][..]),
        ] {
            if rng.chance(1, 8) {
                s.hdrs.push((k.to_string(), rng.pick(vals).to_string()));
            }
        }
        if rng.chance(1, 5) {
            s.hdrs.push(("x-benign".into(), "1".into()));
        }
        if rng.chance(1, 6) {
            if s.kind.sized() || s.kind == Kind::None {
                // must be replaced by the real length
                s.hdrs.push(("content-length".into(), (s.declared() + 7).to_string()));
            } else if s.status != 204 && !s.steps.contains(&Step::E) {
                // honest value on a streamed body: may be passed through
                s.hdrs.push(("content-length".into(), s.data_all().to_string()));
            }
        }
        let r = rng.below(100);
        s.rel = if r < 34 {
            Rel::Imm
        } else if r < 48 {
            Rel::Every(rng.range(2, 5))
        } else if r < 62 {
            Rel::Drip(*rng.pick(&[1usize, 7, 100]))
        } else if r < 84 {
            Rel::Lazy
        } else {
            Rel::Never(*rng.pick(&[Late::Release, Late::Release, Late::Reset, Late::Hold]))
        };
        if rng.chance(1, 8) {
            let r = *rng.pick(&[ResetAt::Open, ResetAt::Head, ResetAt::Chunk(1), ResetAt::Chunk(2), ResetAt::Chunk(3), ResetAt::Chunk(5)]);
            if r != ResetAt::Open || resets_at_open < 6 {
                if r == ResetAt::Open {
                    resets_at_open += 1;
                }
                s.reset = Some(r);
            }
        }
        if rng.chance(1, 5) {
            s.open_after = rng.range(1, 20);
        }
        if gated_case && rng.chance(1, 3) {
            s.gate = true;
        }
        s.tail_empty = rng.chance(1, 4);
        c.streams.push(s);
    }
    // at least one stream that owes everything
    if c.streams.iter().all(|s| s.victim() || s.reset.is_some()) {
        c.streams[0].rel = Rel::Lazy;
        c.streams[0].reset = None;
    }
    // victims must leave connection window for the others (most of the time)
    let win = c.resize.map(|r| r.1.max(c.sw)).unwrap_or(c.sw) as u64;
    let held: u64 = c.streams.iter().filter(|s| s.victim()).map(|s| (s.total() as u64).min(win)).sum();
    if held > 0 && !rng.chance(1, 12) {
        let margin = *rng.pick(&[1u64, 100, 16_384, 65_535]);
        cw = cw.max((held + margin).min(u32::MAX as u64 / 2) as u32);
        c.cw = cw;
    }
    shrink_to_budget(&mut c, budget);
    // keep declared sizes honest after shrinking user content-length values
    for s in c.streams.iter_mut() {
        let (declared, all, sized) = (s.declared(), s.data_all(), s.kind.sized() || s.kind == Kind::None);
        for (k, v) in s.hdrs.iter_mut() {
            if k == "content-length" {
                *v = if sized { (declared + 7).to_string() } else { all.to_string() };
            }
        }
    }
    c
}

/// open only once nothing else can move
const AT_QUIESCENCE: usize = 1_000_000_000;

/// request-body sizes of the slow streams relative to the server's connection receive window `w`
const UPLOAD_PATTERNS: [&str; 8] = ["all=win", "all=win+1", "all=win-1", "last=win", "last=win+1", "big+small", "over", "random"];

/// size of the last DATA frame of a body when no window limits it
fn last_frame(b: usize) -> usize {
    if b == 0 {
        0
    } else if b % FRAME == 0 {
        FRAME
    } else {
        b % FRAME
    }
}

fn slow_bodies(rng: &mut Rng, w: usize, k: usize, pattern: &str) -> Vec<usize> {
    let even = |total: usize| -> Vec<usize> {
        // remainder spread one byte each so that every body stays a single frame when it can
        (0..k).map(|j| total / k + usize::from(j < total % k)).collect::<Vec<usize>>()
    };
    match pattern {
        "all=win" => even(w),
        "all=win+1" => even(w + 1),
        "all=win-1" => even(w - 1),
        "last=win" | "last=win+1" => {
            // multi-frame bodies; the last one is sized so that the final frames add up to the window
            let target = if pattern == "last=win" { w } else { w + 1 };
            let mut v = vec![];
            let mut sum_last = 0usize;
            for j in 0..k {
                let left = target.saturating_sub(sum_last);
                let lf = if j + 1 == k { left.min(FRAME) } else { (left / (k - j)).clamp(1, FRAME) };
                let full = if lf < FRAME { rng.below(3) } else { rng.below(2) };
                v.push(full * FRAME + lf);
                sum_last += lf;
            }
            v
        }
        "big+small" => {
            let big = *rng.pick(&[20_000usize, 40_000, 50_000]);
            let mut v = vec![big.min(w.saturating_sub(k).max(1))];
            let rest = w.saturating_sub(if rng.chance(1, 2) { v[0] } else { last_frame(v[0]) });
            let m = k.saturating_sub(1).max(1);
            for j in 0..m {
                v.push((rest / m + if j == 0 { rest % m } else { 0 }).min(FRAME).max(1));
            }
            v
        }
        "over" => vec![(w / k + rng.range(1, 2_000)).min(FRAME); k + 2],
        _ => (0..k).map(|_| *rng.pick(&[1usize, 100, 4_096, 13_107, FRAME - 1, FRAME, FRAME + 1, 20_000, 40_000])).collect(),
    }
}

fn upload_case(rng: &mut Rng, w: u32, k: usize, pattern: &str, tail_empty: bool, fast_late: bool, fast_body: usize) -> Case {
    let mut c = base_case(65_535, 1 << 20);
    c.srv_cw = w;
    c.srv_sw = *rng.pick(&[65_535u32, 200_000, 1 << 20]);
    c.pipe = *rng.pick(&[1_024usize, 65_536, 1 << 20]);
    for b in slow_bodies(rng, w as usize, k, pattern) {
        let mut s = base_stream();
        s.method = "POST".into();
        s.req_body = b;
        s.gate = true;
        s.tail_empty = tail_empty;
        s.steps = vec![Step::D(rng.range(1, 40))];
        c.streams.push(s);
    }
    // the streams that must be served while the slow ones are held
    let open_after = if fast_late { AT_QUIESCENCE } else { 0 };
    let mut f = base_stream();
    f.method = "POST".into();
    f.req_body = fast_body;
    f.tail_empty = tail_empty && rng.chance(1, 2);
    f.open_after = open_after;
    f.rel = *rng.pick(&[Rel::Imm, Rel::Lazy]);
    c.streams.push(f);
    for _ in 0..rng.below(3) {
        let mut g = base_stream();
        let m = rng.below(3);
        g.method = ["GET", "HEAD", "POST"][m].into();
        if m == 2 {
            g.req_body = *rng.pick(&[0usize, 1, 100, FRAME, 40_000, 70_000]);
        }
        g.kind = *rng.pick(&[Kind::Bytes, Kind::BodyStream, Kind::CustomStream]);
        g.steps = vec![Step::D(rng.range(1, 3_000))];
        g.open_after = if rng.chance(1, 2) { AT_QUIESCENCE } else { 0 };
        c.streams.push(g);
    }
    c
}

fn upload_sig(rep: &mut Reporter, c: &Case, k: usize, pattern: &str, tail_empty: bool, fast_late: bool, fast_body: usize) {
    let fb = match fast_body {
        0 => "0",
        1..=16_384 => "<=16k",
        _ => ">16k",
    };
    rep.sig(&format!("upload|srvcw{}|srvsw{}|k{}|{}|tail{}|fast{}:{}|n{}", c.srv_cw, c.srv_sw, bucket(k), pattern, tail_empty, if fast_late { "late" } else { "upfront" }, fb, bucket(c.streams.len())));
    rep.count("upload-connections", 1);
    rep.count(&format!("upload-connections:{pattern}"), 1);
    rep.count("upload-slow-streams", k as u64);
}

/// Phase C: slow streams pin whatever the server does not refund of its connection receive window
fn uploads(ctx: &Ctx, rep: &mut Reporter) {
    // enumerated part
    let mut idx = 0u64;
    let mut complete = true;
    'outer: for w in [65_535u32, 70_000] {
        for k in [4usize, 5, 8, 16] {
            for pattern in ["all=win", "all=win+1", "all=win-1", "last=win"] {
                for tail_empty in [false, true] {
                    for fast_late in [false, true] {
                        for fast_body in [1usize, 13_107, 40_000] {
                            idx += 1;
                            if !ctx.mine(idx) {
                                continue;
                            }
                            if ctx.out_of_time() {
                                complete = false;
                                break 'outer;
                            }
                            let mut rng = Rng::derive(ctx.seed, 9, idx);
                            let c = upload_case(&mut rng, w, k, pattern, tail_empty, fast_late, fast_body);
                            upload_sig(rep, &c, k, pattern, tail_empty, fast_late, fast_body);
                            exec(&c, rep, if idx == 1 { Some("upload-connection") } else { None });
                        }
                    }
                }
            }
        }
    }
    rep.exhaustive("uploads: server connection window x slow-stream count x body-size pattern x END_STREAM placement x fast-stream timing x fast body size", complete);
    // random part
    let n = if ctx.is_miri() { 2 } else { ctx.share(3_200, 80_000) };
    for j in 0..n {
        if ctx.out_of_time() {
            break;
        }
        let mut rng = Rng::derive(ctx.seed, 10, j * ctx.nshards + ctx.shard);
        let w = *rng.pick(&[65_535u32, 65_535, 65_536, 70_000, 100_000, 131_072]);
        let k = *rng.pick(&[1usize, 2, 3, 4, 5, 6, 8, 12, 16, 24]);
        let pattern = *rng.pick(&UPLOAD_PATTERNS);
        let (tail_empty, fast_late) = (rng.chance(1, 4), rng.chance(2, 3));
        let fast_body = *rng.pick(&[0usize, 1, 100, 13_107, FRAME, 40_000, 70_000]);
        let c = upload_case(&mut rng, w, k, pattern, tail_empty, fast_late, fast_body);
        upload_sig(rep, &c, k, pattern, tail_empty, fast_late, fast_body);
        exec(&c, rep, None);
    }
}

pub fn run(ctx: &Ctx, rep: &mut Reporter) {
    if let Some(r) = &ctx.replay {
        match serde_json::from_value::<Case>(r.clone()) {
            Ok(c) => {
                exec(&c, rep, Some("replay"));
                rep.sig("replay-a");
                rep.sig("replay-b");
            }
            Err(e) => rep.inconclusive(&format!("replay file is not a C08 case: {e}")),
        }
        return;
    }

    // Phase A: the grid
    grid(ctx, rep);

    // Phase C: uploads against small server connection windows with slow (gated) streams
    uploads(ctx, rep);

    // Phase B: random connections
    let budget: u64 = if ctx.is_miri() { 60 } else if ctx.thorough() { 8_000 } else { 1_500 };
    let n = if ctx.is_miri() { 6 } else { ctx.share(9_600, 250_000) };
    for k in 0..n {
        if ctx.out_of_time() {
            break;
        }
        let mut rng = Rng::derive(ctx.seed, 8, k * ctx.nshards + ctx.shard);
        let c = gen_case(&mut rng, budget);
        let sample = if k == 3 { Some("random-connection") } else { None };
        exec(&c, rep, sample);
        rep.count("random-connections", 1);
        rep.count(&format!("random-connections-with-{}-streams", bucket(c.streams.len())), 1);
    }
}
