//! C05 — HTTP/1 per-connection memory is bounded by configuration, not by the peer.
//!
//! "Maximum over all executions" restated as (i) ceilings derived from the documented constants
//! and the configuration, with 2× slack, and (ii) scale invariance: what a connection retains at
//! offered load 8·N exceeds what it retains at load N by at most one segment / a small ε.
//!
//! Obs: black-box byte accounting at the socket and at the application boundary (input is produced
//! lazily, one segment at a time, only while the server is still taking bytes, so the harness holds
//! O(1)), plus the live-heap high-water mark of a counting global allocator inside the window.

use serde_json::{json, Value};

use crate::{
    refmodel::h1_resp,
    report::{guard, panic_site, Ctx, Reporter},
    util::Rng,
    world::{
        alloc,
        conn::{open_h1, ConnCfg},
        exec::{breathe, run_virtual, Driven},
        svc::{open_gate, world, BStep, BodyKind, Prog, ReadMode},
    },
};

const READ_BUF_LIMIT: usize = 131_072;
const PAYLOAD_LIMIT: usize = 32_768;
const SEG: usize = 16_384;

#[derive(Clone, Debug)]
pub struct Case {
    /// "head-line" | "head-many" | "request-line" | "body" | "pipeline" | "response"
    pub scenario: String,
    /// total bytes (or, for "pipeline", requests; for "response", body bytes) offered
    pub load: usize,
    /// consumer: "hold" never reads, "slow" one chunk per step, "gated-handler" (payload alive, unread)
    pub consumer: String,
    pub chunked: bool,
    pub write_buf: Option<usize>,
    pub chunk: usize,
    /// "zero" | "trickle"
    pub credit: String,
    /// the response is produced through the service's `Err` path (separate sending code)
    pub via_err: bool,
    /// size of the chunks of a chunked request body (0: one chunk per 16 KiB segment)
    pub req_chunk: usize,
}

impl Case {
    fn to_json(&self) -> Value {
        json!({"scenario": self.scenario, "load": self.load, "consumer": self.consumer, "chunked": self.chunked, "write_buf": self.write_buf, "chunk": self.chunk, "credit": self.credit, "via_err": self.via_err, "req_chunk": self.req_chunk})
    }
    fn from_json(v: &Value) -> Case {
        Case {
            scenario: v["scenario"].as_str().unwrap_or("body").to_string(),
            load: v["load"].as_u64().unwrap_or(1 << 20) as usize,
            consumer: v["consumer"].as_str().unwrap_or("hold").to_string(),
            chunked: v["chunked"].as_bool().unwrap_or(false),
            write_buf: v["write_buf"].as_u64().map(|x| x as usize),
            chunk: v["chunk"].as_u64().unwrap_or(1000) as usize,
            credit: v["credit"].as_str().unwrap_or("zero").to_string(),
            via_err: v["via_err"].as_bool().unwrap_or(false),
            req_chunk: v["req_chunk"].as_u64().unwrap_or(0) as usize,
        }
    }
    fn sig(&self) -> String {
        format!("{}|{}|chunked={}|wb={:?}|chunk={}|{}|err={}|rc={}", self.scenario, self.consumer, self.chunked, self.write_buf, self.chunk, self.credit, self.via_err, self.req_chunk)
    }
}

#[derive(Clone, Debug, Default)]
pub struct Meas {
    pub offered: usize,
    pub taken: usize,
    pub head_len: usize,
    pub delivered: usize,
    /// max over steps of (taken − head − delivered)
    pub max_read_ahead: usize,
    pub pulled: usize,
    pub written: usize,
    /// max over steps of (pulled − written)
    pub max_write_ahead: usize,
    pub heap_peak_delta: usize,
    pub heap_live_delta_end: isize,
    pub handlers: usize,
    pub statuses: Vec<u16>,
    pub done: bool,
    pub steps: usize,
    pub livelock: bool,
    pub server_stopped_reading: bool,
}

/// Produce the next input segment lazily.
struct Source {
    scenario: String,
    req_chunk: usize,
    chunked: bool,
    sent: usize,
    load: usize,
    head: Vec<u8>,
    k: usize,
}

impl Source {
    fn new(c: &Case) -> Source {
        let head = match c.scenario.as_str() {
            "head-line" | "head-exact" => b"GET /x HTTP/1.1\r\nHost: t\r\nX-Endless: ".to_vec(),
            "head-many" => b"GET /x HTTP/1.1\r\nHost: t\r\n".to_vec(),
            "request-line" => b"GET /".to_vec(),
            "body" => {
                if c.chunked {
                    b"POST /x HTTP/1.1\r\nHost: t\r\nTransfer-Encoding: chunked\r\n\r\n".to_vec()
                } else {
                    format!("POST /x HTTP/1.1\r\nHost: t\r\nContent-Length: {}\r\n\r\n", c.load.max(1) * 4).into_bytes()
                }
            }
            "response" => b"GET /x HTTP/1.1\r\nHost: t\r\n\r\n".to_vec(),
            _ => vec![],
        };
        Source { scenario: c.scenario.clone(), req_chunk: c.req_chunk, chunked: c.chunked, sent: 0, load: c.load, head, k: 0 }
    }
    fn next(&mut self) -> Option<Vec<u8>> {
        if self.sent == 0 && !self.head.is_empty() {
            self.sent = self.head.len();
            return Some(self.head.clone());
        }
        match self.scenario.as_str() {
            "response" => None,
            "pipeline-post" => {
                if self.k >= self.load {
                    return None;
                }
                // every segment ends inside a request body: [rest of previous body] [whole
                // requests...] [head + first half of a body]
                let body = b"0123456789";
                let mut v = Vec::with_capacity(SEG);
                if self.k > 0 {
                    v.extend_from_slice(&body[5..]);
                }
                loop {
                    let head = format!("POST /p{} HTTP/1.1\r\nHost: t\r\nContent-Length: 10\r\n\r\n", self.k);
                    self.k += 1;
                    v.extend_from_slice(head.as_bytes());
                    if v.len() + 80 >= SEG || self.k >= self.load {
                        v.extend_from_slice(&body[..5]);
                        break;
                    }
                    v.extend_from_slice(body);
                }
                self.sent += v.len();
                Some(v)
            }
            "pipeline" => {
                if self.k >= self.load {
                    return None;
                }
                let mut v = Vec::with_capacity(SEG);
                while v.len() + 40 < SEG && self.k < self.load {
                    v.extend_from_slice(format!("GET /p{} HTTP/1.1\r\nHost: t\r\n\r\n", self.k).as_bytes());
                    self.k += 1;
                }
                self.sent += v.len();
                Some(v)
            }
            _ => {
                if self.sent >= self.load + self.head.len() {
                    return None;
                }
                if self.scenario == "head-exact" {
                    // fill up to exactly `load` bytes in total, in pieces that end on the limit
                    let left = self.load + self.head.len() - self.sent;
                    let n = left.min(SEG);
                    self.sent += n;
                    return Some(vec![b'a'; n]);
                }
                let v = match self.scenario.as_str() {
                    "head-many" => {
                        let mut v = Vec::with_capacity(SEG);
                        while v.len() + 30 < SEG {
                            v.extend_from_slice(format!("X-H{}: value-{}\r\n", self.k, self.k).as_bytes());
                            self.k += 1;
                        }
                        v
                    }
                    "body" if self.chunked && self.req_chunk > 0 => {
                        // many small chunks per segment: the consumer sees them one by one
                        let mut v = Vec::with_capacity(SEG + 64);
                        while v.len() + self.req_chunk + 16 < SEG {
                            v.extend_from_slice(format!("{:x}\r\n", self.req_chunk).as_bytes());
                            v.extend(std::iter::repeat_n(b'c', self.req_chunk));
                            v.extend_from_slice(b"\r\n");
                        }
                        v
                    }
                    "body" if self.chunked => {
                        let mut v = format!("{:x}\r\n", SEG - 8).into_bytes();
                        v.extend(std::iter::repeat_n(b'b', SEG - 8));
                        v.extend_from_slice(b"\r\n");
                        v
                    }
                    _ => vec![b'a'; SEG],
                };
                self.sent += v.len();
                Some(v)
            }
        }
    }
}

pub fn measure(c: &Case) -> Meas {
    let c = c.clone();
    run_virtual(async move {
        let mut cfg = ConnCfg::persistent();
        cfg.write_buf = c.write_buf;
        let mut prog = Prog::default();
        match c.scenario.as_str() {
            "body" => {
                prog.read = match c.consumer.as_str() {
                    "hold" => ReadMode::Hold,
                    "slow" => ReadMode::All,
                    _ => ReadMode::Ignore,
                };
                if c.consumer == "slow" {
                    prog.read_gate = Some(1);
                }
                // the handler never answers inside the window: the payload stays alive
                prog.post_gate = Some(0);
                if c.consumer == "gated-handler" {
                    prog.pre_gate = Some(0);
                }
            }
            "pipeline" | "pipeline-post" => {
                prog.post_gate = Some(0);
            }
            "response" => {
                prog.fail = c.via_err;
                prog.kind = BodyKind::BodyStream;
                prog.steps = vec![BStep::Gen { len: c.chunk, times: c.load / c.chunk.max(1) + 1 }];
            }
            _ => {}
        }
        let w = world(vec![prog], 2);
        w.borrow_mut().record_bodies = false;
        let (mut d, io) = open_h1(&cfg, w.clone()).await;
        if c.scenario == "response" {
            io.set_credit(0);
        }
        let mut m = Meas::default();
        let mut src = Source::new(&c);
        m.head_len = src.head.len();
        // settle helper
        async fn quiet(d: &mut Driven<crate::world::conn::ConnResult>, livelock: &mut bool) {
            let mut n = 0;
            loop {
                breathe().await;
                if d.done() || !d.poll_if_woken() {
                    return;
                }
                n += 1;
                // Self-wake spinning (e.g. a full read buffer behind a pending handler) is not a
                // memory question: the step ends after a bounded number of polls and is counted.
                if n > 2_000 {
                    *livelock = true;
                    return;
                }
            }
        }
        quiet(&mut d, &mut m.livelock).await;
        let base_live = alloc::reset_peak();
        let mut idle_steps = 0;
        let max_steps = 4000;
        loop {
            m.steps += 1;
            if m.steps > max_steps || d.done() {
                break;
            }
            // offer the next segment only when the server has taken everything offered so far
            let mut offered_now = false;
            if io.pending_in() == 0 {
                if let Some(seg) = src.next() {
                    m.offered += seg.len();
                    io.push(&seg);
                    offered_now = true;
                }
            }
            // environment-side progress that does not depend on the server
            if c.scenario == "body" && c.consumer == "slow" {
                open_gate(&w, 1, 1);
            }
            if c.scenario == "response" && c.credit == "trickle" {
                io.grant(97);
            }
            let before = (io.bytes_read(), io.out_len());
            quiet(&mut d, &mut m.livelock).await;
            let after = (io.bytes_read(), io.out_len());
            m.taken = io.bytes_read() as usize;
            m.written = io.out_len();
            {
                let wd = w.borrow();
                m.delivered = wd.body_bytes_delivered as usize;
                m.pulled = wd.resp_bytes_pulled as usize;
                m.handlers = wd.reqs.len();
            }
            if c.scenario == "body" {
                m.max_read_ahead = m.max_read_ahead.max(m.taken.saturating_sub(m.head_len).saturating_sub(m.delivered));
            } else {
                m.max_read_ahead = m.max_read_ahead.max(m.taken);
            }
            m.max_write_ahead = m.max_write_ahead.max(m.pulled.saturating_sub(m.written));
            if before == after && !offered_now {
                idle_steps += 1;
            } else {
                idle_steps = 0;
            }
            let exhausted = io.pending_in() == 0 && src.scenario != "response" && src.sent >= src.load + src.head.len() && !src.scenario.starts_with("pipeline");
            let exhausted = exhausted || (src.scenario.starts_with("pipeline") && src.k >= src.load && io.pending_in() == 0);
            if c.scenario == "response" {
                if c.credit == "zero" && idle_steps >= 3 {
                    break;
                }
                if c.credit == "trickle" && m.steps >= 400 {
                    break;
                }
            } else if idle_steps >= 3 {
                // the server has stopped taking bytes although more are on offer
                m.server_stopped_reading = io.pending_in() > 0;
                break;
            } else if exhausted && idle_steps >= 2 {
                break;
            }
        }
        m.heap_peak_delta = alloc::peak().saturating_sub(base_live);
        m.heap_live_delta_end = alloc::live() as isize - base_live as isize;
        m.done = d.done();
        let out = io.out();
        let rp = h1_resp::parse_responses(&out, &|_| Some("GET".into()), d.done());
        m.statuses = rp.resps.iter().map(|r| r.status).collect();
        // tear down quietly
        d.abandon();
        m
    })
}

struct Verdict {
    class: &'static str,
    sig: String,
    detail: String,
}

fn judge(c: &Case, m: &Meas, small: Option<&Meas>) -> Vec<Verdict> {
    let mut v = vec![];
    // scale invariance compares two *saturated* runs: the smaller load must already have made
    // the server stop taking bytes (otherwise it simply was not offered enough)
    let small = small.filter(|s| c.scenario == "response" || s.server_stopped_reading);
    let sig = format!("{} {}", c.scenario, c.consumer);
    match c.scenario.as_str() {
        "head-exact" => {
            // a head that is still incomplete when the unparsed input reaches the ceiling exactly
            // is refused as well (and the connection ends), it must not sit there
            if m.offered != READ_BUF_LIMIT {
                // (the reduced-load companion run offers less than the ceiling: nothing to demand)
            } else if !m.statuses.contains(&431) {
                v.push(Verdict { class: "oversized-head-not-refused", sig: sig.clone(), detail: format!("exactly {} bytes of incomplete head offered ({} taken): responses {:?}, expected 431", m.offered, m.taken, m.statuses) });
            } else if !m.done {
                v.push(Verdict { class: "oversized-head-connection-kept", sig: sig.clone(), detail: "connection still open after the 431".into() });
            }
        }
        "head-line" | "head-many" | "request-line" => {
            // unparsed input is limited: refused, and the server stops taking bytes
            let ceiling = 2 * READ_BUF_LIMIT + 2 * SEG;
            if m.taken > ceiling {
                v.push(Verdict { class: "unparsed-input-unbounded", sig: sig.clone(), detail: format!("the server took {} bytes of a request head that never completes (offered {}), ceiling {}", m.taken, m.offered, ceiling) });
            }
            let refused = m.statuses.iter().any(|s| *s == 431 || (*s == 400 && c.scenario != "head-line"));
            if m.offered > ceiling && !refused {
                v.push(Verdict { class: "oversized-head-not-refused", sig: sig.clone(), detail: format!("{} bytes of head offered, {} taken, responses {:?} (expected 431{})", m.offered, m.taken, m.statuses, if c.scenario == "head-line" { "" } else { " or 400" }) });
            }
            if m.offered > ceiling && !m.done {
                v.push(Verdict { class: "oversized-head-connection-kept", sig: sig.clone(), detail: format!("connection still open after refusing the head (responses {:?})", m.statuses) });
            }
            if m.handlers > 0 {
                v.push(Verdict { class: "handler-ran-on-incomplete-head", sig: sig.clone(), detail: "a handler ran although the head never completed".into() });
            }
        }
        "body" => {
            let ceiling = 2 * (READ_BUF_LIMIT + PAYLOAD_LIMIT) + 2 * SEG;
            if m.max_read_ahead > ceiling {
                v.push(Verdict {
                    class: "request-body-read-ahead-unbounded",
                    sig: sig.clone(),
                    detail: format!("{} body bytes were taken from the socket ahead of the handler (delivered {}, offered {}), ceiling {}", m.max_read_ahead, m.delivered, m.offered, ceiling),
                });
            }
            if let Some(s) = small {
                if m.max_read_ahead > s.max_read_ahead + 2 * SEG + PAYLOAD_LIMIT {
                    v.push(Verdict {
                        class: "request-body-read-ahead-grows-with-load",
                        sig: sig.clone(),
                        detail: format!("read-ahead {} at offered load {} vs {} at load {}", m.max_read_ahead, m.offered, s.max_read_ahead, s.offered),
                    });
                }
            }
        }
        "pipeline" | "pipeline-post" => {
            let ceiling = 2 * READ_BUF_LIMIT + 2 * SEG;
            if m.taken > ceiling {
                v.push(Verdict { class: "pipelined-input-unbounded", sig: sig.clone(), detail: format!("{} bytes of pipelined requests taken while the first handler is pending (offered {}), ceiling {}", m.taken, m.offered, ceiling) });
            }
            if m.handlers > 1 {
                v.push(Verdict { class: "pipelined-dispatch-while-pending", sig: sig.clone(), detail: format!("{} handlers ran while the first is pending", m.handlers) });
            }
            if let Some(s) = small {
                if m.taken > s.taken + 2 * SEG {
                    v.push(Verdict { class: "pipelined-input-grows-with-load", sig: sig.clone(), detail: format!("{} bytes taken at {} requests offered vs {} at {}", m.taken, c.load, s.taken, s.offered) });
                }
            }
        }
        "response" => {
            let wb = c.write_buf.unwrap_or(32_768);
            // configured write buffer + one body chunk + head and chunk framing, 2x slack
            let ceiling = 2 * (wb + c.chunk) + 4096;
            if m.max_write_ahead > ceiling {
                v.push(Verdict {
                    class: "response-write-ahead-unbounded",
                    sig: format!("{sig} {}", c.credit),
                    detail: format!("{} response-body bytes were pulled from the handler's body ahead of the socket (written {}), write buffer {} + chunk {} => ceiling {}", m.max_write_ahead, m.written, wb, c.chunk, ceiling),
                });
            }
            if let Some(s) = small {
                if m.max_write_ahead > s.max_write_ahead + c.chunk + 1024 {
                    v.push(Verdict { class: "response-write-ahead-grows-with-load", sig: format!("{sig} {}", c.credit), detail: format!("write-ahead {} with a {}-byte body vs {} with {}", m.max_write_ahead, c.load, s.max_write_ahead, s.offered) });
                }
            }
        }
        _ => {}
    }
    // heap: generous absolute ceiling plus scale invariance
    let heap_ceiling = match c.scenario.as_str() {
        "response" => 4 * (c.write_buf.unwrap_or(32_768) + c.chunk) + (1 << 20),
        // queued request objects: bounded by what fits the read buffer; each is a few hundred bytes
        "pipeline" | "pipeline-post" => 24 << 20,
        _ => 2 << 20,
    };
    if m.heap_peak_delta > heap_ceiling {
        v.push(Verdict { class: "heap-high-water-above-ceiling", sig: sig.clone(), detail: format!("live heap rose by {} bytes inside the window (ceiling {}), offered {}", m.heap_peak_delta, heap_ceiling, m.offered) });
    }
    if let Some(s) = small {
        let eps = match c.scenario.as_str() {
            "response" => 2 * c.chunk + (256 << 10),
            _ => 512 << 10,
        };
        if m.heap_peak_delta > s.heap_peak_delta + eps {
            v.push(Verdict {
                class: "heap-grows-with-offered-load",
                sig: sig.clone(),
                detail: format!("heap high-water {} at load {} vs {} at load {} (ε {})", m.heap_peak_delta, c.load, s.heap_peak_delta, s.offered, eps),
            });
        }
    }
    v
}

fn eval_pair(c: &Case, rep: &mut Reporter) {
    rep.eval();
    // scale invariance: the same scenario at 1/8 of the load
    let mut small_case = c.clone();
    small_case.load = (c.load / 8).max(1);
    let small = match guard(|| measure(&small_case)) {
        Ok(m) => m,
        Err(p) => {
            rep.violation("panic", &panic_site(&p), &format!("panic: {p}"), small_case.to_json());
            return;
        }
    };
    let big = match guard(|| measure(c)) {
        Ok(m) => m,
        Err(p) => {
            rep.violation("panic", &panic_site(&p), &format!("panic: {p}"), c.to_json());
            return;
        }
    };
    if std::env::var("AVMON_DEBUG").is_ok() {
        eprintln!("small {small:?}\nbig   {big:?}");
    }
    rep.count("bytes_offered", big.offered as u64);
    rep.count("bytes_taken_by_server", big.taken as u64);
    rep.count(&format!("scenario:{}", c.scenario), 1);
    rep.max(&format!("read_ahead:{}", c.scenario), big.max_read_ahead as u64);
    rep.max(&format!("write_ahead:{}", c.scenario), big.max_write_ahead as u64);
    rep.max(&format!("heap_peak_delta:{}", c.scenario), big.heap_peak_delta as u64);
    if big.livelock {
        rep.count("runs_with_self_wake_spinning(observed, not judged)", 1);
    }
    if big.server_stopped_reading {
        rep.count("runs_where_server_stopped_reading_with_input_on_offer", 1);
    }
    for s in &big.statuses {
        rep.count(&format!("status:{s}"), 1);
    }
    for vd in judge(c, &big, Some(&small)) {
        rep.violation(vd.class, &vd.sig, &format!("{} | case {}", vd.detail, c.to_json()), c.to_json());
    }
    for vd in judge(&small_case, &small, None) {
        rep.violation(vd.class, &vd.sig, &format!("{} | case {}", vd.detail, small_case.to_json()), small_case.to_json());
    }
    rep.sig(&c.sig());
}

fn grid(thorough: bool) -> Vec<Case> {
    let mut v = vec![];
    let base = Case { scenario: String::new(), load: 0, consumer: "hold".into(), chunked: false, write_buf: None, chunk: 1000, credit: "zero".into(), via_err: false, req_chunk: 0 };
    for sc in ["head-line", "head-many", "request-line"] {
        for load in if thorough { vec![2 << 20, 16 << 20] } else { vec![2 << 20] } {
            v.push(Case { scenario: sc.into(), load, ..base.clone() });
        }
    }
    for consumer in ["hold", "slow", "gated-handler"] {
        for chunked in [false, true] {
            for load in if thorough { vec![2 << 20, 32 << 20] } else { vec![4 << 20] } {
                v.push(Case { scenario: "body".into(), load, consumer: consumer.into(), chunked, ..base.clone() });
            }
        }
    }
    // a slow consumer that takes one small chunk per step while 16 KiB arrive per step
    for rc in [64usize, 1024] {
        v.push(Case { scenario: "body".into(), load: 6 << 20, consumer: "slow".into(), chunked: true, req_chunk: rc, ..base.clone() });
    }
    for load in if thorough { vec![20_000usize, 200_000] } else { vec![40_000] } {
        v.push(Case { scenario: "pipeline".into(), load, ..base.clone() });
        v.push(Case { scenario: "pipeline-post".into(), load, ..base.clone() });
    }
    // exactly the unparsed-input ceiling of incomplete head, then silence
    // (37 = length of the head prefix: the total offered is exactly READ_BUF_LIMIT)
    v.push(Case { scenario: "head-exact".into(), load: READ_BUF_LIMIT - 37, ..base.clone() });
    for wb in [Some(1usize), Some(512), Some(4096), None, Some(1 << 20)] {
        for chunk in [1usize, 1000, 70_000] {
            for credit in ["zero", "trickle"] {
                let total = (wb.unwrap_or(32_768) + chunk) * 16 + (1 << 20);
                // 1-byte chunks: keep the step count sane
                let total = if chunk == 1 { total.min(3 << 20) } else { total };
                v.push(Case { scenario: "response".into(), load: total, write_buf: wb, chunk, credit: credit.into(), ..base.clone() });
                if credit == "zero" {
                    v.push(Case { scenario: "response".into(), load: total, write_buf: wb, chunk, credit: credit.into(), via_err: true, ..base.clone() });
                }
            }
        }
    }
    v
}

pub fn run(ctx: &Ctx, rep: &mut Reporter) {
    if let Some(r) = &ctx.replay {
        eval_pair(&Case::from_json(r), rep);
        rep.sig("replay-a");
        rep.sig("replay-b");
        return;
    }
    let g = grid(ctx.thorough());
    let mut complete = true;
    for (k, c) in g.iter().enumerate() {
        if !ctx.mine(k as u64) {
            continue;
        }
        if ctx.out_of_time() {
            complete = false;
            break;
        }
        eval_pair(c, rep);
        if k % 16 == 3 {
            rep.sample("grid-case", c.to_json());
        }
    }
    rep.exhaustive("configuration grid: scenario x consumer x framing x write-buffer size x chunk size x credit mode", complete);
    rep.max("grid_cases", g.len() as u64);
    // random variations of sizes around the grid points
    let n = ctx.share(160, 4000);
    for k in 0..n {
        if ctx.out_of_time() {
            break;
        }
        let mut rng = Rng::derive(ctx.seed, 5, k * ctx.nshards + ctx.shard);
        let mut c = rng.pick(&g).clone();
        match c.scenario.as_str() {
            "response" => {
                c.write_buf = Some(*rng.pick(&[1usize, 7, 100, 512, 3000, 4096, 20_000, 32_768, 100_000]));
                c.chunk = *rng.pick(&[1usize, 2, 100, 1000, 9000, 33_000, 70_000]);
                c.via_err = rng.chance(1, 3);
                c.load = (c.write_buf.unwrap_or(32_768) + c.chunk) * rng.range(8, 24) + (512 << 10);
                if c.chunk <= 2 {
                    c.load = c.load.min(2 << 20);
                }
            }
            "pipeline" => c.load = rng.range(8_000, 60_000),
            _ => c.load = rng.range(1 << 20, 6 << 20),
        }
        eval_pair(&c, rep);
    }
}
