//! C11 — requests are isolated: nothing from an earlier request is visible in a later one,
//! even though `HttpRequest` allocations are recycled through the per-worker pool.
//!
//! Oracle (differential / metamorphic): everything a middleware, a guard or a handler can read
//! from the request while request k runs inside a *history* (2–400 requests through ONE service
//! instance) must equal what the same code reads when the same request is the only one ever sent
//! to a freshly built, identical service.  The observation is a line-by-line dump taken at every
//! site the request passes (app middleware before routing and after the handler, guards, scope
//! middleware, handler / default service).
//!
//! Pool reuse is confirmed, not assumed: the address of `req.match_info()` (a field of the pooled
//! allocation) is recorded per request and compared with a LIFO/cap-128 model of the pool that the
//! harness maintains from the drops it controls.  A shard also runs a *fingerprint* probe (release
//! 40 live requests in a random order, the next 40 must come back in exactly the reverse order —
//! which a malloc free list does not reproduce); no confirmed reuse ⇒ inconclusive.
//!
//! Mode "svc": `test::init_service` + `call_service`.  Mode "stack": the real `HttpService` with
//! `on_connect_ext` over in-memory sockets, several connections with different connection data.

use std::{
    cell::{Cell, RefCell},
    collections::{BTreeMap, HashMap, HashSet},
    net::SocketAddr,
    panic::AssertUnwindSafe,
    rc::Rc,
    time::Duration,
};

use actix_http::{body::BoxBody, Extensions, HttpService, KeepAlive, Protocol, Request};
use actix_service::{map_config, Service, ServiceFactory};
use actix_web::{
    dev::{AppConfig, ServiceRequest, ServiceResponse},
    guard,
    http::{header::HeaderMap, Method, Version},
    test, web, App, Error, HttpMessage, HttpRequest, HttpResponse,
};
use futures_util::FutureExt as _;
use serde_json::{json, Value};

use crate::{
    report::{guard as pguard, panic_site, Ctx, Reporter},
    util::Rng,
    world::{
        exec::{run_virtual, settle, Driven},
        io::{script_io, IoHandle, ScriptIo},
    },
};

const POOL_CAP: usize = 128;
const ALL: usize = 1_000_000;

// ------------------------------------------------------------------------------------------------
// marker types
// ------------------------------------------------------------------------------------------------

/// Liveness token: lets the harness count how many values of a kind are still alive.
struct Tok(Rc<Cell<i64>>);
impl Tok {
    fn new(c: &Rc<Cell<i64>>) -> Tok {
        c.set(c.get() + 1);
        Tok(c.clone())
    }
}
impl Drop for Tok {
    fn drop(&mut self) {
        self.0.set(self.0.get() - 1);
    }
}

struct ExtA(String, #[allow(dead_code)] Tok);
struct ExtB(String, #[allow(dead_code)] Tok);
struct ExtC(String, #[allow(dead_code)] Tok);
struct ExtD(String, #[allow(dead_code)] Tok);
struct PlainA(&'static str);
struct PlainB(&'static str);
struct PlainC(&'static str);
struct DA(&'static str);
struct DB(&'static str);
struct ConnTag(u32, #[allow(dead_code)] Tok);
struct ConnExtra(u32);

#[derive(Default)]
struct Shared {
    /// observation lines of the request in flight: "site|key=value"
    log: RefCell<Vec<String>>,
    /// address of `match_info()` as seen by the app-level middleware (0: request never arrived)
    addr: Cell<usize>,
    /// clones of `HttpRequest` kept alive by handlers (`x-hold`)
    stash: RefCell<Vec<HttpRequest>>,
    /// stack mode: tag given to the next connection by `on_connect_ext`
    next_conn: Cell<u32>,
    /// number of request-local extension values (ExtA..ExtD) currently alive
    ext_live: Rc<Cell<i64>>,
    /// number of on-connect data containers (ConnTag) currently alive
    conn_live: Rc<Cell<i64>>,
}
type Sh = Rc<Shared>;

fn put(o: &mut Vec<String>, site: &str, key: &str, val: &str) {
    o.push(format!("{site}|{key}={val}"));
}

fn fmt_headers(h: &HeaderMap) -> String {
    let mut names: Vec<String> = h.keys().map(|k| k.as_str().to_string()).collect();
    names.sort();
    names.dedup();
    let mut s = String::new();
    for n in names {
        let vals: Vec<String> = h.get_all(n.as_str()).map(|v| String::from_utf8_lossy(v.as_bytes()).into_owned()).collect();
        s.push_str(&format!("{n}:[{}] ", vals.join("|")));
    }
    s
}

fn fmt_ext(e: &Extensions) -> String {
    format!(
        "A={:?} B={:?} C={:?} D={:?}",
        e.get::<ExtA>().map(|x| x.0.as_str()),
        e.get::<ExtB>().map(|x| x.0.as_str()),
        e.get::<ExtC>().map(|x| x.0.as_str()),
        e.get::<ExtD>().map(|x| x.0.as_str())
    )
}

/// Everything reachable from an `HttpRequest` / `ServiceRequest` (same method names on both).
macro_rules! dump_req {
    ($o:expr, $site:expr, $r:expr) => {{
        let o: &mut Vec<String> = $o;
        let site: &str = $site;
        let r = $r;
        put(o, site, "method", r.method().as_str());
        put(o, site, "uri", &r.uri().to_string());
        put(o, site, "path", r.path());
        put(o, site, "query", r.query_string());
        put(o, site, "version", &format!("{:?}", r.version()));
        put(o, site, "headers", &fmt_headers(r.headers()));
        put(o, site, "peer", &format!("{:?}", r.peer_addr()));
        {
            let mi = r.match_info();
            let items: Vec<String> = mi.iter().map(|(k, v)| format!("{k}={v}")).collect();
            put(
                o,
                site,
                "match_info",
                &format!("path={} unprocessed={} n={} [{}]", mi.as_str(), mi.unprocessed(), mi.segment_count(), items.join(",")),
            );
        }
        put(o, site, "match_name", &format!("{:?}", r.match_name()));
        put(o, site, "match_pattern", &format!("{:?}", r.match_pattern()));
        {
            let e = r.extensions();
            put(o, site, "ext", &fmt_ext(&e));
        }
        put(
            o,
            site,
            "conn_data",
            &format!("tag={:?} extra={:?}", r.conn_data::<ConnTag>().map(|t| t.0), r.conn_data::<ConnExtra>().map(|t| t.0)),
        );
        put(
            o,
            site,
            "app_data",
            &format!(
                "A={:?} B={:?} C={:?} DA={:?} DB={:?}",
                r.app_data::<PlainA>().map(|x| x.0),
                r.app_data::<PlainB>().map(|x| x.0),
                r.app_data::<PlainC>().map(|x| x.0),
                r.app_data::<web::Data<DA>>().map(|x| x.0),
                r.app_data::<web::Data<DB>>().map(|x| x.0)
            ),
        );
        {
            let ci = r.connection_info();
            put(
                o,
                site,
                "conn_info",
                &format!("scheme={} host={} peer={:?} realip={:?}", ci.scheme(), ci.host(), ci.peer_addr(), ci.realip_remote_addr()),
            );
        }
        match r.cookies() {
            Ok(c) => {
                let v: Vec<String> = c.iter().map(|c| format!("{}={}", c.name(), c.value())).collect();
                put(o, site, "cookies", &v.join(";"));
            }
            Err(e) => put(o, site, "cookies", &format!("err {e}")),
        }
        match r.cookies_raw() {
            Ok(c) => {
                let v: Vec<String> = c.iter().map(|c| format!("{}={}", c.name(), c.value())).collect();
                put(o, site, "cookies_raw", &v.join(";"));
            }
            Err(e) => put(o, site, "cookies_raw", &format!("err {e}")),
        }
    }};
}

fn dump_guard(sh: &Shared, site: &str, ctx: &guard::GuardContext<'_>) {
    let mut log = sh.log.borrow_mut();
    let o = &mut *log;
    let h = ctx.head();
    put(o, site, "method", h.method.as_str());
    put(o, site, "uri", &h.uri.to_string());
    put(o, site, "headers", &fmt_headers(&h.headers));
    put(o, site, "peer", &format!("{:?}", h.peer_addr));
    {
        let e = ctx.req_data();
        put(o, site, "ext", &fmt_ext(&e));
    }
    put(
        o,
        site,
        "app_data",
        &format!(
            "A={:?} B={:?} C={:?} DA={:?} DB={:?}",
            ctx.app_data::<PlainA>().map(|x| x.0),
            ctx.app_data::<PlainB>().map(|x| x.0),
            ctx.app_data::<PlainC>().map(|x| x.0),
            ctx.app_data::<web::Data<DA>>().map(|x| x.0),
            ctx.app_data::<web::Data<DB>>().map(|x| x.0)
        ),
    );
}

fn hdr<'a>(h: &'a HeaderMap, name: &str) -> Option<&'a str> {
    h.get(name).and_then(|v| v.to_str().ok())
}

fn insert_exts(e: &mut Extensions, bits: u32, who: &str, id: &str, live: &Rc<Cell<i64>>) {
    if bits & 1 != 0 {
        e.insert(ExtA(format!("{who}:{id}"), Tok::new(live)));
    }
    if bits & 2 != 0 {
        e.insert(ExtB(format!("{who}:{id}"), Tok::new(live)));
    }
    if bits & 4 != 0 {
        e.insert(ExtC(format!("{who}:{id}"), Tok::new(live)));
    }
}

/// Body of every handler and default service: dump, then do what the request's own headers ask
/// for (so behaviour is a function of the request alone).
fn handle(sh: &Shared, req: &HttpRequest, tag: &'static str) -> Result<HttpResponse, Error> {
    {
        let mut log = sh.log.borrow_mut();
        dump_req!(&mut *log, &format!("h:{tag}"), req);
    }
    let id = hdr(req.headers(), "x-id").unwrap_or("-").to_string();
    if let Some(bits) = hdr(req.headers(), "x-h-ext").and_then(|v| v.parse::<u32>().ok()) {
        insert_exts(&mut req.extensions_mut(), bits, "h", &id, &sh.ext_live);
    }
    if hdr(req.headers(), "x-hold").is_some() {
        sh.stash.borrow_mut().push(req.clone());
    }
    if hdr(req.headers(), "x-fail").is_some() {
        return Err(actix_web::error::ErrorBadRequest("asked to fail"));
    }
    Ok(HttpResponse::Ok().body(tag))
}

fn h(sh: &Sh, tag: &'static str) -> impl Fn(HttpRequest) -> std::future::Ready<Result<HttpResponse, Error>> + Clone + 'static {
    let sh = sh.clone();
    move |req: HttpRequest| std::future::ready(handle(&sh, &req, tag))
}

fn allow_guard(sh: &Sh, site: &'static str) -> impl guard::Guard {
    let sh = sh.clone();
    guard::fn_guard(move |ctx: &guard::GuardContext<'_>| {
        dump_guard(&sh, site, ctx);
        ctx.head().headers.contains_key("x-allow")
    })
}

fn build_app(
    sh: Sh,
) -> App<impl ServiceFactory<ServiceRequest, Config = (), Response = ServiceResponse<BoxBody>, Error = Error, InitError = ()>> {
    let sh_mw0 = sh.clone();
    let sh_mw1 = sh.clone();
    let sh_y = sh.clone();
    let sh_num = sh.clone();
    App::new()
        .app_data(PlainA("app"))
        .app_data(web::Data::new(DA("app")))
        .service(web::resource("/").name("index").to(h(&sh, "index")))
        .service(web::resource("/u/{id}").name("user").to(h(&sh, "user")))
        .service(
            web::resource("/u/{id}/p/{post}")
                .name("post")
                .app_data(PlainC("post"))
                .route(web::get().to(h(&sh, "post-get")))
                .route(web::post().to(h(&sh, "post-post"))),
        )
        .service(web::resource("/f/{tail:.*}").name("tail").to(h(&sh, "tail")))
        .service(web::resource("/num/{n}").name("num").to(move |p: web::Path<u32>, req: HttpRequest| {
            sh_num.log.borrow_mut().push(format!("h:num|extracted={}", p.into_inner()));
            std::future::ready(handle(&sh_num, &req, "num"))
        }))
        .service(web::resource("/g/{x}").name("guarded").guard(allow_guard(&sh, "g:res")).to(h(&sh, "guarded")))
        .service(
            web::scope("/s1")
                .app_data(PlainA("s1"))
                .app_data(PlainB("s1"))
                .app_data(web::Data::new(DA("s1")))
                .app_data(web::Data::new(DB("s1")))
                .service(web::resource("/r/{x}").name("s1r").app_data(PlainA("s1r")).app_data(PlainC("s1r")).to(h(&sh, "s1r")))
                .service(web::resource("/q").name("s1q").to(move |req: HttpRequest| {
                    let sh = sh_y.clone();
                    async move {
                        tokio::task::yield_now().await;
                        handle(&sh, &req, "s1q")
                    }
                }))
                .service(
                    web::scope("/n/{ns}")
                        .app_data(PlainB("s1n"))
                        .service(web::resource("/{a}/{b}").name("s1n").to(h(&sh, "s1n"))),
                )
                .wrap_fn(move |req: ServiceRequest, srv| {
                    {
                        let mut log = sh_mw1.log.borrow_mut();
                        dump_req!(&mut *log, "mw1-pre", &req);
                    }
                    srv.call(req)
                }),
        )
        .service(
            web::scope("/s2/{tenant}")
                .guard(allow_guard(&sh, "g:s2"))
                .app_data(PlainB("s2"))
                .app_data(web::Data::new(DB("s2")))
                .service(web::resource("/item/{id}").name("s2item").route(web::get().to(h(&sh, "s2item"))))
                .default_service(web::to(h(&sh, "s2def"))),
        )
        .default_service(web::to(h(&sh, "appdef")))
        .wrap_fn(move |req: ServiceRequest, srv| {
            let sh = sh_mw0.clone();
            sh.addr.set(req.match_info() as *const _ as usize);
            {
                let mut log = sh.log.borrow_mut();
                dump_req!(&mut *log, "mw0-pre", &req);
            }
            let id = hdr(req.headers(), "x-id").unwrap_or("-").to_string();
            if let Some(bits) = hdr(req.headers(), "x-mw-ext").and_then(|v| v.parse::<u32>().ok()) {
                insert_exts(&mut req.extensions_mut(), bits, "mw", &id, &sh.ext_live);
            }
            let early = if hdr(req.headers(), "x-mw-deny").is_some() {
                Ok(req.into_response(HttpResponse::Forbidden().finish()))
            } else {
                Err(srv.call(req))
            };
            async move {
                let res: ServiceResponse<BoxBody> = match early {
                    Ok(r) => r,
                    Err(f) => f.await?,
                };
                {
                    let mut log = sh.log.borrow_mut();
                    dump_req!(&mut *log, "mw0-post", res.request());
                    put(&mut log, "mw0-post", "status", &res.status().as_u16().to_string());
                }
                Ok(res)
            }
        })
}

// ------------------------------------------------------------------------------------------------
// requests, palettes, histories
// ------------------------------------------------------------------------------------------------

#[derive(Clone, Debug, PartialEq)]
struct Rq {
    method: String,
    target: String,
    /// 0: HTTP/1.1, 1: HTTP/1.0, 2: HTTP/2 (svc mode only)
    version: u8,
    headers: Vec<(String, String)>,
    /// svc mode: index of the peer address given to TestRequest (stack mode: the connection's)
    peer: Option<u8>,
    /// svc mode: request-level extension already present on the actix-http `Request`
    pre_ext: bool,
    /// abstract kind (route class + flags), evidence only
    kind: String,
    route: String,
}

impl Rq {
    fn to_json(&self) -> Value {
        json!({"method": self.method, "target": self.target, "version": self.version,
               "headers": self.headers.iter().map(|(k, v)| json!([k, v])).collect::<Vec<_>>(),
               "peer": self.peer, "pre_ext": self.pre_ext, "kind": self.kind, "route": self.route})
    }
    fn from_json(v: &Value) -> Option<Rq> {
        Some(Rq {
            method: v["method"].as_str()?.to_string(),
            target: v["target"].as_str()?.to_string(),
            version: v["version"].as_u64()? as u8,
            headers: v["headers"]
                .as_array()?
                .iter()
                .filter_map(|p| Some((p[0].as_str()?.to_string(), p[1].as_str()?.to_string())))
                .collect(),
            peer: v["peer"].as_u64().map(|x| x as u8),
            pre_ext: v["pre_ext"].as_bool().unwrap_or(false),
            kind: v["kind"].as_str().unwrap_or("?").to_string(),
            route: v["route"].as_str().unwrap_or("?").to_string(),
        })
    }
    fn has(&self, name: &str) -> bool {
        self.headers.iter().any(|(k, _)| k == name)
    }
}

const VALS: &[&str] = &["a", "bob", "x%20y", "%41lice", "caf%C3%A9", "17", "a+b", "q-0123456789-0123456789-0123456789", "z%2Fz", "~t"];
const HOSTS: &[&str] = &["h1.test", "h2.test:8080", "third.example"];

fn gen_rq(rng: &mut Rng, stack: bool) -> Rq {
    let v = |rng: &mut Rng| *rng.pick(VALS);
    let mut method = "GET".to_string();
    let mut allow = false;
    let (route, mut target): (&str, String) = match rng.below(18) {
        0 => ("index", "/".into()),
        1 => ("user", format!("/u/{}", v(rng))),
        2 => {
            method = rng.pick(&["GET", "POST", "DELETE"]).to_string();
            (if method == "DELETE" { "post-405" } else { "post" }, format!("/u/{}/p/{}", v(rng), v(rng)))
        }
        3 => ("tail", format!("/f/{}/{}", v(rng), v(rng))),
        4 => ("num-ok", format!("/num/{}", rng.below(1000))),
        5 => ("num-bad", format!("/num/{}", v(rng))),
        6 => {
            allow = true;
            ("guarded-ok", format!("/g/{}", v(rng)))
        }
        7 => ("guarded-fail", format!("/g/{}", v(rng))),
        8 => ("s1r", format!("/s1/r/{}", v(rng))),
        9 => ("s1q", "/s1/q".into()),
        10 => ("s1n", format!("/s1/n/{}/{}/{}", v(rng), v(rng), v(rng))),
        11 => ("s1-404", format!("/s1/zz/{}", v(rng))),
        12 => {
            allow = true;
            ("s2item", format!("/s2/{}/item/{}", v(rng), v(rng)))
        }
        13 => ("s2-guardfail", format!("/s2/{}/item/{}", v(rng), v(rng))),
        14 => {
            allow = true;
            ("s2def", format!("/s2/{}/other/{}", v(rng), v(rng)))
        }
        15 => {
            allow = true;
            method = "POST".into();
            ("s2-405", format!("/s2/{}/item/{}", v(rng), v(rng)))
        }
        16 => ("notfound", format!("/nope/{}", v(rng))),
        _ => ("abs-user", format!("http://abs.test/u/{}", v(rng))),
    };
    if rng.chance(1, 3) {
        target.push_str(&format!("?k={}&id={}", v(rng), rng.below(50)));
    }
    let mut headers: Vec<(String, String)> = vec![];
    headers.push(("host".into(), rng.pick(HOSTS).to_string()));
    headers.push(("x-id".into(), format!("id{}", rng.below(24))));
    if allow {
        headers.push(("x-allow".into(), "1".into()));
    }
    let mut flags = String::new();
    if rng.chance(1, 2) {
        headers.push(("x-mw-ext".into(), rng.range(1, 7).to_string()));
        flags.push('x');
    }
    if rng.chance(1, 3) {
        headers.push(("x-h-ext".into(), rng.range(1, 7).to_string()));
        if !flags.contains('x') {
            flags.push('x');
        }
    }
    if rng.chance(1, 4) {
        headers.push(("x-hold".into(), "1".into()));
        flags.push('h');
    }
    let mut route_s = route.to_string();
    if rng.chance(1, 12) {
        headers.push(("x-mw-deny".into(), "1".into()));
        route_s = format!("{route}!deny");
    } else if rng.chance(1, 10) {
        headers.push(("x-fail".into(), "1".into()));
        route_s = format!("{route}!err");
    }
    if rng.chance(1, 3) {
        headers.push(("cookie".into(), rng.pick(&["sid=abc; t=1", "a=%20b", "u=bob; theme=dark; k=v"]).to_string()));
        if rng.chance(1, 3) {
            headers.push(("cookie".into(), "second=2".into()));
        }
    }
    if rng.chance(1, 4) {
        match rng.below(3) {
            0 => headers.push(("x-forwarded-host".into(), format!("fwd{}.test", rng.below(4)))),
            1 => {
                headers.push(("forwarded".into(), format!("for=192.0.2.{};proto=https;host=f{}.test", rng.below(200), rng.below(4))));
            }
            _ => {
                headers.push(("x-forwarded-proto".into(), "https".into()));
                headers.push(("x-forwarded-for".into(), format!("203.0.113.{}", rng.below(200))));
            }
        }
    }
    if method == "POST" {
        headers.push(("content-length".into(), "0".into()));
    }
    let version = if stack {
        0
    } else {
        *rng.pick(&[0u8, 0, 0, 1, 2])
    };
    let peer = if stack || rng.chance(1, 3) { None } else { Some(rng.below(4) as u8) };
    let pre_ext = !stack && rng.chance(1, 4);
    let kind = if flags.is_empty() { route_s.clone() } else { format!("{route_s}+{flags}") };
    Rq { method, target, version, headers, peer, pre_ext, kind, route: route_s }
}

#[derive(Clone, Debug, PartialEq)]
enum Step {
    /// send palette entry `p`; svc mode: `retain` keeps the ServiceResponse (and its HttpRequest)
    /// alive in the harness; stack mode: on connection slot `conn`
    Send { p: usize, retain: bool, conn: usize },
    /// drop the stashed clone at index i (mod len), ALL: every one, oldest first
    RelStash(usize),
    /// drop the retained response at index i (mod len), ALL: every one, oldest first
    RelResp(usize),
    /// stack mode: (re)open connection slot c
    Open(usize),
    /// stack mode: close connection slot c
    Close(usize),
}

impl Step {
    fn to_json(&self) -> Value {
        match self {
            Step::Send { p, retain, conn } => json!(["send", p, retain, conn]),
            Step::RelStash(i) => json!(["rel-stash", i]),
            Step::RelResp(i) => json!(["rel-resp", i]),
            Step::Open(c) => json!(["open", c]),
            Step::Close(c) => json!(["close", c]),
        }
    }
    fn from_json(v: &Value) -> Option<Step> {
        let n = |i: usize| v[i].as_u64().map(|x| x as usize);
        Some(match v[0].as_str()? {
            "send" => Step::Send { p: n(1)?, retain: v[2].as_bool()?, conn: n(3)? },
            "rel-stash" => Step::RelStash(n(1)?),
            "rel-resp" => Step::RelResp(n(1)?),
            "open" => Step::Open(n(1)?),
            "close" => Step::Close(n(1)?),
            _ => return None,
        })
    }
}

#[derive(Clone, Debug)]
struct Case {
    stack: bool,
    palette: Vec<Rq>,
    steps: Vec<Step>,
}

impl Case {
    fn to_json(&self) -> Value {
        json!({"mode": if self.stack { "stack" } else { "svc" },
               "palette": self.palette.iter().map(|r| r.to_json()).collect::<Vec<_>>(),
               "steps": self.steps.iter().map(|s| s.to_json()).collect::<Vec<_>>()})
    }
    fn from_json(v: &Value) -> Option<Case> {
        Some(Case {
            stack: v["mode"].as_str()? == "stack",
            palette: v["palette"].as_array()?.iter().filter_map(Rq::from_json).collect(),
            steps: v["steps"].as_array()?.iter().filter_map(Step::from_json).collect(),
        })
    }
}

fn gen_case(rng: &mut Rng, stack: bool, miri: bool) -> Case {
    let np = rng.range(3, if miri { 5 } else { 20 });
    let palette: Vec<Rq> = (0..np).map(|_| gen_rq(rng, stack)).collect();
    let nconn = rng.range(2, 4);
    let mut steps = vec![];
    let shape = if miri { 0 } else { rng.below(20) };
    let send = |rng: &mut Rng, retain_p: usize| Step::Send {
        p: rng.below(np),
        retain: !stack && rng.chance(retain_p, 10),
        conn: rng.below(nconn),
    };
    if shape == 19 || (shape == 18 && !stack) {
        // burst beyond the pool: > 128 requests alive at once, released, then as many again
        let n = rng.range(POOL_CAP + 1, POOL_CAP + 60);
        let hold: Vec<usize> = (0..np).filter(|&i| palette[i].has("x-hold") && !palette[i].has("x-mw-deny")).collect();
        for _ in 0..n {
            if stack {
                // only handler clones can keep a request alive behind a real connection
                let p = if hold.is_empty() { rng.below(np) } else { *rng.pick(&hold) };
                steps.push(Step::Send { p, retain: false, conn: rng.below(nconn) });
            } else {
                steps.push(Step::Send { p: rng.below(np), retain: true, conn: 0 });
            }
        }
        if rng.chance(1, 2) {
            steps.push(Step::RelResp(ALL));
            steps.push(Step::RelStash(ALL));
        } else {
            for _ in 0..n {
                steps.push(Step::RelResp(rng.below(n)));
                steps.push(Step::RelStash(rng.below(n)));
            }
            steps.push(Step::RelResp(ALL));
            steps.push(Step::RelStash(ALL));
        }
        for _ in 0..n {
            steps.push(send(rng, 8));
        }
        steps.push(Step::RelResp(ALL));
        for _ in 0..rng.range(2, 30) {
            steps.push(send(rng, 2));
        }
    } else {
        let len = match shape {
            0..=7 => rng.range(2, 10),
            8..=14 => rng.range(10, 60),
            _ => rng.range(60, 400),
        };
        // a "run" makes consecutive sends retained so pops go deep into the pool
        let mut run = 0usize;
        while steps.len() < len {
            if run > 0 {
                run -= 1;
                steps.push(send(rng, 10));
                continue;
            }
            match rng.below(20) {
                0..=12 => steps.push(send(rng, 2)),
                13 => run = rng.range(2, 25),
                14 | 15 => steps.push(Step::RelStash(if rng.chance(1, 4) { ALL } else { rng.below(64) })),
                16 | 17 => steps.push(Step::RelResp(if rng.chance(1, 4) { ALL } else { rng.below(64) })),
                18 if stack => steps.push(Step::Open(rng.below(nconn))),
                19 if stack => steps.push(Step::Close(rng.below(nconn))),
                _ => steps.push(send(rng, 2)),
            }
        }
    }
    Case { stack, palette, steps }
}

// ------------------------------------------------------------------------------------------------
// executing a history
// ------------------------------------------------------------------------------------------------

#[derive(Clone, Debug)]
struct Failure {
    step: usize,
    class: String,
    signature: String,
    detail: String,
}

#[derive(Default)]
struct Out {
    failure: Option<Failure>,
    counters: BTreeMap<String, u64>,
    maxes: BTreeMap<String, u64>,
    sigs: HashSet<String>,
    evals: u64,
    /// address of every Send, in order
    addrs: Vec<usize>,
    inconclusive: Vec<String>,
}

impl Out {
    fn count(&mut self, k: &str, n: u64) {
        *self.counters.entry(k.to_string()).or_insert(0) += n;
    }
    fn max(&mut self, k: &str, v: u64) {
        let e = self.maxes.entry(k.to_string()).or_insert(0);
        *e = (*e).max(v);
    }
}

/// The harness's model of the pool: LIFO, capacity 128, fed by the drops the harness controls.
#[derive(Default)]
struct PoolModel {
    stack: Vec<usize>,
    holders: HashMap<usize, u32>,
    /// address -> (kind, connection tag) of the last request that ran on it
    last: HashMap<usize, (String, u32)>,
}

impl PoolModel {
    fn dropped(&mut self, addr: usize, out: &mut Out) {
        if self.stack.len() < POOL_CAP {
            self.stack.push(addr);
            out.max("pool_depth", self.stack.len() as u64);
        } else {
            out.count("drops_with_pool_full", 1);
            self.last.remove(&addr);
        }
    }
    fn release(&mut self, addr: usize, out: &mut Out) {
        let h = self.holders.entry(addr).or_insert(1);
        *h = h.saturating_sub(1);
        if *h == 0 {
            self.holders.remove(&addr);
            self.dropped(addr, out);
        }
    }
    /// Called for each request: `addr` observed; returns the predecessor on a confirmed reuse.
    fn arrived(&mut self, addr: usize, out: &mut Out) -> Option<(String, u32)> {
        let depth = self.stack.len();
        match self.stack.pop() {
            Some(e) if e == addr => {
                out.count("recycled_confirmed", 1);
                if depth >= 9 {
                    out.count("recycled_confirmed_pool_depth_ge9", 1);
                }
                self.last.get(&addr).cloned()
            }
            Some(e) => {
                // the model is not the pool: resynchronise, never judge
                out.count("pool_model_mismatch", 1);
                self.stack.push(e);
                self.stack.retain(|&a| a != addr);
                None
            }
            None => {
                out.count("fresh_allocation", 1);
                None
            }
        }
    }
}

fn compare(obs: &[String], reference: &[String]) -> Option<(String, String, String)> {
    let n = obs.len().max(reference.len());
    for i in 0..n {
        let a = obs.get(i).map(|s| s.as_str()).unwrap_or("<missing>");
        let b = reference.get(i).map(|s| s.as_str()).unwrap_or("<missing>");
        if a != b {
            let which = if a == "<missing>" { b } else { a };
            let sitekey = which.split('=').next().unwrap_or(which).to_string();
            return Some((sitekey, a.to_string(), b.to_string()));
        }
    }
    None
}

fn key_class(sitekey: &str) -> &'static str {
    let key = sitekey.rsplit('|').next().unwrap_or("");
    match key {
        "ext" => "extensions",
        "app_data" => "app_data",
        "conn_data" => "conn_data",
        "match_info" | "extracted" => "match_info",
        "match_name" | "match_pattern" => "matched_resource",
        "conn_info" => "connection_info",
        "cookies" | "cookies_raw" => "cookies",
        "status" => "outcome",
        "method" | "uri" | "path" | "query" | "version" | "headers" | "peer" => "head",
        _ => "trace",
    }
}

fn peer_addr(i: u32) -> SocketAddr {
    format!("10.0.{}.{}:{}", i / 200, 1 + i % 200, 4000 + i).parse().unwrap()
}

fn to_request(rq: &Rq, sh: &Shared) -> Request {
    let mut t = test::TestRequest::default()
        .method(Method::from_bytes(rq.method.as_bytes()).unwrap_or(Method::GET))
        .uri(&rq.target)
        .version(match rq.version {
            1 => Version::HTTP_10,
            2 => Version::HTTP_2,
            _ => Version::HTTP_11,
        });
    for (k, v) in &rq.headers {
        t = t.append_header((k.as_str(), v.as_str()));
    }
    if let Some(p) = rq.peer {
        t = t.peer_addr(peer_addr(p as u32));
    }
    let req = t.to_request();
    if rq.pre_ext {
        let id = rq.headers.iter().find(|(k, _)| k == "x-id").map(|(_, v)| v.clone()).unwrap_or_default();
        req.extensions_mut().insert(ExtD(format!("pre:{id}"), Tok::new(&sh.ext_live)));
    }
    req
}

fn to_wire(rq: &Rq) -> Vec<u8> {
    let mut s = format!("{} {} HTTP/1.1\r\n", rq.method, rq.target);
    for (k, v) in &rq.headers {
        s.push_str(&format!("{k}: {v}\r\n"));
    }
    s.push_str("\r\n");
    s.into_bytes()
}

fn panic_text(payload: Box<dyn std::any::Any + Send>) -> String {
    // the hook has stored "msg @ file:line"; resume_unwind does not run the hook again
    match pguard(move || std::panic::resume_unwind(payload)) {
        Err(m) => m,
        Ok(()) => "panic".into(),
    }
}

/// One request through a svc-mode service: (observation lines, response kept alive).
async fn svc_send<S>(svc: &S, sh: &Sh, rq: &Rq) -> Result<(Vec<String>, ServiceResponse<BoxBody>), String>
where
    S: Service<Request, Response = ServiceResponse<BoxBody>, Error = Error>,
{
    sh.log.borrow_mut().clear();
    sh.addr.set(0);
    let req = to_request(rq, sh);
    match AssertUnwindSafe(test::call_service(svc, req)).catch_unwind().await {
        Ok(resp) => {
            let mut lines = std::mem::take(&mut *sh.log.borrow_mut());
            put(&mut lines, "resp", "status", &resp.status().as_u16().to_string());
            Ok((lines, resp))
        }
        Err(p) => Err(panic_text(p)),
    }
}

async fn svc_reference(rq: &Rq) -> Result<Vec<String>, String> {
    let sh: Sh = Rc::new(Shared::default());
    let svc = test::init_service(build_app(sh.clone())).await;
    let (lines, resp) = svc_send(&svc, &sh, rq).await?;
    drop(resp);
    sh.stash.borrow_mut().clear();
    Ok(lines)
}

type ConnFut = Driven<Result<(), actix_http::error::DispatchError>>;

struct Conn {
    d: ConnFut,
    h: IoHandle,
    tag: u32,
    out_seen: usize,
}

type Opener = Box<dyn Fn(ScriptIo, SocketAddr) -> ConnFut>;

/// The real `HttpService` (h1 dispatcher, `on_connect_ext`) around the same app; returns a closure
/// that starts one connection on a scripted socket.
async fn stack_service(sh: Sh) -> Opener {
    let sh2 = sh.clone();
    let factory = HttpService::build()
        .keep_alive(KeepAlive::Timeout(Duration::from_secs(1_000_000)))
        .client_request_timeout(Duration::ZERO)
        .client_disconnect_timeout(Duration::ZERO)
        .on_connect_ext(move |_io: &ScriptIo, ext: &mut Extensions| {
            let t = sh2.next_conn.get();
            ext.insert(ConnTag(t, Tok::new(&sh2.conn_live)));
            if t % 2 == 1 {
                ext.insert(ConnExtra(t * 100 + 7));
            }
        })
        .finish(map_config(build_app(sh), |_| AppConfig::default()));
    let svc = factory.new_service(()).await.expect("service init");
    Box::new(move |io, addr| Driven::new(svc.call((io, Protocol::Http1, Some(addr)))))
}

fn stack_open(open: &Opener, sh: &Sh, tag: u32) -> Conn {
    let (io, h) = script_io();
    sh.next_conn.set(tag);
    let d = open(io, peer_addr(tag));
    Conn { d, h, tag, out_seen: 0 }
}

async fn stack_send(c: &mut Conn, sh: &Sh, rq: &Rq) -> Result<Vec<String>, String> {
    sh.log.borrow_mut().clear();
    sh.addr.set(0);
    c.h.push(&to_wire(rq));
    match AssertUnwindSafe(settle(&mut c.d, 10_000)).catch_unwind().await {
        Ok(_) => {}
        Err(p) => return Err(panic_text(p)),
    }
    let mut lines = std::mem::take(&mut *sh.log.borrow_mut());
    let out = c.h.out();
    let new = &out[c.out_seen.min(out.len())..];
    let status = if new.len() >= 12 && new.starts_with(b"HTTP/1.") { String::from_utf8_lossy(&new[9..12]).into_owned() } else { "none".into() };
    c.out_seen = out.len();
    put(&mut lines, "resp", "status", &status);
    Ok(lines)
}

async fn stack_reference(rq: &Rq, tag: u32) -> Result<Vec<String>, String> {
    let sh: Sh = Rc::new(Shared::default());
    let svc = stack_service(sh.clone()).await;
    let mut c = stack_open(&svc, &sh, tag);
    let lines = stack_send(&mut c, &sh, rq).await?;
    c.h.eof();
    let _ = settle(&mut c.d, 1000).await;
    drop(c);
    sh.stash.borrow_mut().clear();
    Ok(lines)
}

fn mk_failure(step: usize, rq: &Rq, pred: &Option<(String, u32)>, diff: (String, String, String), mode: &str) -> Failure {
    let (sitekey, got, want) = diff;
    Failure {
        step,
        class: format!("history-dependent/{}", key_class(&sitekey)),
        signature: format!("{mode} at={sitekey}"),
        detail: format!(
            "request `{} {}` ({}) observed inside the history differs from the same request on a fresh service at {sitekey}: in history `{got}`, fresh `{want}`; recycled object last used by {:?}",
            rq.method, rq.target, rq.kind, pred
        ),
    }
}

#[allow(dead_code)]
fn lifetime_failure(step: usize, mode: &str, what: &str, live: i64, allowed: i64) -> Failure {
    Failure {
        step,
        class: "lifetime/request-data-outlives-request".into(),
        signature: format!("{mode} {what}"),
        detail: format!(
            "no handle to any earlier request is alive any more, yet {live} {what} value(s) of finished requests are still alive (expected {allowed}): data of an earlier request is retained by a recycled request object"
        ),
    }
}

async fn run_case(case: Case) -> Out {
    let mut out = Out::default();
    let mut refs: HashMap<(usize, u32), Vec<String>> = HashMap::new();
    let mut model = PoolModel::default();
    let sh: Sh = Rc::new(Shared::default());
    let mode = if case.stack { "stack" } else { "svc" };
    out.count(&format!("histories:{mode}"), 1);
    let nsend = case.steps.iter().filter(|s| matches!(s, Step::Send { .. })).count();
    out.max("history_sends", nsend as u64);

    // addresses parallel to sh.stash / retained
    let mut stash_addrs: Vec<usize> = vec![];
    let mut retained: Vec<(ServiceResponse<BoxBody>, usize)> = vec![];

    macro_rules! fail {
        ($f:expr) => {{
            out.failure = Some($f);
            // tear down quietly; a panic here is reported by the caller's guard
            retained.clear();
            sh.stash.borrow_mut().clear();
            return out;
        }};
    }

    if !case.stack {
        let svc = test::init_service(build_app(sh.clone())).await;
        for (idx, step) in case.steps.iter().enumerate() {
            match step {
                Step::Send { p, retain, .. } => {
                    let Some(rq) = case.palette.get(*p) else { continue };
                    if !refs.contains_key(&(*p, 0)) {
                        match svc_reference(rq).await {
                            Ok(l) => {
                                refs.insert((*p, 0), l);
                            }
                            Err(m) => fail!(Failure {
                                step: idx,
                                class: "panic".into(),
                                signature: format!("fresh-service {}", panic_site(&m)),
                                detail: format!("panic serving `{} {}` on a fresh service: {m}", rq.method, rq.target),
                            }),
                        }
                        out.count("reference_runs", 1);
                    }
                    let stash_before = sh.stash.borrow().len();
                    let (lines, resp) = match svc_send(&svc, &sh, rq).await {
                        Ok(x) => x,
                        Err(m) => fail!(Failure {
                            step: idx,
                            class: "panic".into(),
                            signature: format!("svc {}", panic_site(&m)),
                            detail: format!("panic serving `{} {}` ({}) inside the history: {m}", rq.method, rq.target, rq.kind),
                        }),
                    };
                    let addr = sh.addr.get();
                    out.addrs.push(addr);
                    out.evals += 1;
                    out.count(&format!("route:{}", rq.route), 1);
                    out.count(&format!("status:{}", resp.status().as_u16()), 1);
                    out.count("sites_compared", lines.len() as u64);
                    if addr == 0 {
                        out.inconclusive.push(format!("request `{} {}` never reached the app middleware", rq.method, rq.target));
                        continue;
                    }
                    let pred = model.arrived(addr, &mut out);
                    if let Some((pk, _)) = &pred {
                        out.sigs.insert(format!("{pk}>{}", rq.kind));
                    }
                    let stashed = sh.stash.borrow().len() > stash_before;
                    if stashed {
                        stash_addrs.push(addr);
                        out.count("held_by_handler_clone", 1);
                    }
                    model.last.insert(addr, (rq.kind.clone(), 0));
                    model.holders.insert(addr, stashed as u32 + 1);
                    let reference = &refs[&(*p, 0)];
                    let diff = compare(&lines, reference);
                    if *retain {
                        out.count("held_by_retained_response", 1);
                        retained.push((resp, addr));
                    } else {
                        drop(resp);
                        model.release(addr, &mut out);
                    }
                    out.max("alive_at_once", (retained.len() + stash_addrs.len()) as u64);
                    if let Some(d) = diff {
                        fail!(mk_failure(idx, rq, &pred, d, mode));
                    }
                }
                Step::RelStash(i) => {
                    let n = stash_addrs.len();
                    if n == 0 {
                        continue;
                    }
                    let idxs: Vec<usize> = if *i == ALL { vec![0; n] } else { vec![*i % n] };
                    for j in idxs {
                        let r = sh.stash.borrow_mut().remove(j);
                        let a = stash_addrs.remove(j);
                        drop(r);
                        model.release(a, &mut out);
                        out.count("released_clone", 1);
                    }
                }
                Step::RelResp(i) => {
                    let n = retained.len();
                    if n == 0 {
                        continue;
                    }
                    let idxs: Vec<usize> = if *i == ALL { vec![0; n] } else { vec![*i % n] };
                    for j in idxs {
                        let (r, a) = retained.remove(j);
                        drop(r);
                        model.release(a, &mut out);
                        out.count("released_response", 1);
                    }
                }
                Step::Open(_) | Step::Close(_) => {}
            }
            // request-local data must not outlive the last handle to its request
            if retained.is_empty() && stash_addrs.is_empty() {
                out.count("lifetime_checks", 1);
                if sh.ext_live.get() != 0 {
                    out.count("request_data_alive_after_last_handle(observed, not judged)", 1);
                }
            }
        }
        retained.clear();
        sh.stash.borrow_mut().clear();
        out.count("lifetime_checks", 1);
        if sh.ext_live.get() != 0 {
            out.count("request_data_alive_after_last_handle(observed, not judged)", 1);
        }
        drop(svc);
    } else {
        let svc = stack_service(sh.clone()).await;
        let mut slots: Vec<Option<Conn>> = (0..4).map(|_| None).collect();
        let mut opened = 0u32;
        for (idx, step) in case.steps.iter().enumerate() {
            match step {
                Step::Open(c) | Step::Close(c) => {
                    let c = *c % slots.len();
                    if let Some(mut old) = slots[c].take() {
                        old.h.eof();
                        let _ = settle(&mut old.d, 1000).await;
                        out.count("connections_closed", 1);
                    }
                    if matches!(step, Step::Open(_)) {
                        slots[c] = Some(stack_open(&svc, &sh, opened % 8));
                        opened += 1;
                        out.count("connections_opened", 1);
                    }
                }
                Step::Send { p, conn, .. } => {
                    let Some(rq) = case.palette.get(*p) else { continue };
                    let c = *conn % slots.len();
                    if slots[c].is_none() {
                        slots[c] = Some(stack_open(&svc, &sh, opened % 8));
                        opened += 1;
                        out.count("connections_opened", 1);
                    }
                    let tag = slots[c].as_ref().unwrap().tag;
                    if !refs.contains_key(&(*p, tag)) {
                        match stack_reference(rq, tag).await {
                            Ok(l) => {
                                refs.insert((*p, tag), l);
                            }
                            Err(m) => fail!(Failure {
                                step: idx,
                                class: "panic".into(),
                                signature: format!("fresh-stack {}", panic_site(&m)),
                                detail: format!("panic serving `{} {}` on a fresh stack: {m}", rq.method, rq.target),
                            }),
                        }
                        out.count("reference_runs", 1);
                    }
                    let stash_before = sh.stash.borrow().len();
                    let lines = match stack_send(slots[c].as_mut().unwrap(), &sh, rq).await {
                        Ok(x) => x,
                        Err(m) => fail!(Failure {
                            step: idx,
                            class: "panic".into(),
                            signature: format!("stack {}", panic_site(&m)),
                            detail: format!("panic serving `{} {}` ({}) inside the history: {m}", rq.method, rq.target, rq.kind),
                        }),
                    };
                    let addr = sh.addr.get();
                    out.addrs.push(addr);
                    out.evals += 1;
                    out.count(&format!("route:{}", rq.route), 1);
                    out.count("sites_compared", lines.len() as u64);
                    if let Some(l) = lines.last() {
                        out.count(&format!("status:{}", l.rsplit('=').next().unwrap_or("?")), 1);
                    }
                    if addr == 0 {
                        out.inconclusive.push(format!("stack: request `{} {}` never reached the app middleware", rq.method, rq.target));
                        continue;
                    }
                    let pred = model.arrived(addr, &mut out);
                    if let Some((pk, ptag)) = &pred {
                        let rel = if *ptag == tag { "same-conn" } else { "other-conn" };
                        out.sigs.insert(format!("stack:{rel}:{pk}>{}", rq.kind));
                        out.count(&format!("recycled_from_{rel}"), 1);
                    }
                    let stashed = sh.stash.borrow().len() > stash_before;
                    model.last.insert(addr, (rq.kind.clone(), tag));
                    model.holders.insert(addr, stashed as u32);
                    if stashed {
                        stash_addrs.push(addr);
                        out.count("held_by_handler_clone", 1);
                    } else {
                        model.holders.remove(&addr);
                        model.dropped(addr, &mut out);
                    }
                    out.max("alive_at_once", stash_addrs.len() as u64);
                    if let Some(d) = compare(&lines, &refs[&(*p, tag)]) {
                        fail!(mk_failure(idx, rq, &pred, d, mode));
                    }
                }
                Step::RelStash(i) => {
                    let n = stash_addrs.len();
                    if n == 0 {
                        continue;
                    }
                    let idxs: Vec<usize> = if *i == ALL { vec![0; n] } else { vec![*i % n] };
                    for j in idxs {
                        let r = sh.stash.borrow_mut().remove(j);
                        let a = stash_addrs.remove(j);
                        drop(r);
                        model.release(a, &mut out);
                        out.count("released_clone", 1);
                    }
                }
                Step::RelResp(_) => {}
            }
            if stash_addrs.is_empty() {
                out.count("lifetime_checks", 1);
                let open = slots.iter().filter(|s| s.is_some()).count() as i64;
                if sh.ext_live.get() != 0 {
                    out.count("request_data_alive_after_last_handle(observed, not judged)", 1);
                }
                if sh.conn_live.get() != open {
                    out.count("request_data_alive_after_last_handle(observed, not judged)", 1);
                }
            }
        }
        for s in slots.iter_mut() {
            if let Some(mut c) = s.take() {
                c.h.eof();
                let _ = settle(&mut c.d, 1000).await;
            }
        }
        sh.stash.borrow_mut().clear();
        out.count("lifetime_checks", 1);
        if sh.ext_live.get() != 0 {
            out.count("request_data_alive_after_last_handle(observed, not judged)", 1);
        }
        if sh.conn_live.get() != 0 {
            out.count("request_data_alive_after_last_handle(observed, not judged)", 1);
        }
        drop(svc);
    }
    out
}

/// Run one case in its own actix System; a panic that escapes the per-request guards (drop of a
/// request, teardown) is turned into a failure too.
fn exec(case: &Case) -> Out {
    let c = case.clone();
    match pguard(move || run_virtual(run_case(c))) {
        Ok(o) => o,
        Err(m) => {
            let mut o = Out::default();
            o.failure = Some(Failure {
                step: case.steps.len().saturating_sub(1),
                class: "panic".into(),
                signature: format!("{} outside-request {}", if case.stack { "stack" } else { "svc" }, panic_site(&m)),
                detail: format!("panic outside a request call (drop / teardown): {m}"),
            });
            o
        }
    }
}

/// Greedy chunk removal: keep a candidate if it still fails with the same class and signature.
fn shrink(ctx: &Ctx, case: &Case, f: &Failure) -> (Case, Failure) {
    let mut cur = Case { stack: case.stack, palette: case.palette.clone(), steps: case.steps[..=f.step.min(case.steps.len() - 1)].to_vec() };
    let mut curf = f.clone();
    curf.step = cur.steps.len() - 1;
    // most leaks come from a recent predecessor: look for the shortest failing suffix first
    let mut w = 1;
    while w < cur.steps.len() - 1 && !ctx.out_of_time() {
        let cand = Case { stack: cur.stack, palette: cur.palette.clone(), steps: cur.steps[cur.steps.len() - 1 - w..].to_vec() };
        if let Some(g) = exec(&cand).failure {
            if g.class == f.class && g.signature == f.signature {
                let mut cand = cand;
                cand.steps.truncate(g.step + 1);
                cur = cand;
                curf = g;
                break;
            }
        }
        w *= 2;
    }
    let mut runs = 0;
    let mut chunk = (cur.steps.len() / 2).max(1);
    loop {
        let mut i = 0;
        let mut progress = false;
        // the final (failing) step is never removed
        while i + chunk < cur.steps.len() && runs < 120 && !ctx.out_of_time() {
            let mut cand = cur.clone();
            cand.steps.drain(i..i + chunk);
            runs += 1;
            match exec(&cand).failure {
                Some(g) if g.class == f.class && g.signature == f.signature => {
                    cand.steps.truncate(g.step + 1);
                    cur = cand;
                    curf = g;
                    progress = true;
                }
                _ => i += chunk,
            }
        }
        if runs >= 120 || ctx.out_of_time() {
            break;
        }
        if chunk == 1 {
            if !progress {
                break;
            }
        } else {
            chunk /= 2;
        }
    }
    (cur, curf)
}

fn describe(case: &Case) -> String {
    let mut s = String::new();
    for st in &case.steps {
        match st {
            Step::Send { p, retain, conn } => {
                if let Some(rq) = case.palette.get(*p) {
                    let hs: Vec<String> = rq.headers.iter().filter(|(k, _)| k.starts_with("x-")).map(|(k, v)| format!("{k}={v}")).collect();
                    s.push_str(&format!(
                        "{} {} [{}]{}{}; ",
                        rq.method,
                        rq.target,
                        hs.join(","),
                        if *retain { " (response kept)" } else { "" },
                        if case.stack { format!(" conn#{conn}") } else { String::new() }
                    ));
                }
            }
            other => s.push_str(&format!("{:?}; ", other)),
        }
    }
    s
}

fn merge(rep: &mut Reporter, o: &Out) {
    for (k, v) in &o.counters {
        rep.count(k, *v);
    }
    for (k, v) in &o.maxes {
        rep.max(k, *v);
    }
    for s in &o.sigs {
        rep.sig(s);
    }
    for _ in 0..o.evals {
        rep.eval();
    }
    for m in &o.inconclusive {
        rep.inconclusive(m);
    }
}

fn report(ctx: &Ctx, rep: &mut Reporter, case: &Case, f: &Failure, reported: &mut HashSet<(String, String)>) {
    let key = (f.class.clone(), f.signature.clone());
    if !reported.insert(key) {
        rep.violation(&f.class, &f.signature, &f.detail, json!({}));
        return;
    }
    let (small, sf) = if reported.len() <= 4 { shrink(ctx, case, f) } else { (case.clone(), f.clone()) };
    // palette entries that are no longer referenced are dropped from the witness
    let used: Vec<usize> = {
        let mut u: Vec<usize> = small.steps.iter().filter_map(|s| if let Step::Send { p, .. } = s { Some(*p) } else { None }).collect();
        u.sort_unstable();
        u.dedup();
        u
    };
    let remap: HashMap<usize, usize> = used.iter().enumerate().map(|(n, &o)| (o, n)).collect();
    let compact = Case {
        stack: small.stack,
        palette: used.iter().filter_map(|&i| small.palette.get(i).cloned()).collect(),
        steps: small
            .steps
            .iter()
            .map(|s| match s {
                Step::Send { p, retain, conn } => Step::Send { p: *remap.get(p).unwrap_or(&0), retain: *retain, conn: *conn },
                o => o.clone(),
            })
            .collect(),
    };
    rep.violation(
        &f.class,
        &f.signature,
        &format!("{} — minimal history ({} steps): {}", sf.detail, compact.steps.len(), describe(&compact)),
        compact.to_json(),
    );
}

/// Pool fingerprint: n live requests released in a random order must come back in exactly the
/// reverse order.  Returns (matches, n).
fn fingerprint(ctx: &Ctx, rng: &mut Rng, n: usize, rep: &mut Reporter, reported: &mut HashSet<(String, String)>) -> (usize, usize) {
    let palette = vec![
        Rq {
            method: "GET".into(),
            target: "/u/fp".into(),
            version: 0,
            headers: vec![("host".into(), "h1.test".into())],
            peer: None,
            pre_ext: false,
            kind: "user".into(),
            route: "user".into(),
        },
        Rq {
            method: "GET".into(),
            target: "/s1/r/fp".into(),
            version: 0,
            headers: vec![("host".into(), "h1.test".into()), ("x-h-ext".into(), "7".into())],
            peer: None,
            pre_ext: false,
            kind: "s1r+x".into(),
            route: "s1r".into(),
        },
    ];
    let mut steps = vec![];
    for i in 0..n {
        steps.push(Step::Send { p: i % 2, retain: true, conn: 0 });
    }
    // release in a random permutation; expected[j] = index (into the first n sends) of the object
    // that the j-th send of the second round must run on
    let mut remaining: Vec<usize> = (0..n).collect();
    let mut released = vec![];
    while !remaining.is_empty() {
        let j = rng.below(remaining.len());
        steps.push(Step::RelResp(j));
        released.push(remaining.remove(j));
    }
    for i in 0..n {
        steps.push(Step::Send { p: (i + 1) % 2, retain: true, conn: 0 });
    }
    let case = Case { stack: false, palette, steps };
    let o = exec(&case);
    merge(rep, &o);
    if o.failure.is_some() || o.addrs.len() != 2 * n {
        if let Some(f) = &o.failure {
            report(ctx, rep, &case, f, reported);
        }
        return (0, n);
    }
    // the pool keeps the first `kept` objects released and hands them back last-in first-out
    let kept = n.min(POOL_CAP);
    let mut m = 0;
    for j in 0..kept {
        let expect = o.addrs[released[kept - 1 - j]];
        if o.addrs[n + j] == expect {
            m += 1;
        }
    }
    (m, kept)
}

pub fn run(ctx: &Ctx, rep: &mut Reporter) {
    let mut reported: HashSet<(String, String)> = HashSet::new();

    if let Some(rp) = &ctx.replay {
        if let Some(case) = Case::from_json(rp) {
            let o = exec(&case);
            merge(rep, &o);
            if let Some(f) = &o.failure {
                report(ctx, rep, &case, f, &mut reported);
            }
        } else {
            rep.inconclusive("replay file is not a C11 case");
        }
        rep.sig("replay");
        rep.sig("replay2");
        return;
    }

    // Phase 0: is the pool really recycling?  (confirmed, not assumed)
    {
        let mut rng = Rng::derive(ctx.seed, 0xC11F, ctx.shard);
        let n = if ctx.is_miri() { 12 } else { 40 };
        let (m, n) = fingerprint(ctx, &mut rng, n, rep, &mut reported);
        rep.count("fingerprint_objects", n as u64);
        rep.count("fingerprint_lifo_matches", m as u64);
        if m * 10 < n * 9 {
            rep.inconclusive(&format!(
                "pool reuse not confirmed: only {m} of {n} requests came back on the allocation a LIFO pool predicts (address of match_info())"
            ));
        }
        // capacity probe: more live requests than the pool holds
        if !ctx.is_miri() {
            let (m2, n2) = fingerprint(ctx, &mut rng, POOL_CAP + 12, rep, &mut reported);
            rep.count("capacity_probe_objects", n2 as u64);
            rep.count("capacity_probe_matches", m2 as u64);
        }
    }

    // Phase 1: random histories, service level (svc) and full stack (stack)
    let total = if ctx.is_miri() { 3 } else { ctx.share(10_000, 160_000) };
    let mut k = 0u64;
    while k < total {
        if ctx.out_of_time() {
            break;
        }
        let mut rng = Rng::derive(ctx.seed, 0xC11, k * ctx.nshards + ctx.shard);
        let stack = k % 4 == 3;
        let case = gen_case(&mut rng, stack, ctx.is_miri());
        let o = exec(&case);
        merge(rep, &o);
        if let Some(f) = &o.failure {
            report(ctx, rep, &case, f, &mut reported);
        }
        if k == 0 || k == 3 {
            let mut small = case.clone();
            small.steps.truncate(12);
            rep.sample(if stack { "stack-history(first 12 steps)" } else { "svc-history(first 12 steps)" }, json!(describe(&small)));
        }
        k += 1;
    }
    rep.count("histories", k);
    if rep.get("recycled_confirmed") == 0 {
        rep.inconclusive("no request ran on a recycled allocation");
    }
}
