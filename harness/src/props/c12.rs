//! C12 — body extractors never accept or buffer more than their configured limit.
//!
//! The real extractors (`Bytes`, `String`, `Json<T>`, `Form<T>`, `web::Payload::to_bytes_limited`,
//! `MultipartForm<T>`) are driven through `FromRequest::from_request` with a `Payload::Stream`
//! whose stream is a *probe*: it hands out exactly the scheduled wire chunks and records every
//! `poll_next` call together with how much had been delivered before it.
//!
//! Oracle (per case, one body under one chunking):
//!  (a) `accepted-over-limit` / `value-mismatch`: success ⇒ decoded length ≤ limit and the value
//!      equals the decoded body;
//!  (b) `missing-overflow`: decoded length > limit ⇒ the extractor's overflow error;
//!  (c) `chunking-dependent`: the outcome class (and value) is the same under every chunking of the
//!      same body (compared inside a group that shares body, limit, coding, and whether the
//!      declared `Content-Length` is above the limit);
//!  (d) `pull-after-limit`: no `poll_next` on the payload once the decoded size of what was already
//!      delivered is above the limit.  Compressed bodies are sync-flushed after every plaintext
//!      piece, so "decoded size delivered" is known exactly when wire chunks are flush-aligned and
//!      as a lower bound (last flush point inside the delivered prefix) otherwise.  For multipart
//!      the parser's own bounded read-ahead (`MultipartConfig::buffer_limit`) is added.
//!  (e) counted only, never judged (`overflow-error-for-body-within-limit`): an overflow error although the decoded body is within the limit and no
//!      `Content-Length` above the limit was declared ("limit" is documented as the maximum
//!      *accepted* size).
//!  (f) `declared-length-dependent`: "whether or not a Content-Length was declared" — for the same
//!      extractor, limit, coding, body and chunking the run without `Content-Length` and the run
//!      declaring the TRUE wire length end in the same outcome class (and value).  Not compared
//!      when the true wire length is itself above the limit (early rejection tolerated).  The grid
//!      includes limits configured ABOVE each extractor's built-in default with bodies between
//!      the default and the limit, where a stale default would bite.
//! Tolerated: early rejection from a declared `Content-Length` above the limit even if the real
//! body is small; which overflow variant is used; parse errors of deliberately unparsable bodies.

use std::{
    cell::{Cell, RefCell},
    collections::BTreeMap,
    io::{self, Write as _},
    pin::Pin,
    rc::Rc,
    task::{Context, Poll},
    time::Duration,
};

use actix_http::error::PayloadError;
use actix_multipart::{
    form::{
        bytes::Bytes as MpBytes, discard_field, DuplicateField, FieldGroupReader, Limits, MultipartCollect,
        MultipartForm, MultipartFormConfig, State,
    },
    Field, MultipartConfig, MultipartError,
};
use actix_web::{
    dev::Payload,
    error::{JsonPayloadError, UrlencodedError},
    test::TestRequest,
    web, App, FromRequest, HttpRequest, HttpResponse,
};
use bytes::Bytes;
use actix_service::Service as _;
use futures_core::{future::LocalBoxFuture, Stream};
use serde_json::{json, Value};

use crate::{
    report::{guard, panic_site, Ctx, Reporter},
    util::{esc_short, Rng},
    world::exec::run_virtual,
};

// ------------------------------------------------------------------------------------------------
// case description
// ------------------------------------------------------------------------------------------------

#[derive(Clone, Copy, PartialEq, Eq, Debug)]
enum Ext {
    Bytes,
    Str,
    Json,
    Form,
    /// `web::Payload::to_bytes_limited` (no content decoding: decoded body = wire bytes)
    Tbl,
    /// `MultipartForm`: the per-field limit is the one under test
    MpField,
    /// … the in-memory limit
    MpMemory,
    /// … the total limit
    MpTotal,
}

impl Ext {
    const ALL: [Ext; 8] =
        [Ext::Bytes, Ext::Str, Ext::Json, Ext::Form, Ext::Tbl, Ext::MpField, Ext::MpMemory, Ext::MpTotal];
    fn name(self) -> &'static str {
        match self {
            Ext::Bytes => "bytes",
            Ext::Str => "string",
            Ext::Json => "json",
            Ext::Form => "form",
            Ext::Tbl => "to_bytes_limited",
            Ext::MpField => "mp-field",
            Ext::MpMemory => "mp-memory",
            Ext::MpTotal => "mp-total",
        }
    }
    fn parse(s: &str) -> Option<Ext> {
        Ext::ALL.iter().copied().find(|e| e.name() == s)
    }
    fn is_mp(self) -> bool {
        matches!(self, Ext::MpField | Ext::MpMemory | Ext::MpTotal)
    }
    /// does the extractor wrap the payload in `Decompress`?
    fn decodes(self) -> bool {
        matches!(self, Ext::Bytes | Ext::Str | Ext::Json | Ext::Form)
    }
    /// does the extractor look at `Content-Length`?
    fn reads_cl(self) -> bool {
        self.decodes()
    }
}

#[derive(Clone, Copy, PartialEq, Eq, Debug)]
enum Coding {
    Identity,
    Gzip,
    Deflate,
    Br,
    Zstd,
}

impl Coding {
    #[cfg(feature = "ffi")]
    const ALL: &'static [Coding] = &[Coding::Identity, Coding::Gzip, Coding::Deflate, Coding::Br, Coding::Zstd];
    #[cfg(not(feature = "ffi"))]
    const ALL: &'static [Coding] = &[Coding::Identity, Coding::Gzip, Coding::Deflate, Coding::Br];
    fn name(self) -> &'static str {
        match self {
            Coding::Identity => "identity",
            Coding::Gzip => "gzip",
            Coding::Deflate => "deflate",
            Coding::Br => "br",
            Coding::Zstd => "zstd",
        }
    }
    fn parse(s: &str) -> Option<Coding> {
        [Coding::Identity, Coding::Gzip, Coding::Deflate, Coding::Br, Coding::Zstd]
            .iter()
            .copied()
            .find(|e| e.name() == s)
    }
}

#[derive(Clone, Copy, PartialEq, Eq, Debug)]
enum Chunking {
    /// the whole wire body in one chunk
    One,
    /// 1-byte plaintext pieces (for bodies over 2 KiB: 1-byte pieces in a window around the limit,
    /// ≤ 8 KiB pieces elsewhere); wire chunks flush-aligned
    Byte1,
    /// random plaintext pieces, wire chunks flush-aligned
    Random,
    /// cuts at limit−1 and limit+1: one chunk straddles the limit
    StraddleA,
    /// cuts at limit and limit+1: the buffer is exactly full, then one more byte arrives
    StraddleB,
    /// random plaintext pieces (flush points), wire re-cut at random unaligned offsets
    WireRandom,
    /// wire re-cut into 1..3-byte chunks (first 6 KiB; larger chunks after that)
    WireTiny,
}

impl Chunking {
    const ALL: [Chunking; 7] = [
        Chunking::One,
        Chunking::Byte1,
        Chunking::Random,
        Chunking::StraddleA,
        Chunking::StraddleB,
        Chunking::WireRandom,
        Chunking::WireTiny,
    ];
    fn name(self) -> &'static str {
        match self {
            Chunking::One => "one",
            Chunking::Byte1 => "byte1",
            Chunking::Random => "random",
            Chunking::StraddleA => "straddle-a",
            Chunking::StraddleB => "straddle-b",
            Chunking::WireRandom => "wire-random",
            Chunking::WireTiny => "wire-tiny",
        }
    }
    fn parse(s: &str) -> Option<Chunking> {
        Chunking::ALL.iter().copied().find(|e| e.name() == s)
    }
    fn wire_level(self) -> bool {
        matches!(self, Chunking::WireRandom | Chunking::WireTiny)
    }
}

#[derive(Clone, Copy, PartialEq, Eq, Debug)]
enum Cl {
    Absent,
    True,
    Low,
    High,
}

impl Cl {
    const ALL: [Cl; 4] = [Cl::Absent, Cl::True, Cl::Low, Cl::High];
    fn name(self) -> &'static str {
        match self {
            Cl::Absent => "absent",
            Cl::True => "true",
            Cl::Low => "low",
            Cl::High => "high",
        }
    }
    fn parse(s: &str) -> Option<Cl> {
        Cl::ALL.iter().copied().find(|e| e.name() == s)
    }
}

#[derive(Clone, Debug)]
struct Case {
    ext: Ext,
    limit: usize,
    /// decoded body length (multipart: number of data bytes charged to the limit under test)
    len: usize,
    coding: Coding,
    chunking: Chunking,
    cl: Cl,
    /// the payload stream returns `Pending` (self-woken) once before some chunks
    pend: bool,
    /// empty chunks are interleaved
    empties: bool,
    /// body content, split points, declared length variant, multipart layout
    seed: u64,
}

impl Case {
    fn to_json(&self) -> Value {
        json!({
            "ext": self.ext.name(), "limit": self.limit, "len": self.len, "coding": self.coding.name(),
            "chunking": self.chunking.name(), "cl": self.cl.name(), "pend": self.pend, "empties": self.empties,
            "seed": self.seed.to_string(),
        })
    }
    fn from_json(v: &Value) -> Option<Case> {
        Some(Case {
            ext: Ext::parse(v["ext"].as_str()?)?,
            limit: v["limit"].as_u64()? as usize,
            len: v["len"].as_u64()? as usize,
            coding: Coding::parse(v["coding"].as_str()?)?,
            chunking: Chunking::parse(v["chunking"].as_str()?)?,
            cl: Cl::parse(v["cl"].as_str()?)?,
            pend: v["pend"].as_bool()?,
            empties: v["empties"].as_bool()?,
            seed: v["seed"].as_str()?.parse().ok()?,
        })
    }
}

/// relation of the body length to the limit (signature material)
fn lenrel(len: usize, limit: usize) -> &'static str {
    if len == limit {
        "=L"
    } else if len + 1 == limit {
        "L-1"
    } else if len == limit + 1 {
        "L+1"
    } else if len < limit {
        "<L"
    } else if len <= 2 * limit.max(1) {
        "..2L"
    } else {
        ">2L"
    }
}

fn limit_class(limit: usize) -> &'static str {
    match limit {
        0 => "0",
        1 => "1",
        2..=63 => "tiny",
        64..=4095 => "small",
        4096..=65_535 => "mid",
        _ => "large",
    }
}

// ------------------------------------------------------------------------------------------------
// body generation (ground truth by construction)
// ------------------------------------------------------------------------------------------------

#[derive(Clone, Debug, PartialEq)]
enum Val {
    Raw(Vec<u8>),
    Json(Value),
    Form(Vec<(String, String)>),
    Mp { a: Vec<Vec<u8>>, b: Option<Vec<u8>> },
    /// the generated body is deliberately not parsable by the extractor (e.g. empty JSON)
    Unparsable,
}

fn val_short(v: &Val) -> String {
    match v {
        Val::Raw(b) => format!("raw[{}] {}", b.len(), esc_short(b, 24)),
        Val::Json(j) => {
            let s = j.to_string();
            format!("json[{}] {}", s.len(), esc_short(s.as_bytes(), 24))
        }
        Val::Form(p) => format!("form {} pairs, {} value bytes", p.len(), p.iter().map(|x| x.1.len()).sum::<usize>()),
        Val::Mp { a, b } => format!(
            "mp a={:?} b={:?}",
            a.iter().map(|x| x.len()).collect::<Vec<_>>(),
            b.as_ref().map(|x| x.len())
        ),
        Val::Unparsable => "unparsable".into(),
    }
}

const WORDS: [&str; 8] = ["alpha ", "beta ", "limit ", "chunk ", "0123456789 ", "payload ", "z", "overflow-"];

fn fill_text(rng: &mut Rng, n: usize, alnum_only: bool) -> Vec<u8> {
    let mut out = Vec::with_capacity(n + 16);
    let style = rng.below(3);
    while out.len() < n {
        match style {
            0 => out.extend_from_slice(WORDS[rng.below(WORDS.len())].as_bytes()),
            1 => out.push(b'a' + rng.below(26) as u8),
            _ => {
                let w = WORDS[rng.below(3)];
                for _ in 0..rng.range(1, 40) {
                    out.extend_from_slice(w.as_bytes());
                }
            }
        }
    }
    out.truncate(n);
    if alnum_only {
        for b in out.iter_mut() {
            if !b.is_ascii_alphanumeric() {
                *b = b'_';
            }
        }
    }
    out
}

fn fill_bytes(rng: &mut Rng, n: usize) -> Vec<u8> {
    match rng.below(3) {
        0 => {
            // incompressible
            let mut out = Vec::with_capacity(n + 8);
            while out.len() < n {
                out.extend_from_slice(&rng.next().to_le_bytes());
            }
            out.truncate(n);
            out
        }
        1 => fill_text(rng, n, false),
        _ => {
            // highly compressible with a few random islands
            let mut out = vec![rng.next() as u8; n];
            for _ in 0..(n / 512).min(64) {
                let p = rng.below(n);
                out[p] = rng.next() as u8;
            }
            out
        }
    }
}

/// (plaintext body, expected extracted value)
fn gen_plain(ext: Ext, len: usize, rng: &mut Rng) -> (Vec<u8>, Val) {
    match ext {
        Ext::Bytes | Ext::Tbl => {
            let b = fill_bytes(rng, len);
            (b.clone(), Val::Raw(b))
        }
        Ext::Str => {
            let b = fill_text(rng, len, false);
            (b.clone(), Val::Raw(b))
        }
        Ext::Json => {
            let body: Vec<u8> = if len == 0 {
                vec![]
            } else if len == 1 {
                vec![b'0' + rng.below(10) as u8]
            } else if len >= 8 && rng.chance(1, 2) {
                // [1,1,1   ]
                let k = (len - 3) / 2;
                let pad = len - 3 - 2 * k;
                let mut s = Vec::with_capacity(len);
                s.extend_from_slice(b"[1");
                for _ in 0..k {
                    s.extend_from_slice(b",1");
                }
                s.resize(s.len() + pad, b' ');
                s.push(b']');
                s
            } else {
                let mut s = Vec::with_capacity(len);
                s.push(b'"');
                s.extend_from_slice(&fill_text(rng, len - 2, true));
                s.push(b'"');
                s
            };
            debug_assert_eq!(body.len(), len);
            let val = match serde_json::from_slice::<Value>(&body) {
                Ok(v) => Val::Json(v),
                Err(_) => Val::Unparsable,
            };
            (body, val)
        }
        Ext::Form => {
            let (body, pairs): (Vec<u8>, Vec<(String, String)>) = if len == 0 {
                (vec![], vec![])
            } else if len == 1 {
                (b"a".to_vec(), vec![("a".into(), "".into())])
            } else if len >= 12 && rng.chance(1, 2) {
                let n1 = rng.below(len - 5 + 1);
                let n2 = len - 5 - n1;
                let v1 = String::from_utf8(fill_text(rng, n1, true)).unwrap();
                let v2 = String::from_utf8(fill_text(rng, n2, true)).unwrap();
                (format!("a={v1}&b={v2}").into_bytes(), vec![("a".into(), v1), ("b".into(), v2)])
            } else {
                let v = String::from_utf8(fill_text(rng, len - 2, true)).unwrap();
                (format!("a={v}").into_bytes(), vec![("a".into(), v)])
            };
            debug_assert_eq!(body.len(), len);
            (body, Val::Form(pairs))
        }
        _ => unreachable!("multipart bodies are built by build_mp"),
    }
}

// ------------------------------------------------------------------------------------------------
// content codings with a sync flush after every plaintext piece
// ------------------------------------------------------------------------------------------------

enum Enc {
    Gz(flate2::write::GzEncoder<Vec<u8>>),
    Zl(flate2::write::ZlibEncoder<Vec<u8>>),
    Br(Box<brotli::CompressorWriter<Vec<u8>>>),
    #[cfg(feature = "ffi")]
    Zs(zstd::stream::write::Encoder<'static, Vec<u8>>),
}

impl Enc {
    fn new(c: Coding, rng: &mut Rng) -> Enc {
        match c {
            Coding::Gzip => {
                Enc::Gz(flate2::write::GzEncoder::new(Vec::new(), flate2::Compression::new(rng.range(1, 6) as u32)))
            }
            Coding::Deflate => {
                Enc::Zl(flate2::write::ZlibEncoder::new(Vec::new(), flate2::Compression::new(rng.range(1, 6) as u32)))
            }
            Coding::Br => Enc::Br(Box::new(brotli::CompressorWriter::new(
                Vec::new(),
                4096,
                rng.range(0, 4) as u32,
                rng.range(16, 22) as u32,
            ))),
            #[cfg(feature = "ffi")]
            Coding::Zstd => Enc::Zs(zstd::stream::write::Encoder::new(Vec::new(), rng.range(1, 4) as i32).unwrap()),
            #[cfg(not(feature = "ffi"))]
            Coding::Zstd => unreachable!("zstd needs the ffi feature"),
            Coding::Identity => unreachable!(),
        }
    }
    fn piece(&mut self, data: &[u8]) -> usize {
        match self {
            Enc::Gz(e) => {
                e.write_all(data).unwrap();
                e.flush().unwrap();
                e.get_ref().len()
            }
            Enc::Zl(e) => {
                e.write_all(data).unwrap();
                e.flush().unwrap();
                e.get_ref().len()
            }
            Enc::Br(e) => {
                e.write_all(data).unwrap();
                e.flush().unwrap();
                e.get_ref().len()
            }
            #[cfg(feature = "ffi")]
            Enc::Zs(e) => {
                e.write_all(data).unwrap();
                e.flush().unwrap();
                e.get_ref().len()
            }
        }
    }
    fn finish(self) -> Vec<u8> {
        match self {
            Enc::Gz(e) => e.finish().unwrap(),
            Enc::Zl(e) => e.finish().unwrap(),
            Enc::Br(e) => e.into_inner(),
            #[cfg(feature = "ffi")]
            Enc::Zs(e) => e.finish().unwrap(),
        }
    }
}

/// Encoded body plus the flush table: `(wire_offset, plain_offset)` — once `wire_offset` bytes of the
/// wire body have been delivered, at least `plain_offset` plaintext bytes are decodable.
struct Wire {
    bytes: Vec<u8>,
    flush: Vec<(usize, usize)>,
}

impl Wire {
    fn identity(plain: &[u8]) -> Wire {
        Wire { bytes: plain.to_vec(), flush: vec![] }
    }
    fn encode(c: Coding, plain: &[u8], cuts: &[usize], rng: &mut Rng) -> Wire {
        if c == Coding::Identity {
            return Wire::identity(plain);
        }
        let mut enc = Enc::new(c, rng);
        let mut flush = Vec::with_capacity(cuts.len() + 2);
        let mut prev = 0;
        for &cut in cuts.iter().chain(std::iter::once(&plain.len())) {
            if cut <= prev && !(cut == 0 && plain.is_empty()) {
                continue;
            }
            let w = enc.piece(&plain[prev..cut]);
            flush.push((w, cut));
            prev = cut;
        }
        let bytes = enc.finish();
        flush.push((bytes.len(), plain.len()));
        Wire { bytes, flush }
    }
    /// lower bound of the decoded size once `wire_off` bytes were delivered (exact for identity and
    /// at flush points)
    fn decoded_lb(&self, wire_off: usize, identity: bool) -> usize {
        if identity {
            return wire_off;
        }
        let i = self.flush.partition_point(|&(w, _)| w <= wire_off);
        if i == 0 {
            0
        } else {
            self.flush[i - 1].1
        }
    }
}

/// Independent streaming decode of the delivered chunk sequence with the codec library itself
/// (write the chunk, flush, count the output): `result[i]` = plaintext bytes available once `i`
/// chunks were delivered.  This — not the flush table, which only bounds it from above at flush
/// points — is the decoded size the extractor can have seen (brotli's decoder, for one, releases
/// the tail of a flushed block only with the next input).
enum Dec {
    Gz(flate2::write::GzDecoder<Vec<u8>>),
    Zl(flate2::write::ZlibDecoder<Vec<u8>>),
    Br(Box<brotli::DecompressorWriter<Vec<u8>>>),
    #[cfg(feature = "ffi")]
    Zs(zstd::stream::write::Decoder<'static, Vec<u8>>),
}

fn measure_decoded(c: Coding, chunks: &[Bytes]) -> Option<Vec<usize>> {
    let mut dec = match c {
        Coding::Gzip => Dec::Gz(flate2::write::GzDecoder::new(Vec::new())),
        Coding::Deflate => Dec::Zl(flate2::write::ZlibDecoder::new(Vec::new())),
        Coding::Br => Dec::Br(Box::new(brotli::DecompressorWriter::new(Vec::new(), 8_096))),
        #[cfg(feature = "ffi")]
        Coding::Zstd => Dec::Zs(zstd::stream::write::Decoder::new(Vec::new()).ok()?),
        #[cfg(not(feature = "ffi"))]
        Coding::Zstd => return None,
        Coding::Identity => return None,
    };
    let mut out = Vec::with_capacity(chunks.len() + 1);
    out.push(0);
    let mut total = 0usize;
    for ch in chunks {
        // the sink is drained after every chunk so that measuring a multi-megabyte body stays cheap
        let n = match &mut dec {
            Dec::Gz(d) => {
                d.write_all(ch).ok()?;
                d.flush().ok()?;
                let n = d.get_ref().len();
                d.get_mut().clear();
                n
            }
            Dec::Zl(d) => {
                d.write_all(ch).ok()?;
                d.flush().ok()?;
                let n = d.get_ref().len();
                d.get_mut().clear();
                n
            }
            Dec::Br(d) => {
                d.write_all(ch).ok()?;
                d.flush().ok()?;
                let n = d.get_ref().len();
                d.get_mut().clear();
                n
            }
            #[cfg(feature = "ffi")]
            Dec::Zs(d) => {
                d.write_all(ch).ok()?;
                d.flush().ok()?;
                let n = d.get_ref().len();
                d.get_mut().clear();
                n
            }
        };
        total += n;
        out.push(total);
    }
    Some(out)
}

// ------------------------------------------------------------------------------------------------
// chunking
// ------------------------------------------------------------------------------------------------

/// cut positions (sorted, distinct, strictly inside 0..len) of a `len`-byte sequence around `pivot`
fn piece_cuts(ch: Chunking, len: usize, pivot: usize, rng: &mut Rng) -> Vec<usize> {
    let mut v: Vec<usize> = match ch {
        Chunking::One => vec![],
        Chunking::Byte1 => {
            if len <= 2048 {
                (1..len).collect()
            } else {
                let lo = pivot.saturating_sub(40);
                let hi = (pivot + 40).min(len);
                let mut v: Vec<usize> = (lo..=hi).collect();
                let mut p = 0;
                while p < len {
                    if p < lo || p > hi {
                        v.push(p);
                    }
                    p += 8191;
                }
                v
            }
        }
        Chunking::Random | Chunking::WireRandom | Chunking::WireTiny => {
            let mut v = rng.cuts(len, 12);
            if rng.chance(1, 2) && len > 2 {
                // a burst of tiny pieces somewhere (often at the pivot)
                let at = if rng.chance(1, 2) { pivot.min(len - 1) } else { rng.below(len) };
                for d in 0..rng.range(1, 6) {
                    v.push(at.saturating_sub(2) + d);
                }
            }
            v
        }
        Chunking::StraddleA => vec![pivot.saturating_sub(1), pivot + 1],
        Chunking::StraddleB => vec![pivot, pivot + 1],
    };
    v.retain(|&c| c > 0 && c < len);
    v.sort_unstable();
    v.dedup();
    v
}

// ------------------------------------------------------------------------------------------------
// a built case: headers, wire chunks, pull budget, expectation
// ------------------------------------------------------------------------------------------------

#[derive(Clone, Debug)]
struct MpCfg {
    field_limit: Option<usize>,
    memory: usize,
    total: usize,
    buffer: Option<usize>,
}

struct Built {
    headers: Vec<(String, String)>,
    chunks: Vec<Bytes>,
    /// `allowed[i]`: may the payload be polled when `i` chunks have been delivered?
    allowed: Vec<bool>,
    /// decoded-size (lower bound) after i chunks — for witnesses
    decoded_after: Vec<usize>,
    pend: Vec<bool>,
    decoded_len: usize,
    wire_len: usize,
    expect: Val,
    declared: Option<usize>,
    /// is some limit exceeded by the decoded body?
    over: bool,
    mp: Option<MpCfg>,
    /// multipart: description of the parts
    layout: String,
    /// largest number of flushed plaintext bytes the reference decoder had not yet released
    codec_lag: usize,
    /// the generator could not vouch for its own body
    selfcheck: Option<String>,
}

fn declared_len(cl: Cl, wire_len: usize, limit: usize, rng: &mut Rng) -> Option<usize> {
    match cl {
        Cl::Absent => None,
        Cl::True => Some(wire_len),
        Cl::Low => {
            let opts = [0, wire_len / 2, wire_len.saturating_sub(1), limit.min(wire_len.saturating_sub(1))];
            Some(*rng.pick(&opts))
        }
        Cl::High => {
            let opts = [wire_len + 1, wire_len.max(limit) + 1, wire_len * 10 + 100, wire_len.max(limit)];
            let v = *rng.pick(&opts);
            Some(if v <= wire_len { wire_len + 1 } else { v })
        }
    }
}

/// Cut the wire body into chunks; returns the chunks, the wire offset reached after `i` chunks
/// (`ends[i]`, `i` in `0..=chunks.len()`) and the injected-`Pending` plan.
fn finish_chunks(case: &Case, wire: &[u8], wire_cuts: &[usize], rng: &mut Rng) -> (Vec<Bytes>, Vec<usize>, Vec<bool>) {
    let whole = Bytes::copy_from_slice(wire);
    let mut chunks = Vec::with_capacity(wire_cuts.len() + 2);
    let mut ends = Vec::with_capacity(wire_cuts.len() + 3);
    ends.push(0);
    let mut prev = 0;
    for &c in wire_cuts.iter().chain(std::iter::once(&wire.len())) {
        if c <= prev || c > wire.len() {
            continue;
        }
        if case.empties && rng.chance(1, 6) {
            chunks.push(Bytes::new());
            ends.push(prev);
        }
        chunks.push(whole.slice(prev..c));
        ends.push(c);
        prev = c;
    }
    if case.empties && rng.chance(1, 4) {
        chunks.push(Bytes::new());
        ends.push(wire.len());
    }
    // Pending before every chunk (each chunk arrives alone) or before a third of them
    let every = rng.chance(1, 3);
    let pend = (0..=chunks.len()).map(|_| case.pend && (rng.chance(1, 3) || every)).collect();
    (chunks, ends, pend)
}

/// `plain`/`expect` are shared by every chunking of the same body (see `run_group`).
fn build_plain(case: &Case, plain: &[u8], expect: &Val) -> Built {
    // chunk-level randomness depends on the chunking, body-level randomness does not
    let mut rng = Rng::derive(case.seed, 0xC12C, case.chunking as u64 + 1);
    let identity = case.coding == Coding::Identity || !case.ext.decodes();
    let limit = case.limit;
    let cuts = piece_cuts(case.chunking, plain.len(), limit, &mut rng);
    let wire = if identity { Wire::identity(plain) } else { Wire::encode(case.coding, plain, &cuts, &mut rng) };
    let wire_cuts: Vec<usize> = if identity {
        cuts.clone()
    } else {
        match case.chunking {
            Chunking::One => vec![],
            Chunking::WireRandom => rng.cuts(wire.bytes.len(), 16),
            Chunking::WireTiny => {
                let mut v = vec![];
                let mut p = 0;
                while p < wire.bytes.len() {
                    p += if p < 6144 { rng.range(1, 3) } else { rng.range(512, 8192) };
                    v.push(p);
                }
                v.retain(|&c| c < wire.bytes.len());
                v
            }
            _ => {
                // flush-aligned; the stream trailer rides on the last data chunk or travels alone
                let mut v: Vec<usize> = wire.flush.iter().map(|f| f.0).collect();
                v.pop(); // end of stream
                if rng.chance(1, 2) {
                    v.pop(); // last flush point: trailer joins the last piece
                }
                v.retain(|&c| c > 0 && c < wire.bytes.len());
                v.dedup();
                v
            }
        }
    };
    let wire_len = wire.bytes.len();
    let (chunks, ends, pend) = finish_chunks(case, &wire.bytes, &wire_cuts, &mut rng);
    let flush_lb: Vec<usize> = ends.iter().map(|&e| wire.decoded_lb(e, identity)).collect();
    let mut codec_lag = 0;
    let mut selfcheck = None;
    let decoded_after = if identity {
        flush_lb
    } else {
        match measure_decoded(case.coding, &chunks) {
            Some(m) => {
                if *m.last().unwrap() != plain.len() {
                    selfcheck = Some(format!("reference decode of the generated {} body yields {} of {} bytes", case.coding.name(), m.last().unwrap(), plain.len()));
                }
                for (a, b) in m.iter().zip(flush_lb.iter()) {
                    if a < b {
                        codec_lag = codec_lag.max(b - a);
                    }
                }
                m
            }
            None => {
                selfcheck = Some(format!("reference decoder rejected the generated {} body", case.coding.name()));
                flush_lb
            }
        }
    };
    let allowed: Vec<bool> = decoded_after.iter().map(|&d| d <= limit).collect();
    let mut hrng = Rng::derive(case.seed, 0xC12D, case.cl as u64);
    let declared = declared_len(case.cl, wire_len, limit, &mut hrng);
    let mut headers = vec![];
    match case.ext {
        Ext::Json => headers.push(("content-type".to_string(), "application/json".to_string())),
        Ext::Form => {
            headers.push(("content-type".to_string(), "application/x-www-form-urlencoded".to_string()))
        }
        Ext::Str => headers.push(("content-type".to_string(), "text/plain; charset=utf-8".to_string())),
        _ => {}
    }
    if case.coding != Coding::Identity {
        headers.push(("content-encoding".to_string(), case.coding.name().to_string()));
    }
    if let Some(d) = declared {
        headers.push(("content-length".to_string(), d.to_string()));
    }
    Built {
        headers,
        chunks,
        allowed,
        decoded_after,
        pend,
        decoded_len: plain.len(),
        wire_len,
        expect: expect.clone(),
        declared,
        over: plain.len() > limit,
        mp: None,
        layout: String::new(),
        codec_lag,
        selfcheck,
    }
}

/// Multipart body: parts named `a` (Vec<Bytes>, carries the per-field limit), `b` (Option<Bytes>)
/// and `x` (unknown to the form: discarded, charged to the total limit only).
struct MpBody {
    wire: Vec<u8>,
    boundary: String,
    cfg: MpCfg,
    expect: Val,
    /// wire offset of the first data byte that exceeds a limit
    over_at: Option<usize>,
    /// wire offset at which the limit under test is exactly used up (or end of the last data)
    pivot: usize,
    layout: String,
}

fn gen_mp(ext: Ext, limit: usize, len: usize, rng: &mut Rng) -> MpBody {
    const BIG: usize = 1 << 30;
    let slack = |rng: &mut Rng, need: usize| -> usize {
        if rng.chance(2, 3) {
            BIG
        } else {
            need + rng.below(need + 16)
        }
    };
    // parts: (name, data length)
    let mut parts: Vec<(&'static str, usize)> = vec![];
    let split = |rng: &mut Rng, n: usize| -> (usize, usize) {
        let a = match rng.below(4) {
            0 => 0,
            1 => n,
            2 => n / 2,
            _ => rng.below(n + 1),
        };
        (a, n - a)
    };
    let extra = |rng: &mut Rng| -> usize {
        match rng.below(3) {
            0 => 0,
            1 => rng.below(64),
            _ => rng.below(2 * limit.min(40_000) + 8),
        }
    };
    let cfg;
    match ext {
        Ext::MpField => {
            let (n1, n2) = split(rng, len);
            parts.push(("a", n1));
            if rng.chance(1, 2) {
                parts.push(("b", extra(rng)));
            }
            if rng.chance(1, 3) {
                parts.push(("x", extra(rng)));
            }
            parts.push(("a", n2));
            let all: usize = parts.iter().map(|p| p.1).sum();
            cfg = MpCfg { field_limit: Some(limit), memory: slack(rng, all), total: slack(rng, all), buffer: None };
        }
        Ext::MpMemory => {
            let (n1, n2) = split(rng, len);
            if rng.chance(1, 2) {
                parts.push(("x", extra(rng)));
            }
            parts.push(("a", n1));
            if rng.chance(1, 3) {
                parts.push(("x", extra(rng)));
            }
            parts.push(("b", n2));
            let all: usize = parts.iter().map(|p| p.1).sum();
            cfg = MpCfg {
                field_limit: if rng.chance(1, 2) { Some(slack(rng, n1)) } else { None },
                memory: limit,
                total: slack(rng, all),
                buffer: None,
            };
        }
        _ => {
            let (n0, rest) = split(rng, len);
            let (n1, n2) = split(rng, rest);
            parts.push(("x", n0));
            parts.push(("a", n1));
            parts.push(("b", n2));
            if rng.chance(1, 2) {
                parts.swap(0, 1);
            }
            cfg = MpCfg {
                field_limit: if rng.chance(1, 2) { Some(slack(rng, n1)) } else { None },
                memory: slack(rng, n1 + n2),
                total: limit,
                buffer: None,
            };
        }
    }
    let mut cfg = cfg;
    cfg.buffer = match rng.below(4) {
        0 => Some(256),
        1 => Some(1024),
        _ => None,
    };
    let boundary = format!("c12Boundary{:016x}", rng.next());
    let hostile = rng.chance(1, 3);
    let part_cl = rng.chance(1, 3);
    let mut wire = Vec::new();
    let (mut rem_total, mut rem_mem, mut rem_field) = (cfg.total, cfg.memory, cfg.field_limit);
    let mut over_at = None;
    let mut pivot = None;
    let mut a_vals = vec![];
    let mut b_val = None;
    let mut layout = String::new();
    for (name, n) in &parts {
        let data: Vec<u8> = if hostile {
            (0..*n).map(|_| *rng.pick(b"\r\n-a\r-")).collect()
        } else {
            fill_bytes(rng, *n)
        };
        wire.extend_from_slice(format!("--{boundary}\r\n").as_bytes());
        wire.extend_from_slice(
            format!("Content-Disposition: form-data; name=\"{name}\"; filename=\"f.bin\"\r\n").as_bytes(),
        );
        wire.extend_from_slice(b"Content-Type: application/octet-stream\r\n");
        if part_cl {
            wire.extend_from_slice(format!("Content-Length: {n}\r\n").as_bytes());
        }
        wire.extend_from_slice(b"\r\n");
        let data_off = wire.len();
        wire.extend_from_slice(&data);
        wire.extend_from_slice(b"\r\n");
        layout.push_str(&format!("{name}:{n} "));
        if over_at.is_some() {
            continue;
        }
        // the reference accounting: every data byte is charged to the total limit, to the memory
        // limit if the field is kept in memory (a, b), and to the field limit of its name (a only)
        let in_memory = *name != "x";
        let mut room = rem_total;
        if in_memory {
            room = room.min(rem_mem);
        }
        if *name == "a" {
            if let Some(f) = rem_field {
                room = room.min(f);
            }
        }
        let under_test_room = match ext {
            Ext::MpField if *name == "a" => rem_field,
            Ext::MpMemory if in_memory => Some(rem_mem),
            Ext::MpTotal => Some(rem_total),
            _ => None,
        };
        if let Some(r) = under_test_room {
            if pivot.is_none() && r <= *n {
                pivot = Some(data_off + r);
            }
        }
        if *n > room {
            over_at = Some(data_off + room);
            continue;
        }
        rem_total -= n;
        if in_memory {
            rem_mem -= n;
        }
        if *name == "a" {
            rem_field = rem_field.map(|f| f - n);
            a_vals.push(data);
        } else if *name == "b" {
            b_val = Some(data);
        }
    }
    wire.extend_from_slice(format!("--{boundary}--\r\n").as_bytes());
    if hostile {
        layout.push_str("hostile ");
    }
    if part_cl {
        layout.push_str("part-cl ");
    }
    let pivot = pivot.unwrap_or(wire.len().saturating_sub(boundary.len() + 8));
    MpBody { wire, boundary, cfg, expect: Val::Mp { a: a_vals, b: b_val }, over_at, pivot, layout }
}

fn build_mp(case: &Case, body: &MpBody) -> Built {
    let mut rng = Rng::derive(case.seed, 0xC12C, case.chunking as u64 + 1);
    let cuts = piece_cuts(case.chunking, body.wire.len(), body.pivot, &mut rng);
    let buffer = body.cfg.buffer.unwrap_or(65_536);
    let over_at = body.over_at;
    let (chunks, ends, pend) = finish_chunks(case, &body.wire, &cuts, &mut rng);
    // everything before the first over-limit byte may be consumed, and the parser may hold one full
    // read-ahead buffer on top of that
    let allowed: Vec<bool> = ends.iter().map(|&off| over_at.is_none_or(|p| off <= p + buffer)).collect();
    let decoded_after = ends;
    let mut hrng = Rng::derive(case.seed, 0xC12D, case.cl as u64);
    let declared = declared_len(case.cl, body.wire.len(), case.limit, &mut hrng);
    let mut headers =
        vec![("content-type".to_string(), format!("multipart/form-data; boundary={}", body.boundary))];
    if let Some(d) = declared {
        headers.push(("content-length".to_string(), d.to_string()));
    }
    Built {
        headers,
        chunks,
        allowed,
        decoded_after,
        pend,
        decoded_len: case.len,
        wire_len: body.wire.len(),
        expect: body.expect.clone(),
        declared,
        over: body.over_at.is_some(),
        mp: Some(body.cfg.clone()),
        layout: body.layout.clone(),
        codec_lag: 0,
        selfcheck: None,
    }
}

// ------------------------------------------------------------------------------------------------
// the probe payload
// ------------------------------------------------------------------------------------------------

struct ProbeState {
    chunks: Vec<Bytes>,
    allowed: Vec<bool>,
    pend: Vec<bool>,
    next: usize,
    pended: bool,
    polls: u64,
    cap: u64,
    capped: bool,
    /// number of chunks that had been delivered when the first forbidden poll happened
    first_bad_pull: Option<usize>,
    bad_pulls: u64,
    ended: bool,
}

struct Probe(Rc<RefCell<ProbeState>>);

impl Stream for Probe {
    type Item = Result<Bytes, PayloadError>;
    fn poll_next(self: Pin<&mut Self>, cx: &mut Context<'_>) -> Poll<Option<Self::Item>> {
        let mut s = self.0.borrow_mut();
        s.polls += 1;
        if s.polls > s.cap {
            s.capped = true;
            return Poll::Ready(Some(Err(PayloadError::Io(io::Error::other("c12 probe: poll cap")))));
        }
        let i = s.next.min(s.allowed.len() - 1);
        if !s.allowed[i] {
            s.bad_pulls += 1;
            if s.first_bad_pull.is_none() {
                s.first_bad_pull = Some(s.next);
            }
        }
        if s.next >= s.chunks.len() {
            s.ended = true;
            return Poll::Ready(None);
        }
        if s.pend[s.next] && !s.pended {
            s.pended = true;
            cx.waker().wake_by_ref();
            return Poll::Pending;
        }
        s.pended = false;
        let c = s.chunks[s.next].clone();
        s.next += 1;
        Poll::Ready(Some(Ok(c)))
    }
}

#[derive(Debug, Clone)]
struct Stats {
    delivered_chunks: usize,
    delivered_bytes: usize,
    polls: u64,
    first_bad_pull: Option<usize>,
    bad_pulls: u64,
    capped: bool,
    ended: bool,
}

#[derive(Debug, Clone, PartialEq)]
enum Out {
    Ok(Val),
    /// the extractor's overflow error (variant name)
    Overflow(String),
    /// any other error
    Other(String),
    /// the extractor future never completed although nothing was withheld
    Stalled,
}

impl Out {
    fn class(&self) -> &'static str {
        match self {
            Out::Ok(_) => "ok",
            Out::Overflow(_) => "overflow",
            Out::Other(_) => "other-error",
            Out::Stalled => "stalled",
        }
    }
    fn short(&self) -> String {
        match self {
            Out::Ok(v) => format!("Ok({})", val_short(v)),
            Out::Overflow(s) => format!("Overflow[{s}]"),
            Out::Other(s) => format!("Err[{s}]"),
            Out::Stalled => "stalled".into(),
        }
    }
}

// ------------------------------------------------------------------------------------------------
// multipart form whose field limit is set at run time (mirrors the expansion of
// `#[derive(MultipartForm)]` with `#[multipart(limit = …)] a: Vec<Bytes>, b: Option<Bytes>`)
// ------------------------------------------------------------------------------------------------

thread_local! {
    static MP_FIELD_LIMIT: Cell<Option<usize>> = const { Cell::new(None) };
}

struct MpForm {
    a: Vec<MpBytes>,
    b: Option<MpBytes>,
}

impl MultipartCollect for MpForm {
    fn limit(field_name: &str) -> Option<usize> {
        match field_name {
            "a" => MP_FIELD_LIMIT.with(|c| c.get()),
            _ => None,
        }
    }

    fn handle_field<'t>(
        req: &'t HttpRequest,
        field: Field,
        limits: &'t mut Limits,
        state: &'t mut State,
    ) -> LocalBoxFuture<'t, Result<(), MultipartError>> {
        match field.name().unwrap() {
            "a" => Box::pin(<Vec<MpBytes> as FieldGroupReader>::handle_field(
                req,
                field,
                limits,
                state,
                DuplicateField::Ignore,
            )),
            "b" => Box::pin(<Option<MpBytes> as FieldGroupReader>::handle_field(
                req,
                field,
                limits,
                state,
                DuplicateField::Ignore,
            )),
            _ => Box::pin(async move { discard_field(field, limits).await }),
        }
    }

    fn from_state(mut state: State) -> Result<Self, MultipartError> {
        Ok(MpForm {
            a: <Vec<MpBytes> as FieldGroupReader>::from_state("a", &mut state)?,
            b: <Option<MpBytes> as FieldGroupReader>::from_state("b", &mut state)?,
        })
    }
}

/// Same shape through the real derive macro, with the field limit fixed at 1 KiB.
mod derived {
    use actix_multipart::form::{bytes::Bytes as MpBytes, MultipartForm};

    #[derive(MultipartForm)]
    pub struct MpForm1K {
        #[multipart(limit = "1 KiB")]
        pub a: Vec<MpBytes>,
        pub b: Option<MpBytes>,
    }
}

// ------------------------------------------------------------------------------------------------
// execution
// ------------------------------------------------------------------------------------------------

fn payload_overflow(e: &PayloadError) -> bool {
    matches!(e, PayloadError::Overflow)
}

fn short_err(e: &actix_web::Error) -> String {
    let s = format!("{e}");
    s.chars().take(80).collect()
}

fn classify_err(ext: Ext, e: &actix_web::Error) -> Out {
    match ext {
        Ext::Bytes | Ext::Str | Ext::Tbl => match e.as_error::<PayloadError>() {
            Some(p) if payload_overflow(p) => Out::Overflow("PayloadError::Overflow".into()),
            _ => Out::Other(short_err(e)),
        },
        Ext::Json => match e.as_error::<JsonPayloadError>() {
            Some(JsonPayloadError::Overflow { .. }) => Out::Overflow("JsonPayloadError::Overflow".into()),
            Some(JsonPayloadError::OverflowKnownLength { .. }) => {
                Out::Overflow("JsonPayloadError::OverflowKnownLength".into())
            }
            Some(JsonPayloadError::Payload(p)) if payload_overflow(p) => {
                Out::Overflow("JsonPayloadError::Payload(Overflow)".into())
            }
            _ => Out::Other(short_err(e)),
        },
        Ext::Form => match e.as_error::<UrlencodedError>() {
            Some(UrlencodedError::Overflow { .. }) => Out::Overflow("UrlencodedError::Overflow".into()),
            Some(UrlencodedError::Payload(p)) if payload_overflow(p) => {
                Out::Overflow("UrlencodedError::Payload(Overflow)".into())
            }
            _ => Out::Other(short_err(e)),
        },
        Ext::MpField | Ext::MpMemory | Ext::MpTotal => match e.as_error::<MultipartError>() {
            Some(MultipartError::Payload(p)) if payload_overflow(p) => {
                Out::Overflow("MultipartError::Payload(Overflow)".into())
            }
            _ => Out::Other(short_err(e)),
        },
    }
}

/// virtual-time watchdog: with nothing withheld, an extractor that is still pending when the
/// runtime has gone idle for this long will never finish
const STALL_AFTER: Duration = Duration::from_secs(100_000);

async fn watch<T>(f: impl std::future::Future<Output = T>) -> Option<T> {
    tokio::time::timeout(STALL_AFTER, f).await.ok()
}

/// Run the extractor under test on the request and payload the application handed to the handler.
async fn extract(ext: Ext, limit: usize, use_derived: bool, req: &HttpRequest, pl: &mut Payload) -> Out {
    let raw = |b: Bytes| Val::Raw(b.to_vec());
    let out = match ext {
        Ext::Bytes => match watch(Bytes::from_request(req, pl)).await {
            None => Out::Stalled,
            Some(Ok(v)) => Out::Ok(raw(v)),
            Some(Err(e)) => classify_err(ext, &e),
        },
        Ext::Str => match watch(String::from_request(req, pl)).await {
            None => Out::Stalled,
            Some(Ok(v)) => Out::Ok(Val::Raw(v.into_bytes())),
            Some(Err(e)) => classify_err(ext, &e),
        },
        Ext::Json => match watch(web::Json::<Value>::from_request(req, pl)).await {
            None => Out::Stalled,
            Some(Ok(v)) => Out::Ok(Val::Json(v.into_inner())),
            Some(Err(e)) => classify_err(ext, &e),
        },
        Ext::Form => {
            match watch(web::Form::<Vec<(String, String)>>::from_request(req, pl)).await {
                None => Out::Stalled,
                Some(Ok(v)) => Out::Ok(Val::Form(v.into_inner())),
                Some(Err(e)) => classify_err(ext, &e),
            }
        }
        Ext::Tbl => {
            let p = web::Payload::from_request(req, pl).await.expect("Payload extractor is infallible");
            match watch(p.to_bytes_limited(limit)).await {
                None => Out::Stalled,
                Some(Err(_)) => Out::Overflow("BodyLimitExceeded".into()),
                Some(Ok(Ok(v))) => Out::Ok(raw(v)),
                Some(Ok(Err(e))) => classify_err(ext, &e),
            }
        }
        Ext::MpField | Ext::MpMemory | Ext::MpTotal => {
            if use_derived {
                match watch(MultipartForm::<derived::MpForm1K>::from_request(req, pl)).await {
                    None => Out::Stalled,
                    Some(Ok(f)) => {
                        let f = f.into_inner();
                        Out::Ok(Val::Mp {
                            a: f.a.into_iter().map(|x| x.data.to_vec()).collect(),
                            b: f.b.map(|x| x.data.to_vec()),
                        })
                    }
                    Some(Err(e)) => classify_err(ext, &e),
                }
            } else {
                match watch(MultipartForm::<MpForm>::from_request(req, pl)).await {
                    None => Out::Stalled,
                    Some(Ok(f)) => {
                        let f = f.into_inner();
                        Out::Ok(Val::Mp {
                            a: f.a.into_iter().map(|x| x.data.to_vec()).collect(),
                            b: f.b.map(|x| x.data.to_vec()),
                        })
                    }
                    Some(Err(e)) => classify_err(ext, &e),
                }
            }
        }
    };
    out
}

fn exec(case: &Case, b: &Built) -> Result<(Out, Stats), String> {
    let state = Rc::new(RefCell::new(ProbeState {
        chunks: b.chunks.clone(),
        allowed: b.allowed.clone(),
        pend: b.pend.clone(),
        next: 0,
        pended: false,
        polls: 0,
        cap: (b.chunks.len() as u64 + b.wire_len as u64) * 4 + 10_000,
        capped: false,
        first_bad_pull: None,
        bad_pulls: 0,
        ended: false,
    }));
    let st2 = state.clone();
    let ext = case.ext;
    let limit = case.limit;
    let headers = b.headers.clone();
    let mp = b.mp.clone();
    // the derive-generated form has a fixed 1 KiB field limit: use it whenever that is the case
    let use_derived = ext.is_mp() && mp.as_ref().map(|m| m.field_limit) == Some(Some(1024)) && case.seed % 2 == 0;
    let slot: Rc<RefCell<Option<Out>>> = Rc::new(RefCell::new(None));
    let slot2 = slot.clone();
    guard(move || {
        run_virtual(async move {
            // The request travels through a real `App` service (as `actix_web::test` users do): the
            // handler receives the `HttpRequest` and the untouched payload and runs the extractor.
            let mut app = App::new();
            app = match ext {
                Ext::Bytes | Ext::Str => app.app_data(web::PayloadConfig::new(limit)),
                Ext::Json => app.app_data(web::JsonConfig::default().limit(limit)),
                Ext::Form => app.app_data(web::FormConfig::default().limit(limit)),
                Ext::Tbl => app,
                Ext::MpField | Ext::MpMemory | Ext::MpTotal => {
                    let m = mp.as_ref().unwrap();
                    MP_FIELD_LIMIT.with(|c| c.set(m.field_limit));
                    let mut app = app
                        .app_data(MultipartFormConfig::default().total_limit(m.total).memory_limit(m.memory));
                    if let Some(bl) = m.buffer {
                        app = app.app_data(MultipartConfig::default().buffer_limit(bl));
                    }
                    app
                }
            };
            let handler = move |req: HttpRequest, pl: web::Payload| {
                let slot = slot2.clone();
                async move {
                    let mut pl = pl.into_inner();
                    let out = extract(ext, limit, use_derived, &req, &mut pl).await;
                    *slot.borrow_mut() = Some(out);
                    HttpResponse::Ok().finish()
                }
            };
            let svc = actix_web::test::init_service(app.default_service(web::to(handler))).await;
            let mut tr = TestRequest::post().uri("/c12");
            for (k, v) in &headers {
                tr = tr.insert_header((k.as_str(), v.as_str()));
            }
            let stream: actix_http::BoxedPayloadStream = Box::pin(Probe(st2));
            let (req, _empty) = tr.to_request().replace_payload(Payload::Stream { payload: stream });
            let _ = svc.call(req).await;
            drop(svc);
        })
    })?;
    let out = slot.borrow_mut().take().unwrap_or(Out::Other("handler was not reached".into()));
    let s = state.borrow();
    let delivered_bytes = s.chunks[..s.next].iter().map(|c| c.len()).sum();
    Ok((
        out,
        Stats {
            delivered_chunks: s.next,
            delivered_bytes,
            polls: s.polls,
            first_bad_pull: s.first_bad_pull,
            bad_pulls: s.bad_pulls,
            capped: s.capped,
            ended: s.ended,
        },
    ))
}

// ------------------------------------------------------------------------------------------------
// oracle
// ------------------------------------------------------------------------------------------------

fn vsig(case: &Case) -> String {
    format!(
        "{}/{}/cl-{}/{}/len{}",
        case.ext.name(),
        case.coding.name(),
        case.cl.name(),
        case.chunking.name(),
        lenrel(case.len, case.limit)
    )
}

fn describe(case: &Case, b: &Built, out: &Out, st: &Stats) -> String {
    format!(
        "extractor={} limit={} decoded_len={} coding={} wire_len={} chunks={} ({}) content-length={:?}{} -> {}; payload: {} chunks / {} wire bytes delivered, {} polls",
        case.ext.name(),
        case.limit,
        b.decoded_len,
        case.coding.name(),
        b.wire_len,
        b.chunks.len(),
        case.chunking.name(),
        b.declared,
        if b.layout.is_empty() { String::new() } else { format!(" parts=[{}] cfg={:?}", b.layout.trim(), b.mp) },
        out.short(),
        st.delivered_chunks,
        st.delivered_bytes,
        st.polls
    )
}

/// Judge one execution.  Returns the outcome for the group (metamorphic) comparison.
fn judge(case: &Case, b: &Built, res: Result<(Out, Stats), String>, rep: &mut Reporter) -> Option<Out> {
    rep.eval();
    let (out, st) = match res {
        Ok(x) => x,
        Err(p) => {
            rep.violation(
                "panic",
                &panic_site(&p),
                &format!("panic in extractor {}: {p}", case.ext.name()),
                case.to_json(),
            );
            return None;
        }
    };
    if let Some(why) = &b.selfcheck {
        rep.inconclusive(&format!("generator self-check failed: {why}: {}", case.to_json()));
        return None;
    }
    if b.codec_lag > 0 {
        rep.count(&format!("codec-releases-flushed-bytes-late:{}", case.coding.name()), 1);
        rep.max(&format!("codec-lag-bytes:{}", case.coding.name()), b.codec_lag as u64);
    }
    let declared_over = case.ext.reads_cl() && b.declared.is_some_and(|d| d > case.limit);
    rep.count(&format!("outcome:{}", out.class()), 1);
    rep.count(&format!("ext:{}", case.ext.name()), 1);
    rep.count(&format!("coding:{}", case.coding.name()), 1);
    rep.count(&format!("chunking:{}", case.chunking.name()), 1);
    rep.count(&format!("content-length:{}", case.cl.name()), 1);
    rep.count(&format!("lenrel:{}", lenrel(case.len, case.limit)), 1);
    rep.count("payload-polls", st.polls);
    rep.count("payload-chunks-delivered", st.delivered_chunks as u64);
    rep.max("chunks-in-one-body", b.chunks.len() as u64);
    rep.max("decoded-len", b.decoded_len as u64);
    if let Out::Overflow(v) = &out {
        rep.count(&format!("overflow-variant:{v}"), 1);
        if st.polls == 0 {
            rep.count("overflow-before-first-pull(declared-length)", 1);
        } else {
            rep.count("overflow-while-streaming", 1);
            // how far past the limit did the extractor read, in chunks not yet needed? (0 by clause d)
            rep.max("wire-bytes-delivered-at-overflow", st.delivered_bytes as u64);
        }
        if !st.ended && st.delivered_chunks < b.chunks.len() {
            rep.count("overflow-with-body-left-unread", 1);
        }
    }
    if case.pend {
        rep.count("cases-with-pending-injected", 1);
    }
    // abstract signature: which extractor met which coding, chunking style, Content-Length variant,
    // limit magnitude and length/limit relation, and how it ended
    rep.sig(&format!(
        "{}|{}|{}|{}|L{}|{}|{}{}",
        case.ext.name(),
        case.coding.name(),
        case.chunking.name(),
        case.cl.name(),
        limit_class(case.limit),
        lenrel(case.len, case.limit),
        out.class(),
        if matches!(out, Out::Overflow(_)) && st.polls == 0 { "-early" } else { "" },
    ));
    if matches!(out, Out::Overflow(_)) {
        rep.sample("overflow", json!({"case": case.to_json(), "what": describe(case, b, &out, &st)}));
    } else if matches!(out, Out::Ok(_)) && case.coding != Coding::Identity {
        rep.sample("ok-compressed", json!({"case": case.to_json(), "what": describe(case, b, &out, &st)}));
    }

    if st.capped || out == Out::Stalled {
        // not a C12 verdict: the extractor did not finish (liveness is C15's business)
        rep.inconclusive(&format!("extractor did not finish: {}", describe(case, b, &out, &st)));
        return None;
    }

    // (d) pulls
    if let Some(i) = st.first_bad_pull {
        rep.violation(
            "pull-after-limit",
            &vsig(case),
            &format!(
                "payload polled again after {} chunks had been delivered whose decoded size is ≥ {} > limit {}{} ({} such polls). {}",
                i,
                b.decoded_after[i.min(b.decoded_after.len() - 1)],
                case.limit,
                if case.ext.is_mp() { " (wire offset of the first over-limit byte + parser buffer exceeded)" } else { "" },
                st.bad_pulls,
                describe(case, b, &out, &st)
            ),
            case.to_json(),
        );
    }

    match &out {
        Out::Ok(v) => {
            // (a)
            if b.over {
                rep.violation(
                    "accepted-over-limit",
                    &vsig(case),
                    &format!("extractor succeeded although the decoded body exceeds the limit. {}", describe(case, b, &out, &st)),
                    case.to_json(),
                );
            } else if *v != b.expect {
                rep.violation(
                    "value-mismatch",
                    &vsig(case),
                    &format!("extracted value differs from the decoded body (expected {}). {}", val_short(&b.expect), describe(case, b, &out, &st)),
                    case.to_json(),
                );
            } else if declared_over {
                rep.count("accepted-despite-declared-length-over-limit(tolerated)", 1);
            }
        }
        Out::Overflow(_) => {
            if !b.over && !declared_over {
                // (e) observed, not judged: the statement says "succeed only if within the limit";
                // it does not promise success for every body within it
                rep.count("overflow-error-for-body-within-limit(observed, not judged)", 1);
                let _ = (&out, &st);
            } else if !b.over {
                rep.count("early-rejection-by-declared-length-of-small-body(tolerated)", 1);
            }
        }
        Out::Other(e) => {
            if b.over {
                // (b)
                rep.violation(
                    "missing-overflow",
                    &vsig(case),
                    &format!("decoded body exceeds the limit but the extractor failed with a different error ({e}). {}", describe(case, b, &out, &st)),
                    case.to_json(),
                );
            } else if b.expect == Val::Unparsable {
                rep.count("parse-error-of-unparsable-body(expected)", 1);
            } else {
                rep.inconclusive(&format!("valid within-limit body rejected with a non-overflow error: {}", describe(case, b, &out, &st)));
                return None;
            }
        }
        Out::Stalled => unreachable!(),
    }
    Some(out)
}

/// One body under several chunkings: per-case clauses plus the metamorphic comparison (c).
fn run_group(base: &Case, chunkings: &[Chunking], rep: &mut Reporter) -> Vec<(Case, bool, Out)> {
    let mut brng = Rng::derive(base.seed, 0xC12B, 0);
    let mut outs: Vec<(Case, bool, Out)> = vec![];
    let plain_expect;
    let mp_body;
    if base.ext.is_mp() {
        mp_body = Some(gen_mp(base.ext, base.limit, base.len, &mut brng));
        plain_expect = None;
    } else {
        mp_body = None;
        plain_expect = Some(gen_plain(base.ext, base.len, &mut brng));
    }
    for &ch in chunkings {
        let mut case = base.clone();
        case.chunking = ch;
        let built = match (&mp_body, &plain_expect) {
            (Some(b), _) => build_mp(&case, b),
            (_, Some((p, e))) => build_plain(&case, p, e),
            _ => unreachable!(),
        };
        let res = exec(&case, &built);
        let declared_over = case.ext.reads_cl() && built.declared.is_some_and(|d| d > case.limit);
        if let Some(out) = judge(&case, &built, res, rep) {
            outs.push((case, declared_over, out));
        }
    }
    // (c) same outcome under every chunking (among runs with the same declared-length relation)
    for flag in [false, true] {
        let sel: Vec<&(Case, bool, Out)> = outs.iter().filter(|o| o.1 == flag).collect();
        if sel.len() < 2 {
            continue;
        }
        rep.count("chunking-groups-compared", 1);
        for o in &sel[1..] {
            let same = match (&sel[0].2, &o.2) {
                (Out::Ok(a), Out::Ok(b)) => a == b,
                (a, b) => a.class() == b.class(),
            };
            if !same {
                rep.violation(
                    "chunking-dependent",
                    &format!(
                        "{}/{}/cl-{}/{}-vs-{}/len{}",
                        base.ext.name(),
                        base.coding.name(),
                        base.cl.name(),
                        sel[0].0.chunking.name(),
                        o.0.chunking.name(),
                        lenrel(base.len, base.limit)
                    ),
                    &format!(
                        "same body, limit {} and headers: chunking {} gives {}, chunking {} gives {}",
                        base.limit,
                        sel[0].0.chunking.name(),
                        sel[0].2.short(),
                        o.0.chunking.name(),
                        o.2.short()
                    ),
                    json!({"group": base.to_json(), "chunkings": [sel[0].0.chunking.name(), o.0.chunking.name()]}),
                );
            }
        }
    }
    outs
}

/// One body under several `Content-Length` variants (each under several chunkings).  On top of the
/// per-group clauses this is where clause (f) `declared-length-dependent` is judged: "whether or not
/// a Content-Length was declared" — the run without the header and the run declaring the true wire
/// length must end the same way (same chunking, same Pending plan, same everything else).  A true
/// length that is itself above the limit (a compressed body whose wire form is larger than the
/// limit while its content is not) may be rejected early: tolerated as before.
fn run_body(base: &Case, cls: &[Cl], chunkings: &[Chunking], rep: &mut Reporter) {
    let mut by_cl: Vec<(Cl, Vec<(Case, bool, Out)>)> = vec![];
    for &cl in cls {
        let mut b = base.clone();
        b.cl = cl;
        by_cl.push((cl, run_group(&b, chunkings, rep)));
    }
    let absent = by_cl.iter().find(|x| x.0 == Cl::Absent);
    let truth = by_cl.iter().find(|x| x.0 == Cl::True);
    let (Some(absent), Some(truth)) = (absent, truth) else { return };
    for (ca, _, oa) in &absent.1 {
        let Some((ct, over_t, ot)) = truth.1.iter().find(|x| x.0.chunking == ca.chunking) else { continue };
        if *over_t {
            rep.count("true-length-above-limit-not-compared(tolerated)", 1);
            continue;
        }
        rep.count("declared-vs-undeclared-pairs-compared", 1);
        let same = match (oa, ot) {
            (Out::Ok(a), Out::Ok(b)) => a == b,
            (a, b) => a.class() == b.class(),
        };
        if !same {
            rep.violation(
                "declared-length-dependent",
                &format!(
                    "{}/{}/{}/len{}/{}-without-vs-{}-with-true-length",
                    base.ext.name(),
                    base.coding.name(),
                    ca.chunking.name(),
                    lenrel(base.len, base.limit),
                    oa.class(),
                    ot.class()
                ),
                &format!(
                    "same extractor ({}), limit {}, coding {}, body (decoded {} bytes) and chunking {}: without Content-Length -> {}; with the true Content-Length -> {}",
                    base.ext.name(),
                    base.limit,
                    base.coding.name(),
                    base.len,
                    ca.chunking.name(),
                    oa.short(),
                    ot.short()
                ),
                json!({"pair": ct.to_json()}),
            );
        }
    }
}

/// The limit an extractor falls back to when nothing is configured — and which its future's
/// constructor pre-applies before the configured limit replaces it.
fn builtin_default(ext: Ext) -> Option<usize> {
    match ext {
        Ext::Bytes | Ext::Str => Some(262_144),
        Ext::Json => Some(2_097_152),
        Ext::Form => Some(16_384),
        Ext::MpMemory => Some(2_097_152),
        _ => None,
    }
}

/// Limits configured ABOVE the built-in default, with body lengths between the default and the
/// configured limit: a stale default shows up exactly there.
fn above_default_grid(ext: Ext, thorough: bool) -> Vec<(usize, Vec<usize>)> {
    let limits: Vec<usize> = match ext {
        Ext::Bytes | Ext::Str => vec![300_000, 1 << 20],
        // 16 KiB is the documented default, 32 KiB the one in `UrlEncoded::new`
        Ext::Form => vec![20_000, 40_000],
        Ext::Json => vec![2_500_000],
        Ext::MpMemory if thorough => vec![2_500_000],
        _ => vec![],
    };
    let d = builtin_default(ext).unwrap_or(0);
    limits
        .into_iter()
        .map(|l| {
            let mut lens = vec![d + 1, l, l + 1];
            if thorough || ext == Ext::Form {
                lens.push((d + l) / 2);
            }
            if ext == Ext::Form {
                lens.push(32_769.min(l));
            }
            if ext == Ext::Json && !thorough {
                lens = vec![d + 1, l + 1];
            }
            lens.sort_unstable();
            lens.dedup();
            (l, lens)
        })
        .collect()
}

fn chunkings_for(ext: Ext, coding: Coding) -> Vec<Chunking> {
    let mut v = vec![Chunking::One, Chunking::Byte1, Chunking::Random, Chunking::StraddleA, Chunking::StraddleB];
    if ext.decodes() && coding != Coding::Identity {
        v.push(Chunking::WireRandom);
        v.push(Chunking::WireTiny);
    }
    v
}

fn codings_for(ext: Ext) -> Vec<Coding> {
    if ext.decodes() {
        Coding::ALL.to_vec()
    } else {
        vec![Coding::Identity]
    }
}

// ------------------------------------------------------------------------------------------------
// workload
// ------------------------------------------------------------------------------------------------

const GRID_LIMITS: [usize; 6] = [0, 1, 7, 1024, 32 * 1024, 256 * 1024];

fn grid_lens(limit: usize) -> Vec<usize> {
    let mut v = vec![limit.saturating_sub(1), limit, limit + 1, 2 * limit, 10 * limit];
    v.sort_unstable();
    v.dedup();
    v
}

pub fn run(ctx: &Ctx, rep: &mut Reporter) {
    // ---- replay
    if let Some(r) = &ctx.replay {
        if let Some(g) = r.get("group") {
            if let Some(base) = Case::from_json(g) {
                let chs: Vec<Chunking> = r["chunkings"]
                    .as_array()
                    .map(|a| a.iter().filter_map(|x| x.as_str().and_then(Chunking::parse)).collect())
                    .unwrap_or_default();
                let _ = run_group(&base, &chs, rep);
                rep.sig("replay-group");
                return;
            }
        } else if let Some(p) = r.get("pair") {
            if let Some(case) = Case::from_json(p) {
                run_body(&case, &[Cl::Absent, Cl::True], &[case.chunking], rep);
                rep.sig("replay-pair");
                return;
            }
        } else if let Some(case) = Case::from_json(r) {
            let _ = run_group(&case, &[case.chunking], rep);
            rep.sig("replay");
            return;
        }
        rep.inconclusive("unreadable replay case");
        return;
    }

    let small = ctx.is_miri();
    // the sanitizer build is ~50x slower per case: it runs the grid up to 32 KiB and a random phase
    // biased towards the compressed codings (zstd is the C code ASan is there for)
    let asan = ctx.layer == "asan";

    // ---- phase A: the grid (exhaustive over the listed classes)
    let mut gidx = 0u64;
    let mut complete = true;
    let mut classes: BTreeMap<String, u64> = BTreeMap::new();
    'grid: for &ext in Ext::ALL.iter() {
        for &limit in GRID_LIMITS.iter() {
            if (small && limit > 1024) || (asan && limit > 32 * 1024) {
                continue;
            }
            for len in grid_lens(limit) {
                // quick tier: the 10·limit body of the largest limit is left to the thorough tier
                if !ctx.thorough() && limit == 256 * 1024 && len == 10 * limit {
                    continue;
                }
                for coding in codings_for(ext) {
                    // all Content-Length variants of one body run on the same shard (clause f)
                    gidx += 1;
                    if !ctx.mine(gidx) {
                        continue;
                    }
                    if ctx.out_of_time() {
                        complete = false;
                        break 'grid;
                    }
                    let base = Case {
                        ext,
                        limit,
                        len,
                        coding,
                        chunking: Chunking::One,
                        cl: Cl::Absent,
                        pend: gidx % 3 == 0,
                        empties: false,
                        seed: Rng::derive(ctx.seed, 0xA12, gidx).next(),
                    };
                    // multipart and to_bytes_limited never look at Content-Length: two variants
                    let cls: &[Cl] = if ext.reads_cl() { &Cl::ALL } else { &[Cl::Absent, Cl::True] };
                    let chs = chunkings_for(ext, coding);
                    *classes.entry(ext.name().to_string()).or_insert(0) += (chs.len() * cls.len()) as u64;
                    run_body(&base, cls, &chs, rep);
                }
            }
        }
    }
    // ---- phase A2: limits above the extractor's built-in default
    let mut complete2 = true;
    if !small && !asan {
        'grid2: for &ext in Ext::ALL.iter() {
            for (limit, lens) in above_default_grid(ext, ctx.thorough()) {
                for len in lens {
                    for coding in codings_for(ext) {
                        // quick: the 2.5 MB JSON bodies only uncompressed, the Bytes/String bodies
                        // only identity/gzip/zstd; everything in thorough
                        if !ctx.thorough()
                            && ((ext == Ext::Json && coding != Coding::Identity)
                                || (matches!(ext, Ext::Bytes | Ext::Str)
                                    && !matches!(coding, Coding::Identity | Coding::Gzip | Coding::Zstd)))
                        {
                            continue;
                        }
                        gidx += 1;
                        if !ctx.mine(gidx) {
                            continue;
                        }
                        if ctx.out_of_time() {
                            complete2 = false;
                            break 'grid2;
                        }
                        let base = Case {
                            ext,
                            limit,
                            len,
                            coding,
                            chunking: Chunking::One,
                            cl: Cl::Absent,
                            pend: gidx % 3 == 0,
                            empties: false,
                            seed: Rng::derive(ctx.seed, 0xA13, gidx).next(),
                        };
                        let cls: &[Cl] = if ext.reads_cl() { &Cl::ALL } else { &[Cl::Absent, Cl::True] };
                        let mut chs = chunkings_for(ext, coding);
                        if limit > (1 << 20) || (!ctx.thorough() && limit > 100_000) {
                            // megabyte bodies / quick tier: a representative subset of the styles
                            chs.retain(|c| matches!(c, Chunking::One | Chunking::Random | Chunking::StraddleB | Chunking::WireRandom));
                        }
                        rep.count(&format!("above-default-grid-cases:{}", ext.name()), (chs.len() * cls.len()) as u64);
                        run_body(&base, cls, &chs, rep);
                    }
                }
            }
        }
        rep.exhaustive(
            "above-default grid: Bytes/String limit{300000,1MiB}, Form limit{20000,40000}, Json limit 2.5MB (quick: reduced codings/chunkings), thorough also multipart memory 2.5MB × len{default+1, midway, L, L+1} × coding × content-length × chunking",
            complete2,
        );
    }
    if asan || small {
        rep.exhaustive("sanitizer-layer grid (same classes, limits up to 32 KiB)", complete);
    } else {
        rep.exhaustive(
            "grid: extractor × limit{0,1,7,1K,32K,256K} × len{L-1,L,L+1,2L,10L} × coding × content-length × chunking",
            complete,
        );
    }
    for (k, v) in classes {
        rep.count(&format!("grid-cases:{k}"), v);
    }

    // ---- phase B: random cases around random limits
    let n = if small { 20 } else { ctx.share(16_000, 600_000) };
    for k in 0..n {
        if ctx.out_of_time() {
            break;
        }
        let mut rng = Rng::derive(ctx.seed, 0xB12, k * ctx.nshards + ctx.shard);
        let ext = *rng.pick(&Ext::ALL);
        let limit = match rng.below(10) {
            0 => rng.below(4),
            1..=3 => rng.below(64),
            4..=6 => rng.range(64, 4096),
            7 => *rng.pick(&GRID_LIMITS),
            8 => rng.range(4096, 70_000),
            _ => {
                if small || asan {
                    rng.below(512)
                } else {
                    rng.range(60_000, 300_000)
                }
            }
        };
        let len = match rng.below(8) {
            0 => limit,
            1 => limit + 1,
            2 => limit.saturating_sub(1),
            3 => (limit + rng.below(8)).saturating_sub(3),
            4 => rng.below(limit + 1),
            5 => limit + rng.below(2 * limit + 8),
            6 => rng.below(3 * limit + 16),
            _ => (limit * rng.range(2, 10) + rng.below(64)).min(1 << 20),
        };
        // one case in thirty: a limit above the extractor's built-in default and a body in between
        let (limit, len) = match builtin_default(ext) {
            Some(d) if d < 300_000 && !small && !asan && rng.chance(1, 30) => {
                let l = d + rng.range(1, d);
                (l, rng.range(d + 1, l + 2))
            }
            _ => (limit, len),
        };
        let codings = codings_for(ext);
        let coding = if rng.chance(1, 3) && !asan { codings[0] } else { *rng.pick(&codings) };
        let cl = if ext.reads_cl() { *rng.pick(&Cl::ALL) } else { *rng.pick(&[Cl::Absent, Cl::True]) };
        let base = Case {
            ext,
            limit,
            len,
            coding,
            chunking: Chunking::One,
            cl,
            pend: rng.chance(1, 3),
            empties: rng.chance(1, 4),
            seed: rng.next(),
        };
        let all = chunkings_for(ext, coding);
        let mut chs = vec![Chunking::One];
        while chs.len() < 3 {
            let c = *rng.pick(&all);
            if !chs.contains(&c) {
                chs.push(c);
            }
        }
        // `One` is not always the baseline
        if rng.chance(1, 3) {
            chs.remove(0);
        }
        // half of the cases: the same body with and without its true Content-Length (clause f)
        if rng.chance(1, 2) {
            run_body(&base, &[Cl::Absent, Cl::True], &chs[..2.min(chs.len())], rep);
        } else {
            let _ = run_group(&base, &chs, rep);
        }
    }
    let _ = Chunking::wire_level;
}
