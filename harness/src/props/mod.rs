//! One module per property; each `run` executes this shard's share of the workload.
use crate::report::{Ctx, Reporter};

pub mod c01;
pub mod c18;

pub fn run(id: &str, ctx: &Ctx, rep: &mut Reporter) -> bool {
    match id {
        "C01" => c01::run(ctx, rep),
        "C18" => c18::run(ctx, rep),
        _ => return false,
    }
    true
}
