//! One module per property; each `run` executes this shard's share of the workload.
use crate::report::{Ctx, Reporter};

pub mod c01;
pub mod c02;
pub mod c03;
pub mod c04;
pub mod c05;
pub mod c06;
pub mod c07;
pub mod c08;
pub mod c09;
pub mod c10;
pub mod c11;
pub mod c12;
pub mod c13;
pub mod c14;
pub mod c15;
pub mod c16;
pub mod c17;
pub mod c18;
pub mod c19;

pub fn run(id: &str, ctx: &Ctx, rep: &mut Reporter) -> bool {
    match id {
        "C01" => c01::run(ctx, rep),
        "C02" => c02::run(ctx, rep),
        "C03" => c03::run(ctx, rep),
        "C04" => c04::run(ctx, rep),
        "C05" => c05::run(ctx, rep),
        "C06" => c06::run(ctx, rep),
        "C07" => c07::run(ctx, rep),
        "C08" => c08::run(ctx, rep),
        "C09" => c09::run(ctx, rep),
        "C10" => c10::run(ctx, rep),
        "C11" => c11::run(ctx, rep),
        "C12" => c12::run(ctx, rep),
        "C13" => c13::run(ctx, rep),
        "C14" => c14::run(ctx, rep),
        "C15" => c15::run(ctx, rep),
        "C16" => c16::run(ctx, rep),
        "C17" => c17::run(ctx, rep),
        "C18" => c18::run(ctx, rep),
        "C19" => c19::run(ctx, rep),
        _ => return false,
    }
    true
}
