//! C17 — the awc HTTP/1 client delivers a response body completely (as framed by Content-Length /
//! chunked coding) or reports an error; a connection goes back to the pool only after a response
//! that was read to its end on a persistent connection; open connections never exceed the limit.
//!
//! World: `awc::Client` with a custom connector that hands out in-memory connections (`SIo`) served
//! by a scripted peer (`Net`).  The peer answers each request (identified by its target) with the
//! bytes the case prescribes, in exactly the prescribed read segments, optionally with a `Pending`
//! between segments, and then stays silent, half-closes (EOF) or resets at an exact byte offset.
//! Everything runs under virtual time; the response timeouts (600 virtual seconds) turn "the client
//! waits for bytes that will never come" into an error outcome without wall-clock waiting.
//!
//! Oracles
//!  * exchange (fault enumeration): template × close at every byte offset × close kind ×
//!    segmentation: error unless the delivered bytes form a complete message; an `Ok` body equals
//!    the framed body exactly; a clean end of a Content-Length / chunked body before its framed end
//!    is `short-success/<framing>`.
//!  * pool: request i may share a connection with the previous request on it only if that response
//!    was complete, self-delimited, persistent, read to its end by the application and not followed
//!    by leftover bytes; every response handed to request i is the one generated for request i.
//!  * limit: at every connection-open event (after a 3-yield connect latency that lets close tasks
//!    already handed over by the pool run) the number of open connections is ≤ limit.

use std::{
    cell::RefCell,
    collections::{HashMap, VecDeque},
    fmt, io,
    pin::Pin,
    rc::Rc,
    task::{Context, Poll, Waker},
    time::Duration,
};

use actix_rt::net::{ActixStream, Ready};
use actix_service::Service;
use actix_tls::connect::{ConnectError, ConnectInfo, Connection};
use bytes::Bytes;
use futures_util::{future::LocalBoxFuture, StreamExt as _};
use http::Uri;
use serde::{Deserialize, Serialize};
use serde_json::json;
use tokio::io::{AsyncRead, AsyncWrite, ReadBuf};

use crate::{
    refmodel::h1_resp,
    report::{guard, panic_site, Ctx, Reporter},
    util::{esc_short, split_at_cuts, Rng},
    world::exec::{breathe, run_virtual},
};

const RESP_TIMEOUT: Duration = Duration::from_secs(600);
const WATCHDOG: Duration = Duration::from_secs(7200);
const MAX_CHUNKS: usize = 200_000;

mod escb {
    use serde::{Deserialize, Deserializer, Serializer};

    use crate::util::{esc, unesc};

    pub fn serialize<S: Serializer>(v: &[u8], s: S) -> Result<S::Ok, S::Error> {
        s.serialize_str(&esc(v))
    }
    pub fn deserialize<'de, D: Deserializer<'de>>(d: D) -> Result<Vec<u8>, D::Error> {
        let s = String::deserialize(d)?;
        Ok(unesc(&s))
    }
}

// ------------------------------------------------------------------------------------------------
// scripted peer
// ------------------------------------------------------------------------------------------------

#[derive(Clone, Copy, PartialEq, Eq, Debug, Serialize, Deserialize)]
enum CloseKind {
    /// keep the connection open and stay silent
    Stay,
    /// half-close: reads return Ok(0) after the queued bytes
    Eof,
    /// reads fail with ECONNRESET after the queued bytes
    Reset,
}

impl CloseKind {
    fn name(self) -> &'static str {
        match self {
            CloseKind::Stay => "stay",
            CloseKind::Eof => "eof",
            CloseKind::Reset => "reset",
        }
    }
}

#[derive(Clone, Debug)]
struct Reply {
    segs: Vec<Vec<u8>>,
    /// a `Pending` (with immediate wake) before every segment but the first, and before the close
    pace: bool,
    close: CloseKind,
    /// a `Pending` before the close becomes visible (the close "arrives later")
    close_pause: bool,
    /// bytes that follow the response as a separate, immediately readable segment
    leftover: Option<Vec<u8>>,
}

struct Item {
    data: Bytes,
    pause: bool,
}

#[derive(Default)]
struct ConnSt {
    inq: VecDeque<Item>,
    close: Option<CloseKind>,
    close_pause: bool,
    read_waker: Option<Waker>,
    out: Vec<u8>,
    scanned: usize,
    targets: Vec<String>,
    shutdown: bool,
    dropped: bool,
    bytes_read: usize,
    read_pendings: u64,
    eof_seen: bool,
    /// request whose head has arrived and whose Content-Length body has not: (target, length)
    awaiting_body: Option<(String, usize)>,
    /// complete request bodies received, in order
    req_bodies: Vec<(String, Vec<u8>)>,
}

#[derive(Default)]
struct Net {
    conns: Vec<ConnSt>,
    plan: HashMap<String, Reply>,
    /// what the peer sends as soon as the HEAD of a request with a body has arrived (100 Continue,
    /// or a final response that does not wait for the body)
    plan_head: HashMap<String, Reply>,
    gated: bool,
    held: Vec<(usize, String)>,
    arrivals: Vec<(usize, String)>,
    connects: usize,
    /// max open connections counted at open events after the connect latency (judged)
    max_open: usize,
    /// the same without the latency (observed only)
    max_open_strict: usize,
    unknown_targets: u64,
}

type NetRc = Rc<RefCell<Net>>;

impl Net {
    fn open_now(&self) -> usize {
        self.conns.iter().filter(|c| !c.shutdown && !c.dropped).count()
    }
    fn enqueue(&mut self, conn: usize, r: &Reply) {
        let c = &mut self.conns[conn];
        let mut first = true;
        for s in &r.segs {
            if s.is_empty() {
                continue;
            }
            c.inq.push_back(Item { data: Bytes::copy_from_slice(s), pause: r.pace && !first });
            first = false;
        }
        if let Some(l) = &r.leftover {
            c.inq.push_back(Item { data: Bytes::copy_from_slice(l), pause: false });
        }
        if r.close != CloseKind::Stay {
            c.close = Some(r.close);
            c.close_pause = r.close_pause && !first && r.leftover.is_none();
        }
        if let Some(w) = c.read_waker.take() {
            w.wake();
        }
    }
    fn on_request(&mut self, conn: usize, target: String) {
        self.arrivals.push((conn, target.clone()));
        self.conns[conn].targets.push(target.clone());
        if self.gated {
            self.held.push((conn, target));
        } else {
            self.answer(conn, &target);
        }
    }
    fn on_head(&mut self, conn: usize, target: &str) {
        if let Some(r) = self.plan_head.get(target).cloned() {
            self.enqueue(conn, &r);
        }
    }
    fn answer(&mut self, conn: usize, target: &str) {
        match self.plan.get(target).cloned() {
            Some(r) => self.enqueue(conn, &r),
            None => self.unknown_targets += 1,
        }
    }
    /// release the held request number `k`
    fn release_held(&mut self, k: usize) {
        let (conn, target) = self.held.remove(k);
        self.answer(conn, &target);
    }
}

/// Client-side end of a scripted connection.
struct SIo {
    net: NetRc,
    idx: usize,
}

impl fmt::Debug for SIo {
    fn fmt(&self, f: &mut fmt::Formatter<'_>) -> fmt::Result {
        write!(f, "SIo#{}", self.idx)
    }
}

impl Drop for SIo {
    fn drop(&mut self) {
        if let Ok(mut n) = self.net.try_borrow_mut() {
            n.conns[self.idx].dropped = true;
        }
    }
}

impl AsyncRead for SIo {
    fn poll_read(self: Pin<&mut Self>, cx: &mut Context<'_>, buf: &mut ReadBuf<'_>) -> Poll<io::Result<()>> {
        let mut n = self.net.borrow_mut();
        let c = &mut n.conns[self.idx];
        if let Some(front) = c.inq.front_mut() {
            if front.pause {
                front.pause = false;
                c.read_pendings += 1;
                cx.waker().wake_by_ref();
                return Poll::Pending;
            }
            let mut it = c.inq.pop_front().unwrap();
            let k = it.data.len().min(buf.remaining());
            buf.put_slice(&it.data[..k]);
            c.bytes_read += k;
            if k < it.data.len() {
                let rest = it.data.split_off(k);
                c.inq.push_front(Item { data: rest, pause: false });
            }
            return Poll::Ready(Ok(()));
        }
        match c.close {
            Some(kind) => {
                if c.close_pause {
                    c.close_pause = false;
                    c.read_pendings += 1;
                    cx.waker().wake_by_ref();
                    return Poll::Pending;
                }
                if kind == CloseKind::Reset {
                    Poll::Ready(Err(io::Error::new(io::ErrorKind::ConnectionReset, "scripted reset")))
                } else {
                    c.eof_seen = true;
                    Poll::Ready(Ok(()))
                }
            }
            None => {
                c.read_pendings += 1;
                c.read_waker = Some(cx.waker().clone());
                Poll::Pending
            }
        }
    }
}

impl AsyncWrite for SIo {
    fn poll_write(self: Pin<&mut Self>, _: &mut Context<'_>, data: &[u8]) -> Poll<io::Result<usize>> {
        let idx = self.idx;
        let mut n = self.net.borrow_mut();
        n.conns[idx].out.extend_from_slice(data);
        // a request is its head plus `content-length` body bytes (never chunked in this workload)
        loop {
            let c = &mut n.conns[idx];
            if let Some((target, need)) = c.awaiting_body.clone() {
                if c.out.len() - c.scanned < need {
                    break;
                }
                let body = c.out[c.scanned..c.scanned + need].to_vec();
                c.scanned += need;
                c.awaiting_body = None;
                c.req_bodies.push((target.clone(), body));
                n.on_request(idx, target);
                continue;
            }
            let from = c.scanned;
            let Some(p) = c.out[from..].windows(4).position(|w| w == b"\r\n\r\n") else { break };
            let head = String::from_utf8_lossy(&c.out[from..from + p]).to_string();
            let mut lines = head.split("\r\n");
            let target = lines.next().unwrap_or("").split(' ').nth(1).unwrap_or("").to_string();
            let need = lines
                .filter_map(|l| l.split_once(':'))
                .find(|(k, _)| k.eq_ignore_ascii_case("content-length"))
                .and_then(|(_, v)| v.trim().parse::<usize>().ok())
                .unwrap_or(0);
            c.scanned = from + p + 4;
            if need > 0 {
                c.awaiting_body = Some((target.clone(), need));
                n.on_head(idx, &target);
            } else {
                n.on_request(idx, target);
            }
        }
        Poll::Ready(Ok(data.len()))
    }
    fn poll_flush(self: Pin<&mut Self>, _: &mut Context<'_>) -> Poll<io::Result<()>> {
        Poll::Ready(Ok(()))
    }
    fn poll_shutdown(self: Pin<&mut Self>, _: &mut Context<'_>) -> Poll<io::Result<()>> {
        self.net.borrow_mut().conns[self.idx].shutdown = true;
        Poll::Ready(Ok(()))
    }
}

impl ActixStream for SIo {
    fn poll_read_ready(&self, cx: &mut Context<'_>) -> Poll<io::Result<Ready>> {
        let mut n = self.net.borrow_mut();
        let c = &mut n.conns[self.idx];
        if !c.inq.is_empty() || c.close.is_some() {
            Poll::Ready(Ok(Ready::READABLE))
        } else {
            c.read_waker = Some(cx.waker().clone());
            Poll::Pending
        }
    }
    fn poll_write_ready(&self, _: &mut Context<'_>) -> Poll<io::Result<Ready>> {
        Poll::Ready(Ok(Ready::WRITABLE))
    }
}

#[derive(Clone)]
struct ScriptConnector {
    net: NetRc,
}

impl Service<ConnectInfo<Uri>> for ScriptConnector {
    type Response = Connection<Uri, SIo>;
    type Error = ConnectError;
    type Future = LocalBoxFuture<'static, Result<Self::Response, Self::Error>>;

    actix_service::always_ready!();

    fn call(&self, req: ConnectInfo<Uri>) -> Self::Future {
        let net = self.net.clone();
        Box::pin(async move {
            {
                let mut n = net.borrow_mut();
                n.connects += 1;
                let strict = n.open_now() + 1;
                n.max_open_strict = n.max_open_strict.max(strict);
            }
            // connect latency: close tasks the pool has already spawned get to run
            for _ in 0..3 {
                tokio::task::yield_now().await;
            }
            let idx = {
                let mut n = net.borrow_mut();
                n.conns.push(ConnSt::default());
                let open = n.open_now();
                n.max_open = n.max_open.max(open);
                n.conns.len() - 1
            };
            let uri = req.request().clone();
            Ok(Connection::new(uri, SIo { net, idx }))
        })
    }
}

fn mk_client(net: &NetRc, limit: usize) -> awc::Client {
    awc::Client::builder()
        .connector(
            awc::Connector::new()
                .connector(ScriptConnector { net: net.clone() })
                .limit(limit)
                .timeout(Duration::from_secs(60)),
        )
        .timeout(RESP_TIMEOUT)
        .disable_redirects()
        .finish()
}

// ------------------------------------------------------------------------------------------------
// one request
// ------------------------------------------------------------------------------------------------

#[derive(Clone, Copy, PartialEq, Eq, Debug, Serialize, Deserialize)]
enum ClientAct {
    ReadAll,
    DropAtHead,
    /// read at most this many chunks, then drop the response
    DropAfter(usize),
}

#[derive(Clone, Debug, PartialEq, Eq)]
enum BodyEnd {
    Ok,
    Err(String),
    Dropped,
    Overrun,
}

#[derive(Clone, Debug)]
enum Outcome {
    SendErr(String),
    Resp { status: u16, xid: Option<String>, body: Vec<u8>, nchunks: usize, end: BodyEnd },
    Stall,
}

impl Outcome {
    fn class(&self) -> &'static str {
        match self {
            Outcome::SendErr(_) => "send-err",
            Outcome::Stall => "stall",
            Outcome::Resp { end: BodyEnd::Ok, .. } => "ok",
            Outcome::Resp { end: BodyEnd::Err(_), .. } => "body-err",
            Outcome::Resp { end: BodyEnd::Dropped, .. } => "dropped",
            Outcome::Resp { end: BodyEnd::Overrun, .. } => "overrun",
        }
    }
    fn read_to_end(&self) -> bool {
        matches!(self, Outcome::Resp { end: BodyEnd::Ok, .. })
    }
}

fn errclass(dbg: String) -> String {
    let s: String = dbg.chars().filter(|c| c.is_ascii_alphanumeric() || "():_".contains(*c)).take(48).collect();
    s
}

/// `req_body: Some(b)` sends `POST` with `Expect: 100-continue` and `b` as a sized body.
async fn exchange(client: awc::Client, head_req: bool, target: String, act: ClientAct, req_body: Option<Vec<u8>>) -> Outcome {
    let url = format!("http://c17.test{target}");
    let fut = async move {
        let sending = match req_body {
            Some(b) => client.post(url).insert_header(("expect", "100-continue")).no_decompress().send_body(Bytes::from(b)),
            None => {
                let req = if head_req { client.head(url) } else { client.get(url) };
                req.no_decompress().send()
            }
        };
        let resp = match sending.await {
            Err(e) => return Outcome::SendErr(errclass(format!("{e:?}"))),
            Ok(r) => r,
        };
        let status = resp.status().as_u16();
        let xid = resp.headers().get("x-id").and_then(|v| v.to_str().ok()).map(|s| s.to_string());
        let mut resp = resp.timeout(RESP_TIMEOUT);
        let mut body = vec![];
        let mut nchunks = 0usize;
        let max = match act {
            ClientAct::ReadAll => MAX_CHUNKS,
            ClientAct::DropAtHead => 0,
            ClientAct::DropAfter(k) => k,
        };
        let mut end = BodyEnd::Dropped;
        while nchunks < max {
            match resp.next().await {
                Some(Ok(b)) => {
                    nchunks += 1;
                    body.extend_from_slice(&b);
                }
                Some(Err(e)) => {
                    end = BodyEnd::Err(errclass(format!("{e:?}")));
                    break;
                }
                None => {
                    end = BodyEnd::Ok;
                    break;
                }
            }
        }
        if act == ClientAct::ReadAll && end == BodyEnd::Dropped {
            end = BodyEnd::Overrun;
        }
        drop(resp);
        Outcome::Resp { status, xid, body, nchunks, end }
    };
    match tokio::time::timeout(WATCHDOG, fut).await {
        Ok(o) => o,
        Err(_) => Outcome::Stall,
    }
}

// ------------------------------------------------------------------------------------------------
// response templates (ground truth by construction)
// ------------------------------------------------------------------------------------------------

#[derive(Clone, Copy, PartialEq, Eq, Debug, Serialize, Deserialize)]
enum Framing {
    NoBody,
    Cl,
    Chunked,
    /// HTTP/1.0 without Content-Length: delimited by the close
    Close10,
    /// HTTP/1.1 without Content-Length / Transfer-Encoding: RFC 7230 says close-delimited; awc
    /// treats it as "no body".  Not framed by Content-Length or chunked coding: both accepted.
    Close11,
}

impl Framing {
    fn name(self) -> &'static str {
        match self {
            Framing::NoBody => "no-body",
            Framing::Cl => "content-length",
            Framing::Chunked => "chunked",
            Framing::Close10 => "close-delimited-1.0",
            Framing::Close11 => "close-delimited-1.1",
        }
    }
}

#[derive(Clone, Debug, Serialize, Deserialize)]
struct Part {
    label: String,
    #[serde(with = "escb")]
    bytes: Vec<u8>,
}

#[derive(Clone, Debug, Serialize, Deserialize)]
struct Tpl {
    name: String,
    head_req: bool,
    parts: Vec<Part>,
    /// end of the head of the final (non-interim) response
    final_head_end: usize,
    /// offset at which every body byte and the last-chunk line have been received
    body_done_at: Option<usize>,
    /// offset at which the message is complete by its own framing (None: close-delimited)
    msg_end: Option<usize>,
    status: u16,
    #[serde(with = "escb")]
    body: Vec<u8>,
    framing: Framing,
    /// the request is `POST` with `Expect: 100-continue` and a sized body.  The interim parts of
    /// the wire (a `100 Continue`) are sent when the request HEAD has arrived, the rest once the
    /// request body is complete; without interim parts the whole response is sent at the head
    /// (the server answers with a final response instead of `100 Continue`).
    #[serde(default)]
    expect: bool,
}

impl Tpl {
    fn interim_end(&self) -> usize {
        self.parts.iter().take_while(|p| p.label.starts_with("interim")).map(|p| p.bytes.len()).sum()
    }
    fn wire(&self) -> Vec<u8> {
        self.parts.iter().flat_map(|p| p.bytes.iter().copied()).collect()
    }
    /// label of the part containing the first byte that was NOT delivered
    fn region(&self, cut_at: usize) -> String {
        let mut off = 0;
        for p in &self.parts {
            if cut_at < off + p.bytes.len() {
                let inside = if cut_at == off { "^" } else { "" };
                return format!("{inside}{}", p.label);
            }
            off += p.bytes.len();
        }
        "complete".into()
    }
}

struct TB {
    name: String,
    head_req: bool,
    expect: bool,
    parts: Vec<Part>,
    status: u16,
    body: Vec<u8>,
    framing: Framing,
    final_head_end: usize,
    body_done_at: Option<usize>,
}

impl TB {
    fn new(name: &str) -> TB {
        TB { name: name.into(), head_req: false, expect: false, parts: vec![], status: 0, body: vec![], framing: Framing::NoBody, final_head_end: 0, body_done_at: None }
    }
    fn len(&self) -> usize {
        self.parts.iter().map(|p| p.bytes.len()).sum()
    }
    fn p(&mut self, label: &str, b: impl AsRef<[u8]>) -> &mut Self {
        if !b.as_ref().is_empty() {
            self.parts.push(Part { label: label.into(), bytes: b.as_ref().to_vec() });
        }
        self
    }
    fn interim(&mut self, status_line: &str, headers: &[&str]) -> &mut Self {
        self.p("interim-status-line", format!("{status_line}\r\n"));
        for h in headers {
            self.p("interim-header", format!("{h}\r\n"));
        }
        self.p("interim-head-end", "\r\n")
    }
    fn head(&mut self, status_line: &str, headers: &[&str]) -> &mut Self {
        self.status = status_line[9..12].parse().unwrap();
        self.p("status-line", format!("{status_line}\r\n"));
        for h in headers {
            self.p("header", format!("{h}\r\n"));
        }
        self.p("head-end", "\r\n");
        self.final_head_end = self.len();
        self
    }
    fn cl_body(&mut self, body: &[u8]) -> &mut Self {
        self.framing = Framing::Cl;
        self.body = body.to_vec();
        self.p("cl-body", body);
        self.body_done_at = Some(self.len());
        self
    }
    fn chunk(&mut self, size_line: &str, data: &[u8]) -> &mut Self {
        self.framing = Framing::Chunked;
        self.body.extend_from_slice(data);
        // size_line is "<hex>[;ext]"
        let (sz, ext) = match size_line.find(';') {
            Some(i) => (&size_line[..i], &size_line[i..]),
            None => (size_line, ""),
        };
        self.p("chunk-size", sz).p("chunk-ext", ext).p("chunk-size-crlf", "\r\n").p("chunk-data", data).p("chunk-data-crlf", "\r\n")
    }
    fn last_chunk(&mut self, size_line: &str) -> &mut Self {
        self.framing = Framing::Chunked;
        let (sz, ext) = match size_line.find(';') {
            Some(i) => (&size_line[..i], &size_line[i..]),
            None => (size_line, ""),
        };
        self.p("last-chunk-size", sz).p("last-chunk-ext", ext).p("last-chunk-crlf", "\r\n");
        self.body_done_at = Some(self.len());
        self.p("final-crlf", "\r\n")
    }
    fn close_body(&mut self, f: Framing, body: &[u8]) -> &mut Self {
        self.framing = f;
        self.body = body.to_vec();
        self.p("close-delimited-body", body)
    }
    fn build(&mut self) -> Tpl {
        let len = self.len();
        let (msg_end, bda) = match self.framing {
            Framing::NoBody => (Some(self.final_head_end), Some(self.final_head_end)),
            Framing::Cl | Framing::Chunked => (Some(len), self.body_done_at),
            Framing::Close10 | Framing::Close11 => (None, None),
        };
        Tpl {
            name: self.name.clone(),
            head_req: self.head_req,
            expect: self.expect,
            parts: self.parts.clone(),
            final_head_end: self.final_head_end,
            body_done_at: bda,
            msg_end,
            status: self.status,
            body: self.body.clone(),
            framing: self.framing,
        }
    }
}

fn short_corpus() -> Vec<Tpl> {
    let mut v = vec![];
    v.push(TB::new("cl").head("HTTP/1.1 200 OK", &["content-length: 11"]).cl_body(b"hello world").build());
    v.push(TB::new("cl-mixed-headers").head("HTTP/1.1 200 OK", &["Server: x", "Content-Length:  7 ", "X-A: b"]).cl_body(b"0\r\n\r\nab").build());
    v.push(TB::new("cl-zero").head("HTTP/1.1 200 OK", &["content-length: 0"]).build());
    v.push(TB::new("cl-conn-close").head("HTTP/1.1 200 OK", &["connection: close", "content-length: 5"]).cl_body(b"hello").build());
    v.push(TB::new("cl-http10-keepalive").head("HTTP/1.0 200 OK", &["connection: keep-alive", "content-length: 5"]).cl_body(b"hello").build());
    v.push(TB::new("cl-http10").head("HTTP/1.0 200 OK", &["content-length: 6"]).cl_body(b"hello!").build());
    v.push(TB::new("chunked").head("HTTP/1.1 200 OK", &["transfer-encoding: chunked"]).chunk("5", b"hello").chunk("6", b" world").last_chunk("0").build());
    v.push(
        TB::new("chunked-ext")
            .head("HTTP/1.1 200 OK", &["Transfer-Encoding: chunked"])
            .chunk("5;ext=1", b"hello")
            .chunk("00A;foo", b"0123456789")
            .chunk("1", b"\r")
            .last_chunk("0;last")
            .build(),
    );
    v.push(TB::new("chunked-lookalike").head("HTTP/1.1 200 OK", &["transfer-encoding: chunked"]).chunk("7", b"0\r\n\r\nHT").last_chunk("000").build());
    v.push(TB::new("chunked-empty").head("HTTP/1.1 200 OK", &["transfer-encoding: chunked"]).last_chunk("0").build());
    v.push(TB::new("close-1.0").head("HTTP/1.0 200 OK", &["server: old"]).close_body(Framing::Close10, b"hello old world").build());
    v.push(TB::new("close-1.1").head("HTTP/1.1 200 OK", &["connection: close"]).close_body(Framing::Close11, b"until close").build());
    let mut t = TB::new("head-cl");
    t.head_req = true;
    v.push(t.head("HTTP/1.1 200 OK", &["content-length: 1234"]).build());
    let mut t = TB::new("head-chunked");
    t.head_req = true;
    v.push(t.head("HTTP/1.1 200 OK", &["transfer-encoding: chunked"]).build());
    v.push(TB::new("204").head("HTTP/1.1 204 No Content", &["x-a: b"]).build());
    v.push(TB::new("304").head("HTTP/1.1 304 Not Modified", &["etag: \"a\""]).build());
    // RFC 7230 §3.3.2: a 304 may carry the Content-Length of the representation; it never has a body
    v.push(TB::new("304-cl").head("HTTP/1.1 304 Not Modified", &["content-length: 11"]).build());
    v.push(TB::new("interim-100-cl").interim("HTTP/1.1 100 Continue", &[]).head("HTTP/1.1 200 OK", &["content-length: 5"]).cl_body(b"hello").build());
    v.push(
        TB::new("interim-103-chunked")
            .interim("HTTP/1.1 103 Early Hints", &["link: </a>; rel=preload"])
            .head("HTTP/1.1 200 OK", &["transfer-encoding: chunked"])
            .chunk("3", b"abc")
            .last_chunk("0")
            .build(),
    );
    // a 204 must not carry Content-Length, but a peer may send it; it has no body either way
    v.push(TB::new("204-cl").head("HTTP/1.1 204 No Content", &["content-length: 5"]).build());

    // ---- request with `Expect: 100-continue` and a body: awc reads the 100 and the final head
    // with ONE codec, so per-head codec state must not leak from the interim to the final response
    let ex = |name: &str, interim: bool| {
        let mut t = TB::new(name);
        t.expect = true;
        if interim {
            t.interim("HTTP/1.1 100 Continue", &[]);
        }
        t
    };
    v.push(ex("expect-100-cl", true).head("HTTP/1.1 200 OK", &["content-length: 11"]).cl_body(b"hello world").build());
    v.push(ex("expect-100-chunked", true).head("HTTP/1.1 201 Created", &["transfer-encoding: chunked"]).chunk("5;e=1", b"hello").chunk("06", b" world").last_chunk("0").build());
    v.push(ex("expect-100-close-1.0", true).head("HTTP/1.0 200 OK", &["server: old"]).close_body(Framing::Close10, b"hello old world").build());
    v.push(ex("expect-100-304-cl", true).head("HTTP/1.1 304 Not Modified", &["content-length: 11"]).build());
    v.push(ex("expect-100-204-cl", true).head("HTTP/1.1 204 No Content", &["content-length: 5"]).build());
    v.push(ex("expect-100-cl-conn-close", true).head("HTTP/1.1 200 OK", &["connection: close", "content-length: 5"]).cl_body(b"hello").build());
    // the server answers with a final response instead of 100 Continue
    v.push(ex("expect-final-417-cl", false).head("HTTP/1.1 417 Expectation Failed", &["content-length: 6"]).cl_body(b"no way").build());
    v.push(ex("expect-final-200-chunked", false).head("HTTP/1.1 200 OK", &["transfer-encoding: chunked"]).chunk("3", b"abc").chunk("2", b"de").last_chunk("0").build());
    v.push(ex("expect-final-417-close-1.0", false).head("HTTP/1.0 417 Expectation Failed", &[]).close_body(Framing::Close10, b"bye").build());
    v
}

/// request-body length used with an `expect` template for enumeration index `idx`
fn rbl(t: &Tpl, idx: u64) -> usize {
    if !t.expect {
        0
    } else if idx % 5 == 0 {
        70_000
    } else {
        23
    }
}

/// random template with a larger body
fn random_tpl(rng: &mut Rng) -> Tpl {
    let kind = rng.below(6);
    let blen = match rng.below(4) {
        0 => rng.range(1, 40),
        1 => rng.range(41, 2000),
        2 => rng.range(2001, 20_000),
        _ => rng.range(20_001, 90_000),
    };
    let body: Vec<u8> = {
        // body full of response look-alikes and chunk terminators
        let pats: [&[u8]; 5] = [b"0\r\n\r\n", b"HTTP/1.1 200 OK\r\ncontent-length: 3\r\n\r\nabc", b"\r\n", b"xyzzy", b"5\r\nhello\r\n"];
        let mut b = Vec::with_capacity(blen + 64);
        while b.len() < blen {
            if rng.chance(1, 3) {
                b.extend_from_slice(pats[rng.below(pats.len())]);
            } else {
                let n = rng.range(1, 64);
                b.extend((0..n).map(|_| b'a' + (rng.next() % 26) as u8));
            }
        }
        b.truncate(blen);
        b
    };
    let mut extra: Vec<String> = vec![];
    for _ in 0..rng.below(4) {
        extra.push(format!("x-h{}: {}", rng.below(100), "v".repeat(rng.range(1, 30))));
    }
    let interim = rng.chance(1, 6);
    // a quarter of the cases: request with Expect: 100-continue; the peer sends 100 Continue
    // first (3 of 4) or answers with the final response right away
    let expect = rng.chance(1, 4);
    let expect_100 = expect && rng.chance(3, 4);
    let start = |name: &str| {
        let mut t = TB::new(&if expect { format!("rand-expect-{name}") } else { format!("rand-{name}") });
        t.expect = expect;
        if expect_100 {
            t.interim("HTTP/1.1 100 Continue", &[]);
        }
        t
    };
    match kind {
        0 | 1 => {
            let mut t = start("cl");
            if interim && !expect {
                t.interim("HTTP/1.1 103 Early Hints", &["link: </s.css>; rel=preload"]);
            }
            let cl = format!("content-length: {}", body.len());
            let mut hs: Vec<&str> = extra.iter().map(|s| s.as_str()).collect();
            hs.insert(rng.below(hs.len() + 1), cl.as_str());
            t.head("HTTP/1.1 200 OK", &hs).cl_body(&body).build()
        }
        2 | 3 | 4 => {
            let mut t = start("chunked");
            if interim && !expect {
                t.interim("HTTP/1.1 100 Continue", &[]);
            }
            let mut hs: Vec<&str> = extra.iter().map(|s| s.as_str()).collect();
            hs.insert(rng.below(hs.len() + 1), "transfer-encoding: chunked");
            t.head("HTTP/1.1 200 OK", &hs);
            let mut off = 0;
            while off < body.len() {
                let n = match rng.below(4) {
                    0 => rng.range(1, 8),
                    1 => rng.range(1, 300),
                    2 => rng.range(1, 5000),
                    _ => rng.range(1, 40_000),
                }
                .min(body.len() - off);
                let mut sl = match rng.below(3) {
                    0 => format!("{:x}", n),
                    1 => format!("{:X}", n),
                    _ => format!("{:04x}", n),
                };
                if rng.chance(1, 4) {
                    sl.push_str([";a", ";a=b", ";x=1;y=2"][rng.below(3)]);
                }
                t.chunk(&sl, &body[off..off + n]);
                off += n;
            }
            t.last_chunk(if rng.chance(1, 5) { "0;fin" } else { "0" }).build()
        }
        _ => {
            let hs: Vec<&str> = extra.iter().map(|s| s.as_str()).collect();
            start("close-1.0").head("HTTP/1.0 200 OK", &hs).close_body(Framing::Close10, &body).build()
        }
    }
}

// ------------------------------------------------------------------------------------------------
// exchange cases
// ------------------------------------------------------------------------------------------------

#[derive(Clone, Debug, Serialize, Deserialize)]
struct XCase {
    /// bytes [0, cut_at) of the wire are delivered, then `close`
    cut_at: usize,
    close: CloseKind,
    /// read-segment boundaries inside the delivered prefix
    cuts: Vec<usize>,
    pace: bool,
    seg_class: String,
    /// length of the request body (templates with `expect` only)
    #[serde(default)]
    req_body_len: usize,
}

struct XObs {
    out: Outcome,
    /// complete request bodies the peer received
    req_bodies: Vec<Vec<u8>>,
    /// bytes of a request body that never became complete
    req_body_partial: Vec<u8>,
    conns: usize,
    max_open: usize,
    bytes_read: usize,
    read_pendings: u64,
}

fn run_exchange(t: &Tpl, c: &XCase) -> Result<XObs, String> {
    let wire = t.wire();
    let head_req = t.head_req;
    let expect = t.expect;
    let interim_end = t.interim_end();
    let req_body = if expect { Some(req_body_bytes(c.req_body_len)) } else { None };
    let c = c.clone();
    guard(move || {
        run_virtual(async move {
            let net: NetRc = Rc::new(RefCell::new(Net::default()));
            let cut_at = c.cut_at.min(wire.len());
            let mk = |from: usize, to: usize, close: CloseKind| {
                let cuts: Vec<usize> = c.cuts.iter().filter(|&&x| x > from && x < to).map(|x| x - from).collect();
                let segs = if to <= from { vec![] } else { split_at_cuts(&wire[from..to], &cuts) };
                Reply { segs, pace: c.pace, close, close_pause: c.pace, leftover: None }
            };
            if !expect {
                net.borrow_mut().plan.insert("/x".into(), mk(0, cut_at, c.close));
            } else if interim_end == 0 || cut_at < interim_end {
                // final response instead of 100 Continue, or the connection ends inside the 100
                net.borrow_mut().plan_head.insert("/x".into(), mk(0, cut_at, c.close));
            } else {
                net.borrow_mut().plan_head.insert("/x".into(), mk(0, interim_end, CloseKind::Stay));
                net.borrow_mut().plan.insert("/x".into(), mk(interim_end, cut_at, c.close));
            }
            let client = mk_client(&net, 4);
            let out = exchange(client.clone(), head_req, "/x".into(), ClientAct::ReadAll, req_body.clone()).await;
            drop(client);
            breathe().await;
            let n = net.borrow();
            XObs {
                out,
                req_bodies: n.conns.iter().flat_map(|c| c.req_bodies.iter().map(|b| b.1.clone())).collect(),
                req_body_partial: n.conns.iter().filter(|c| c.awaiting_body.is_some()).flat_map(|c| c.out[c.scanned..].to_vec()).collect(),
                conns: n.conns.len(),
                max_open: n.max_open,
                bytes_read: n.conns.iter().map(|c| c.bytes_read).sum(),
                read_pendings: n.conns.iter().map(|c| c.read_pendings).sum(),
            }
        })
    })
}

/// deterministic request body: position-dependent so that loss, duplication and reordering show
fn req_body_bytes(len: usize) -> Vec<u8> {
    (0..len.max(1)).map(|i| b"0123456789abcdefghijklmnopqrstuvwxyz\r\n"[(i + i / 38) % 38]).collect()
}

fn is_prefix(a: &[u8], of: &[u8]) -> bool {
    a.len() <= of.len() && &of[..a.len()] == a
}

/// Returns (class, detail) of the violated clause, if any; bumps observation counters.
fn judge_exchange(t: &Tpl, c: &XCase, o: &XObs, rep: &mut Reporter) -> Option<(String, String)> {
    let wire_len: usize = t.parts.iter().map(|p| p.bytes.len()).sum();
    let fr = t.framing.name();
    rep.count(&format!("outcome:{}", o.out.class()), 1);
    if o.conns != 1 {
        return Some(("harness".into(), format!("{} connections opened for one request", o.conns)));
    }
    if t.expect {
        let sent = req_body_bytes(c.req_body_len);
        if o.req_bodies.len() > 1 || o.req_bodies.iter().any(|b| *b != sent) || !is_prefix(&o.req_body_partial, &sent) {
            return Some((
                "request-body-corrupt".into(),
                format!("the peer received {} complete request bodies ({:?} bytes) and a partial one of {} bytes; the client sent one body of {} bytes", o.req_bodies.len(), o.req_bodies.iter().map(|b| b.len()).collect::<Vec<_>>(), o.req_body_partial.len(), sent.len()),
            ));
        }
        let got_100 = t.interim_end() > 0 && c.cut_at >= t.interim_end();
        match (got_100, o.req_bodies.len()) {
            (true, 1) => rep.count("expect:body-sent-after-100-continue", 1),
            (true, _) => rep.count("expect:body-not-sent-although-100-continue", 1),
            (false, 0) => rep.count("expect:body-withheld-without-100-continue", 1),
            (false, _) => rep.count("expect:body-sent-without-100-continue", 1),
        }
        if got_100 && o.req_bodies.is_empty() && !matches!(o.out, Outcome::SendErr(_)) {
            return Some(("request-body-corrupt".into(), "a response was delivered although the peer sends it only after the complete request body, which it never received".into()));
        }
    }
    let complete = t.msg_end.map(|e| c.cut_at >= e).unwrap_or(false);
    match &o.out {
        Outcome::Stall => Some(("no-outcome".into(), "neither a response nor an error within 7200 virtual seconds (timeouts are 600 s)".into())),
        Outcome::SendErr(e) => {
            rep.count(&format!("send-err:{e}"), 1);
            if complete && c.close != CloseKind::Reset {
                rep.count("anomaly:error-on-complete-message", 1);
            }
            if c.cut_at < t.final_head_end {
                rep.count("expected:error-before-head-complete", 1);
            } else {
                rep.count("expected:error-at-send-for-incomplete-body", 1);
            }
            None
        }
        Outcome::Resp { status, body, end, .. } => {
            if c.cut_at < t.final_head_end {
                let what = if (100..200).contains(status) { "interim-as-final" } else { "response-from-incomplete-head" };
                return Some((what.into(), format!("status {status} returned although the final response head was cut at byte {} of {}", c.cut_at, t.final_head_end)));
            }
            if *status != t.status {
                let what = if (100..200).contains(status) { "interim-as-final" } else { "wrong-status" };
                return Some((what.into(), format!("status {status} returned, final response has {}", t.status)));
            }
            match t.framing {
                Framing::NoBody | Framing::Cl | Framing::Chunked => {
                    if !is_prefix(body, &t.body) {
                        return Some((format!("body-corrupt/{fr}"), format!("delivered {} bytes that are not a prefix of the framed body: {}", body.len(), esc_short(body, 80))));
                    }
                    match end {
                        BodyEnd::Ok => {
                            if body.len() < t.body.len() {
                                return Some((
                                    format!("short-success/{fr}"),
                                    format!("body ended cleanly after {} of {} bytes; peer {} at wire offset {} of {}", body.len(), t.body.len(), c.close.name(), c.cut_at, wire_len),
                                ));
                            }
                            let done = t.body_done_at.unwrap();
                            if c.cut_at < done {
                                return Some((
                                    format!("short-success/{fr}"),
                                    format!("all {} body bytes delivered and the body ended cleanly, but the peer {} at offset {} before the last-chunk (at {})", body.len(), c.close.name(), c.cut_at, done),
                                ));
                            }
                            if !complete {
                                rep.count("tolerated:ok-after-last-chunk-before-final-crlf", 1);
                            } else {
                                rep.count("expected:ok-complete", 1);
                            }
                            None
                        }
                        BodyEnd::Err(e) => {
                            rep.count(&format!("body-err:{e}"), 1);
                            if complete && c.close != CloseKind::Reset {
                                rep.count("anomaly:error-on-complete-message", 1);
                            } else {
                                rep.count("expected:error-in-body", 1);
                            }
                            None
                        }
                        _ => Some(("harness".into(), format!("body reading ended with {end:?}"))),
                    }
                }
                Framing::Close10 | Framing::Close11 => {
                    let w = t.wire();
                    let got = &w[t.final_head_end..c.cut_at];
                    if !is_prefix(body, got) {
                        return Some((format!("body-corrupt/{fr}"), format!("delivered {} bytes that are not a prefix of what the peer sent: {}", body.len(), esc_short(body, 80))));
                    }
                    match end {
                        BodyEnd::Ok => {
                            if t.framing == Framing::Close11 && body.is_empty() && !got.is_empty() {
                                rep.count("tolerated:http11-unframed-response-read-as-empty", 1);
                                return None;
                            }
                            if c.close == CloseKind::Stay && t.framing == Framing::Close10 {
                                return Some((format!("ended-without-close/{fr}"), "close-delimited body ended cleanly while the connection was still open".into()));
                            }
                            if c.close == CloseKind::Eof && body.len() != got.len() {
                                return Some((format!("short-success/{fr}"), format!("{} of the {} bytes sent before the close were delivered", body.len(), got.len())));
                            }
                            rep.count("expected:ok-close-delimited", 1);
                            None
                        }
                        BodyEnd::Err(e) => {
                            rep.count(&format!("body-err:{e}"), 1);
                            if c.close == CloseKind::Eof {
                                rep.count("anomaly:error-on-complete-message", 1);
                            } else {
                                rep.count("expected:error-in-body", 1);
                            }
                            None
                        }
                        _ => Some(("harness".into(), format!("body reading ended with {end:?}"))),
                    }
                }
            }
        }
    }
}

fn x_replay(t: &Tpl, c: &XCase) -> serde_json::Value {
    json!({"phase": "exchange", "tpl": t, "case": c})
}

fn eval_exchange(t: &Tpl, c: &XCase, rep: &mut Reporter) {
    rep.eval();
    let region = t.region(c.cut_at);
    let sig_in = format!("{}:{}:{}", t.name, region.trim_start_matches('^'), c.close.name());
    match run_exchange(t, c) {
        Err(p) => {
            rep.violation("panic", &panic_site(&p), &format!("{p} — template {} cut at {} ({region})", t.name, c.cut_at), x_replay(t, c));
        }
        Ok(o) => {
            rep.count("bytes_read_by_client", o.bytes_read as u64);
            rep.count("read_pendings", o.read_pendings);
            rep.max("open_connections_single_exchange", o.max_open as u64);
            let before = rep.get("anomaly:error-on-complete-message");
            let verdict = judge_exchange(t, c, &o, rep);
            if debug() && rep.get("anomaly:error-on-complete-message") > before {
                eprintln!("ANOMALY error-on-complete {} cut_at {} {} {:?} seg {} -> {}", t.name, c.cut_at, c.close.name(), c.cuts.len(), c.seg_class, short_outcome(&o.out));
            }
            rep.sig(&format!("x|{}|{}|{}|{}|{}|{}|{}", t.name, region.trim_start_matches('^'), c.close.name(), c.seg_class, c.pace, o.out.class(), if c.req_body_len > 16_384 { "big-req" } else { "" }));
            rep.count(&format!("cut-region:{}", region.trim_start_matches('^')), 1);
            if rep.get("evaluations") % 5000 == 1 {
                rep.sample("exchange", json!({"template": t.name, "connection_ends_at": c.cut_at, "of": t.wire().len(), "in": region, "how": c.close.name(), "segmentation": c.seg_class, "pending_between_reads": c.pace, "outcome": short_outcome(&o.out)}));
            }
            if let Some((class, detail)) = verdict {
                let detail = format!("{detail}; template {} ({}), request {}, segmentation {} pace={}; outcome {:?}", t.name, t.framing.name(), if t.expect { "POST with Expect: 100-continue" } else if t.head_req { "HEAD" } else { "GET" }, c.seg_class, c.pace, short_outcome(&o.out));
                // one signature per interim status: what was cut where does not matter for this clause
                let sig = match (&o.out, class.as_str()) {
                    (Outcome::Resp { status, .. }, "interim-as-final") => format!("status-{status}"),
                    _ => sig_in.clone(),
                };
                rep.violation(&class, &sig, &detail, x_replay(t, c));
            }
        }
    }
}

fn debug() -> bool {
    std::env::var("C17_DEBUG").is_ok()
}

fn short_outcome(o: &Outcome) -> String {
    match o {
        Outcome::Resp { status, xid, body, nchunks, end } => format!("Resp{{status:{status}, x-id:{xid:?}, body:{} bytes \"{}\", chunks:{nchunks}, end:{end:?}}}", body.len(), esc_short(body, 40)),
        o => format!("{o:?}"),
    }
}

/// Cross-check a template's ground truth against the independent reference response parser.
fn self_check(t: &Tpl, rep: &mut Reporter) -> bool {
    let wire = t.wire();
    let m = if t.head_req { "HEAD" } else { "GET" };
    let rp = h1_resp::parse_responses(&wire, &|_| Some(m.to_string()), true);
    let Some(last) = rp.resps.iter().find(|r| !r.is_interim()) else {
        rep.inconclusive(&format!("template {}: reference parser found no final response", t.name));
        return false;
    };
    let fr_ok = match (&last.framing, t.framing) {
        (h1_resp::RespFraming::NoBody, Framing::NoBody) => true,
        (h1_resp::RespFraming::Cl(0), Framing::NoBody) => true,
        (h1_resp::RespFraming::Cl(n), Framing::Cl) => *n as usize == t.body.len(),
        (h1_resp::RespFraming::Chunked, Framing::Chunked) => true,
        (h1_resp::RespFraming::CloseDelimited, Framing::Close10 | Framing::Close11) => true,
        _ => false,
    };
    let ok = rp.malformed_at.is_none() && fr_ok && last.body == t.body && last.status == t.status && last.head_end == t.final_head_end && last.complete && (t.msg_end.is_none() || t.msg_end == Some(last.end));
    if !ok {
        rep.inconclusive(&format!("template {}: ground truth disagrees with refmodel/h1_resp ({:?} vs {:?}, body {} vs {})", t.name, last.framing, t.framing, last.body.len(), t.body.len()));
    }
    ok
}

// ------------------------------------------------------------------------------------------------
// pool scenarios
// ------------------------------------------------------------------------------------------------

#[derive(Clone, Copy, PartialEq, Eq, Debug, Serialize, Deserialize)]
enum RKind {
    Cl,
    Chunked,
    NoBody204,
    Head,
    ClConnClose,
    ChunkedConnClose,
    H10Cl,
    H10ClKeepAlive,
    Close10,
    TruncCl,
    TruncChunked,
    /// `103 Early Hints` in its own segment, then a complete Content-Length response
    Interim103Cl,
    NoBody304,
    /// POST with `Expect: 100-continue` and a body; `100 Continue` at the request head, then a
    /// complete Content-Length response once the body has arrived
    ExpectCl,
    /// the same, the final response cut short by a close
    ExpectTruncCl,
    ExpectTruncChunked,
}

impl RKind {
    fn persistent(self) -> bool {
        matches!(self, RKind::Cl | RKind::Chunked | RKind::NoBody204 | RKind::NoBody304 | RKind::Head | RKind::H10ClKeepAlive | RKind::Interim103Cl | RKind::ExpectCl)
    }
    fn complete(self) -> bool {
        !matches!(self, RKind::TruncCl | RKind::TruncChunked | RKind::ExpectTruncCl | RKind::ExpectTruncChunked)
    }
    fn expect(self) -> bool {
        matches!(self, RKind::ExpectCl | RKind::ExpectTruncCl | RKind::ExpectTruncChunked)
    }
    fn no_body(self) -> bool {
        matches!(self, RKind::NoBody204 | RKind::NoBody304 | RKind::Head)
    }
    fn nonpersistent_reason(self) -> &'static str {
        match self {
            RKind::ClConnClose | RKind::ChunkedConnClose => "connection-close",
            RKind::H10Cl => "http10-without-keep-alive",
            RKind::Close10 => "close-delimited",
            _ => "persistent",
        }
    }
}

#[derive(Clone, Copy, PartialEq, Eq, Debug, Serialize, Deserialize)]
enum Leftover {
    None,
    StaleResponse,
    Garbage,
}

#[derive(Clone, Debug, Serialize, Deserialize)]
struct ReqPlan {
    kind: RKind,
    body_len: usize,
    nseg: usize,
    pace: bool,
    /// what the peer does right after the response: Stay or Eof (visible before the next request)
    after: CloseKind,
    leftover: Leftover,
    act: ClientAct,
}

#[derive(Clone, Debug, Serialize, Deserialize)]
struct PoolScenario {
    limit: usize,
    concurrent: bool,
    plans: Vec<ReqPlan>,
    order_seed: u64,
}

struct Built {
    reply: Reply,
    /// full body the application must see when it reads to the end
    body: Vec<u8>,
    framing: &'static str,
    /// sent when the request head has arrived (requests with `Expect: 100-continue`)
    head_reply: Option<Reply>,
    req_body: Option<Vec<u8>>,
}

fn body_for(i: usize, len: usize) -> Vec<u8> {
    let mut b = format!("id={i};").into_bytes();
    let mut k = 0u8;
    while b.len() < len {
        b.push(b'a' + (k % 26));
        k = k.wrapping_add(1);
    }
    b
}

fn even_cuts(len: usize, nseg: usize) -> Vec<usize> {
    if nseg <= 1 || len < 2 {
        return vec![];
    }
    (1..nseg).map(|k| k * len / nseg).filter(|&c| c > 0 && c < len).collect()
}

fn chunked_wire(body: &[u8], nchunks: usize) -> Vec<u8> {
    let mut w = vec![];
    let cuts = even_cuts(body.len(), nchunks.max(1));
    for piece in split_at_cuts(body, &cuts) {
        if piece.is_empty() {
            continue;
        }
        w.extend_from_slice(format!("{:x}\r\n", piece.len()).as_bytes());
        w.extend_from_slice(&piece);
        w.extend_from_slice(b"\r\n");
    }
    w.extend_from_slice(b"0\r\n\r\n");
    w
}

fn build_reply(i: usize, p: &ReqPlan) -> Built {
    let body = body_for(i, p.body_len.max(8));
    let xid = format!("x-id: {i}\r\n");
    let (head, payload, framing, app_body): (String, Vec<u8>, &'static str, Vec<u8>) = match p.kind {
        RKind::Cl | RKind::TruncCl | RKind::Interim103Cl | RKind::ExpectCl | RKind::ExpectTruncCl => (format!("HTTP/1.1 200 OK\r\n{xid}content-length: {}\r\n\r\n", body.len()), body.clone(), "content-length", body.clone()),
        RKind::ClConnClose => (format!("HTTP/1.1 200 OK\r\n{xid}connection: close\r\ncontent-length: {}\r\n\r\n", body.len()), body.clone(), "content-length", body.clone()),
        RKind::H10Cl => (format!("HTTP/1.0 200 OK\r\n{xid}content-length: {}\r\n\r\n", body.len()), body.clone(), "content-length", body.clone()),
        RKind::H10ClKeepAlive => (format!("HTTP/1.0 200 OK\r\n{xid}connection: keep-alive\r\ncontent-length: {}\r\n\r\n", body.len()), body.clone(), "content-length", body.clone()),
        RKind::Chunked | RKind::TruncChunked | RKind::ExpectTruncChunked => (format!("HTTP/1.1 200 OK\r\n{xid}transfer-encoding: chunked\r\n\r\n"), chunked_wire(&body, 3), "chunked", body.clone()),
        RKind::ChunkedConnClose => (format!("HTTP/1.1 200 OK\r\n{xid}connection: close\r\ntransfer-encoding: chunked\r\n\r\n"), chunked_wire(&body, 3), "chunked", body.clone()),
        RKind::NoBody204 => (format!("HTTP/1.1 204 No Content\r\n{xid}\r\n"), vec![], "no-body", vec![]),
        RKind::NoBody304 => (format!("HTTP/1.1 304 Not Modified\r\n{xid}etag: \"v{i}\"\r\n\r\n"), vec![], "no-body", vec![]),
        RKind::Head => (format!("HTTP/1.1 200 OK\r\n{xid}content-length: {}\r\n\r\n", body.len()), vec![], "no-body", vec![]),
        RKind::Close10 => (format!("HTTP/1.0 200 OK\r\n{xid}\r\n"), body.clone(), "close-delimited-1.0", body.clone()),
    };
    let interim: &[u8] = if p.kind == RKind::Interim103Cl { b"HTTP/1.1 103 Early Hints\r\nlink: </s.css>; rel=preload\r\n\r\n" } else { b"" };
    let mut wire = interim.to_vec();
    wire.extend_from_slice(head.as_bytes());
    let head_len = wire.len();
    wire.extend_from_slice(&payload);
    let mut close = p.after;
    if !p.kind.complete() {
        // lose the last third of the payload (at least the terminator)
        let keep = head_len + payload.len() * 2 / 3;
        wire.truncate(keep.min(wire.len() - 1));
        close = CloseKind::Eof;
    }
    if p.kind == RKind::Close10 {
        close = CloseKind::Eof;
    }
    // the head goes out as one segment, the payload in nseg segments
    let mut cuts = vec![];
    if !interim.is_empty() {
        cuts.push(interim.len());
    }
    if wire.len() > head_len {
        cuts.push(head_len);
        for c in even_cuts(wire.len() - head_len, p.nseg) {
            cuts.push(head_len + c);
        }
    }
    let leftover = match p.leftover {
        Leftover::None => None,
        // bytes before the close ARE the body of a close-delimited response
        _ if p.kind == RKind::Close10 || !p.kind.complete() => None,
        Leftover::StaleResponse => Some(format!("HTTP/1.1 200 OK\r\nx-id: stale{i}\r\ncontent-length: 12\r\n\r\nid=stale{i:03};").into_bytes()),
        Leftover::Garbage => Some(b"zz".to_vec()),
    };
    let pace = p.pace && p.kind != RKind::Interim103Cl;
    let (head_reply, req_body) = if p.kind.expect() {
        (Some(Reply { segs: vec![b"HTTP/1.1 100 Continue\r\n\r\n".to_vec()], pace: false, close: CloseKind::Stay, close_pause: false, leftover: None }), Some(req_body_bytes(p.body_len.max(1))))
    } else {
        (None, None)
    };
    Built { reply: Reply { segs: split_at_cuts(&wire, &cuts), pace, close, close_pause: false, leftover }, body: app_body, framing, head_reply, req_body }
}

struct PoolObs {
    outs: Vec<Outcome>,
    /// per connection: request indices in arrival order
    per_conn: Vec<Vec<usize>>,
    conn_of: Vec<Option<usize>>,
    max_open: usize,
    max_open_strict: usize,
    connects: usize,
    max_held: usize,
    unreleased: usize,
    unknown_targets: u64,
    /// (request index, bytes) of every complete request body the peer received
    req_bodies: Vec<(usize, Vec<u8>)>,
}

fn run_pool(sc: &PoolScenario) -> Result<PoolObs, String> {
    let sc = sc.clone();
    guard(move || {
        run_virtual(async move {
            let net: NetRc = Rc::new(RefCell::new(Net::default()));
            let n = sc.plans.len();
            for (i, p) in sc.plans.iter().enumerate() {
                let b = build_reply(i, p);
                net.borrow_mut().plan.insert(format!("/r{i}"), b.reply);
                if let Some(h) = b.head_reply {
                    net.borrow_mut().plan_head.insert(format!("/r{i}"), h);
                }
            }
            let client = mk_client(&net, sc.limit);
            let mut outs: Vec<Option<Outcome>> = vec![None; n];
            let mut max_held = 0;
            let mut unreleased = 0;
            if !sc.concurrent {
                for (i, p) in sc.plans.iter().enumerate() {
                    let o = exchange(client.clone(), p.kind == RKind::Head, format!("/r{i}"), p.act, build_reply(i, p).req_body).await;
                    outs[i] = Some(o);
                    breathe().await;
                }
            } else {
                net.borrow_mut().gated = true;
                let mut rng = Rng::derive(sc.order_seed, 17, 0);
                let handles: Vec<_> = sc.plans.iter().enumerate().map(|(i, p)| actix_rt::spawn(exchange(client.clone(), p.kind == RKind::Head, format!("/r{i}"), p.act, build_reply(i, p).req_body))).collect();
                let mut idle_rounds = 0;
                let mut released = 0;
                let mut rounds = 0;
                while released < n && idle_rounds < 200 && rounds < 100 * n + 1000 {
                    rounds += 1;
                    breathe().await;
                    let held = net.borrow().held.len();
                    max_held = max_held.max(held);
                    if held == 0 {
                        idle_rounds += 1;
                        continue;
                    }
                    idle_rounds = 0;
                    // sometimes let more requests arrive before answering
                    if rng.chance(1, 3) {
                        continue;
                    }
                    let k = rng.below(held);
                    net.borrow_mut().release_held(k);
                    released += 1;
                }
                unreleased = n - released;
                net.borrow_mut().gated = false;
                let pending: Vec<usize> = (0..net.borrow().held.len()).collect();
                for _ in pending {
                    net.borrow_mut().release_held(0);
                }
                for (i, h) in handles.into_iter().enumerate() {
                    outs[i] = Some(match h.await {
                        Ok(o) => o,
                        Err(_) => Outcome::SendErr("task-panicked".into()),
                    });
                }
            }
            drop(client);
            breathe().await;
            let nn = net.borrow();
            let idx_of = |t: &str| t.trim_start_matches("/r").parse::<usize>().ok();
            let per_conn: Vec<Vec<usize>> = nn.conns.iter().map(|c| c.targets.iter().filter_map(|t| idx_of(t.as_str())).collect()).collect();
            let mut conn_of = vec![None; n];
            for (ci, l) in per_conn.iter().enumerate() {
                for &i in l {
                    if i < n {
                        conn_of[i] = Some(ci);
                    }
                }
            }
            PoolObs {
                outs: outs.into_iter().map(|o| o.unwrap_or(Outcome::Stall)).collect(),
                per_conn,
                conn_of,
                max_open: nn.max_open,
                max_open_strict: nn.max_open_strict,
                connects: nn.connects,
                max_held,
                unreleased,
                unknown_targets: nn.unknown_targets,
                req_bodies: nn.conns.iter().flat_map(|c| c.req_bodies.iter().filter_map(|(t, b)| idx_of(t.as_str()).map(|i| (i, b.clone())))).collect(),
            }
        })
    })
}

fn act_name(a: ClientAct) -> String {
    match a {
        ClientAct::ReadAll => "read".into(),
        ClientAct::DropAtHead => "drop0".into(),
        ClientAct::DropAfter(k) => format!("drop{}", k.min(2)),
    }
}

fn plan_sig(p: &ReqPlan) -> String {
    format!("{:?}/{}/{:?}/{}", p.kind, p.after.name(), p.leftover, act_name(p.act))
}

fn judge_pool(sc: &PoolScenario, o: &PoolObs, rep: &mut Reporter) -> Vec<(String, String, String)> {
    let mut v: Vec<(String, String, String)> = vec![];
    let n = sc.plans.len();
    let built: Vec<Built> = sc.plans.iter().enumerate().map(|(i, p)| build_reply(i, p)).collect();
    if o.unknown_targets > 0 {
        v.push(("harness".into(), "unknown-target".into(), format!("{} requests with a target the script does not know", o.unknown_targets)));
    }
    // (1) every response handed to request i is request i's, and an Ok body is the whole body
    for i in 0..n {
        let p = &sc.plans[i];
        rep.count(&format!("pool-outcome:{}", o.outs[i].class()), 1);
        match &o.outs[i] {
            Outcome::Stall => v.push(("no-outcome".into(), format!("pool:{}", plan_sig(p)), format!("request {i}: neither response nor error within 7200 virtual seconds"))),
            Outcome::SendErr(e) => {
                rep.count(&format!("pool-send-err:{e}"), 1);
                if p.kind.complete() {
                    rep.count("anomaly:pool-error-for-complete-response", 1);
                    if debug() {
                        eprintln!("ANOMALY send-err {e} req {i} plans {:?} conns {:?}", sc.plans.iter().map(plan_sig).collect::<Vec<_>>(), o.per_conn);
                    }
                }
            }
            Outcome::Resp { status, .. } if (100..200).contains(status) => {
                v.push(("interim-as-final".into(), format!("status-{status}"), format!("request {i} was handed the interim response {status} as its final response")));
            }
            Outcome::Resp { xid, body, end, .. } => {
                let own = i.to_string();
                if xid.as_deref() != Some(own.as_str()) {
                    v.push((
                        "stale-response".into(),
                        format!("pool:prev={}", prev_sig(sc, o, i)),
                        format!("request {i} was handed a response carrying x-id {:?} (body {})", xid, esc_short(body, 40)),
                    ));
                    continue;
                }
                if !is_prefix(body, &built[i].body) {
                    v.push((format!("body-corrupt/{}", built[i].framing), format!("pool:{:?}", p.kind), format!("request {i}: delivered bytes are not a prefix of its body: {}", esc_short(body, 60))));
                    continue;
                }
                match end {
                    BodyEnd::Ok => {
                        if body.len() < built[i].body.len() || !p.kind.complete() {
                            v.push((
                                format!("short-success/{}", built[i].framing),
                                format!("pool:{:?}", p.kind),
                                format!("request {i}: body ended cleanly after {} of {} bytes (response kind {:?})", body.len(), built[i].body.len(), p.kind),
                            ));
                        }
                    }
                    BodyEnd::Err(e) => {
                        rep.count(&format!("pool-body-err:{e}"), 1);
                        if p.kind.complete() {
                            rep.count("anomaly:pool-error-for-complete-response", 1);
                            if debug() {
                                eprintln!("ANOMALY body-err {e} req {i} plans {:?} conns {:?}", sc.plans.iter().map(plan_sig).collect::<Vec<_>>(), o.per_conn);
                            }
                        }
                    }
                    BodyEnd::Dropped => rep.count("pool:early-drops", 1),
                    BodyEnd::Overrun => v.push(("harness".into(), "overrun".into(), format!("request {i}: more than {MAX_CHUNKS} chunks"))),
                }
            }
        }
    }
    for (i, b) in &o.req_bodies {
        let want = built.get(*i).and_then(|x| x.req_body.clone()).unwrap_or_default();
        if *b != want {
            v.push(("request-body-corrupt".into(), format!("pool:{:?}", sc.plans[*i].kind), format!("request {i}: the peer received a body of {} bytes, the client sent {} bytes", b.len(), want.len())));
        } else {
            rep.count("pool:request-bodies-verified", 1);
        }
    }
    // (2) reuse discipline
    for (ci, l) in o.per_conn.iter().enumerate() {
        for w in l.windows(2) {
            let (j, i) = (w[0], w[1]);
            if j >= n || i >= n {
                continue;
            }
            let pj = &sc.plans[j];
            let reason = if !pj.kind.persistent() {
                Some(pj.kind.nonpersistent_reason().to_string())
            } else if !pj.kind.complete() {
                Some("incomplete-response".to_string())
            } else if !o.outs[j].read_to_end() && !pj.kind.no_body() {
                Some(format!("body-not-read-to-end({})", o.outs[j].class()))
            } else if matches!(o.outs[j], Outcome::SendErr(_) | Outcome::Stall) {
                Some("failed-exchange".to_string())
            } else if pj.leftover != Leftover::None {
                Some(format!("leftover-bytes({:?})", pj.leftover))
            } else {
                None
            };
            match reason {
                Some(r) => v.push((
                    "reuse".into(),
                    format!("after:{r}:{:?}", pj.kind),
                    format!("request {i} was sent on connection {ci}, which had carried request {j} ({}) — not reusable: {r}", plan_sig(pj)),
                )),
                None => {
                    if !sc.plans[i].kind.complete() {
                        rep.count(if pj.kind.no_body() { "observed:truncated-response-on-connection-reused-after-no-body-exchange" } else { "observed:truncated-response-on-reused-connection" }, 1);
                    }
                    if pj.after == CloseKind::Eof {
                        rep.count("observed:reuse-after-peer-eof", 1);
                    } else {
                        rep.count("observed:legitimate-reuse", 1);
                    }
                }
            }
        }
    }
    // (3) limit
    if o.max_open > sc.limit {
        v.push(("limit".into(), format!("limit={}:concurrent={}", sc.limit, sc.concurrent), format!("{} connections open at once with limit {} ({} requests, {} connects)", o.max_open, sc.limit, n, o.connects)));
    }
    if o.max_open_strict > sc.limit {
        rep.count("observed:limit-exceeded-only-by-connections-being-closed", 1);
    }
    v
}

fn prev_sig(sc: &PoolScenario, o: &PoolObs, i: usize) -> String {
    if let Some(ci) = o.conn_of[i] {
        let l = &o.per_conn[ci];
        if let Some(pos) = l.iter().position(|&x| x == i) {
            if pos > 0 {
                return plan_sig(&sc.plans[l[pos - 1]]);
            }
        }
    }
    "first-on-connection".into()
}

fn eval_pool(sc: &PoolScenario, rep: &mut Reporter) {
    rep.eval();
    let replay = json!({"phase": "pool", "sc": sc});
    match run_pool(sc) {
        Err(p) => rep.violation("panic", &panic_site(&p), &format!("{p} — pool scenario {:?}", sc.plans.iter().map(plan_sig).collect::<Vec<_>>()), replay),
        Ok(o) => {
            let vs = judge_pool(sc, &o, rep);
            rep.max("pool:max_open_connections", o.max_open as u64);
            rep.max("pool:max_requests_answerable_at_once", o.max_held as u64);
            rep.count("pool:connections_opened", o.connects as u64);
            if rep.get("pool:requests") == 0 || (sc.concurrent && rep.get("pool:limit-reached") == 0) {
                rep.sample(
                    if sc.concurrent { "pool-concurrent" } else { "pool-sequence" },
                    json!({"limit": sc.limit, "plans": sc.plans.iter().map(plan_sig).collect::<Vec<_>>(), "requests_per_connection": o.per_conn, "outcomes": o.outs.iter().map(|x| x.class()).collect::<Vec<_>>(), "max_open": o.max_open}),
                );
            }
            rep.count("pool:requests", sc.plans.len() as u64);
            if sc.concurrent {
                rep.max("pool:max_requests_in_flight_over_limit", sc.plans.len().saturating_sub(sc.limit) as u64);
                if o.unreleased > 0 {
                    rep.count("anomaly:requests-never-arrived-at-peer", o.unreleased as u64);
                }
                if o.max_open == sc.limit {
                    rep.count("pool:limit-reached", 1);
                }
            }
            // signature: multiset of adjacent (previous plan → reused?) facts + limit class
            let mut facts: Vec<String> = vec![];
            for l in &o.per_conn {
                for (k, &i) in l.iter().enumerate() {
                    if i < sc.plans.len() {
                        facts.push(format!("{}>{}", plan_sig(&sc.plans[i]), if k + 1 < l.len() { "reused" } else { "last" }));
                    }
                }
            }
            facts.sort();
            facts.dedup();
            for f in &facts {
                rep.sig(&format!("pool|{}|{}", if sc.concurrent { "conc" } else { "seq" }, f));
            }
            for (class, sig, detail) in vs {
                let detail = format!("{detail}; limit {} {} scenario {:?}; connections {:?}", sc.limit, if sc.concurrent { "concurrent" } else { "sequential" }, sc.plans.iter().map(plan_sig).collect::<Vec<_>>(), o.per_conn);
                rep.violation(&class, &sig, &detail, replay.clone());
            }
        }
    }
}

fn random_plan(rng: &mut Rng, concurrent: bool) -> ReqPlan {
    const KINDS: [RKind; 16] = [
        RKind::Cl,
        RKind::Chunked,
        RKind::NoBody204,
        RKind::Head,
        RKind::ClConnClose,
        RKind::ChunkedConnClose,
        RKind::H10Cl,
        RKind::H10ClKeepAlive,
        RKind::Close10,
        RKind::TruncCl,
        RKind::TruncChunked,
        RKind::Interim103Cl,
        RKind::NoBody304,
        RKind::ExpectCl,
        RKind::ExpectTruncCl,
        RKind::ExpectTruncChunked,
    ];
    let kind = if rng.chance(1, 2) { *rng.pick(&[RKind::Cl, RKind::Chunked]) } else { *rng.pick(&KINDS) };
    let body_len = match rng.below(3) {
        0 => rng.range(8, 40),
        1 => rng.range(41, 3000),
        _ => rng.range(3001, 40_000),
    };
    let act = match rng.below(6) {
        0 => ClientAct::DropAtHead,
        1 => ClientAct::DropAfter(rng.range(1, 3)),
        _ => ClientAct::ReadAll,
    };
    let leftover = if !concurrent && kind.persistent() && kind.complete() && rng.chance(1, 4) { *rng.pick(&[Leftover::StaleResponse, Leftover::Garbage]) } else { Leftover::None };
    let after = if rng.chance(1, 6) { CloseKind::Eof } else { CloseKind::Stay };
    ReqPlan { kind, body_len, nseg: rng.range(1, 6), pace: rng.chance(1, 2), after, leftover, act }
}

// ------------------------------------------------------------------------------------------------
// workload
// ------------------------------------------------------------------------------------------------

fn seg_variants(len: usize, head_end: usize) -> Vec<(Vec<usize>, bool, &'static str)> {
    let mut v = vec![(vec![], false, "one-segment")];
    if len >= 2 {
        v.push(((1..len).collect(), true, "all-1-byte-paced"));
        v.push(((1..len).collect(), false, "all-1-byte-burst"));
    }
    if head_end > 0 && head_end < len {
        v.push((vec![head_end], true, "head|body-paced"));
    }
    v
}

pub fn run(ctx: &Ctx, rep: &mut Reporter) {
    if let Some(r) = &ctx.replay {
        match r["phase"].as_str() {
            Some("exchange") => {
                let t: Tpl = serde_json::from_value(r["tpl"].clone()).expect("replay tpl");
                let c: XCase = serde_json::from_value(r["case"].clone()).expect("replay case");
                eval_exchange(&t, &c, rep);
            }
            Some("pool") => {
                let sc: PoolScenario = serde_json::from_value(r["sc"].clone()).expect("replay scenario");
                eval_pool(&sc, rep);
            }
            _ => rep.inconclusive("replay file has no known phase"),
        }
        rep.sig("replay-a");
        rep.sig("replay-b");
        return;
    }
    let miri = ctx.is_miri();
    // debugging aid: C17_PHASES=AD runs only those phases
    let phases = std::env::var("C17_PHASES").unwrap_or_else(|_| "ABCDE".into());

    // ---- Phase A: close at every byte offset of every short template
    let corpus = short_corpus();
    let mut idx = 0u64;
    let mut complete = true;
    for t in &corpus {
        if !self_check(t, rep) || !phases.contains('A') {
            continue;
        }
        let len = t.wire().len();
        for cut_at in 0..=len {
            for close in [CloseKind::Eof, CloseKind::Reset, CloseKind::Stay] {
                // Stay (peer silent, client must time out) only at a few offsets per region
                if close == CloseKind::Stay && !(cut_at == len || cut_at % 7 == 3) {
                    continue;
                }
                for (cuts, pace, seg_class) in seg_variants(cut_at, t.final_head_end) {
                    idx += 1;
                    if !ctx.mine(idx) || (miri && idx % 97 != 0) {
                        continue;
                    }
                    if ctx.out_of_time() {
                        complete = false;
                        continue;
                    }
                    eval_exchange(t, &XCase { cut_at, close, cuts, pace, seg_class: seg_class.into(), req_body_len: rbl(t, idx) }, rep);
                }
            }
        }
    }
    rep.exhaustive("close (EOF and reset) at every byte offset of every short template under 4 segmentations", complete && !miri);
    rep.max("short_templates", corpus.len() as u64);
    rep.sample("template", json!({"name": corpus[7].name, "wire": crate::util::esc(&corpus[7].wire()), "final_head_end": corpus[7].final_head_end, "body_done_at": corpus[7].body_done_at, "msg_end": corpus[7].msg_end}));

    // ---- Phase B: every single cut (thorough: every cut pair) of every complete short response
    let mut complete = true;
    for t in &corpus {
        if !phases.contains('B') {
            continue;
        }
        let len = t.wire().len();
        let close = if t.msg_end.is_some() { CloseKind::Stay } else { CloseKind::Eof };
        for a in 1..len {
            idx += 1;
            if ctx.mine(idx) && !miri {
                if ctx.out_of_time() {
                    complete = false;
                } else {
                    eval_exchange(t, &XCase { cut_at: len, close, cuts: vec![a], pace: a % 2 == 0, seg_class: format!("cut@{}", t.region(a).trim_start_matches('^')), req_body_len: rbl(t, idx) }, rep);
                }
            }
            if ctx.thorough() {
                for b in a + 1..len {
                    idx += 1;
                    if !ctx.mine(idx) || miri {
                        continue;
                    }
                    if ctx.out_of_time() {
                        complete = false;
                        continue;
                    }
                    eval_exchange(
                        t,
                        &XCase { cut_at: len, close, cuts: vec![a, b], pace: (a + b) % 2 == 0, seg_class: format!("cut@{}+{}", t.region(a).trim_start_matches('^'), t.region(b).trim_start_matches('^')), req_body_len: rbl(t, idx) },
                        rep,
                    );
                }
            }
        }
    }
    rep.exhaustive(if ctx.thorough() { "all single cuts and cut pairs of every complete short response" } else { "all single cuts of every complete short response" }, complete && !miri);

    // ---- Phase D: sequential request sequences on one authority (reuse discipline)
    // D1: every ordered pair (first plan kind × after × leftover × client action) followed by a plain request
    let kinds = [
        RKind::Cl,
        RKind::Chunked,
        RKind::NoBody204,
        RKind::Head,
        RKind::ClConnClose,
        RKind::ChunkedConnClose,
        RKind::H10Cl,
        RKind::H10ClKeepAlive,
        RKind::Close10,
        RKind::TruncCl,
        RKind::TruncChunked,
        RKind::Interim103Cl,
        RKind::NoBody304,
        RKind::ExpectCl,
        RKind::ExpectTruncCl,
        RKind::ExpectTruncChunked,
    ];
    let mut complete = true;
    for kind in kinds {
        if !phases.contains('D') {
            continue;
        }
        for after in [CloseKind::Stay, CloseKind::Eof] {
            for leftover in [Leftover::None, Leftover::StaleResponse, Leftover::Garbage] {
                for act in [ClientAct::ReadAll, ClientAct::DropAtHead, ClientAct::DropAfter(1)] {
                    for (nseg, pace) in [(1, false), (4, true)] {
                        idx += 1;
                        if !ctx.mine(idx) || (miri && idx % 53 != 0) {
                            continue;
                        }
                        if ctx.out_of_time() {
                            complete = false;
                            continue;
                        }
                        let first = ReqPlan { kind, body_len: 600, nseg, pace, after, leftover, act };
                        let plain = ReqPlan { kind: RKind::Cl, body_len: 20, nseg: 1, pace: false, after: CloseKind::Stay, leftover: Leftover::None, act: ClientAct::ReadAll };
                        let sc = PoolScenario { limit: 1 + (idx % 2) as usize, concurrent: false, plans: vec![first, plain.clone(), plain], order_seed: 0 };
                        eval_pool(&sc, rep);
                    }
                }
            }
        }
    }
    rep.exhaustive("every (response kind × peer-after × leftover × client action × segmentation) followed by two plain requests", complete && !miri);
    // D1b: a reusable exchange (no-body status, HEAD, expect, plain) and then, on the SAME pooled
    // connection, a framed response that is cut short: it must be judged as strictly as on a fresh one
    let mut complete = true;
    for first_kind in [RKind::NoBody204, RKind::NoBody304, RKind::Head, RKind::ExpectCl, RKind::Cl, RKind::Chunked, RKind::H10ClKeepAlive] {
        if !phases.contains('D') {
            continue;
        }
        for cut_kind in [RKind::TruncCl, RKind::TruncChunked, RKind::ExpectTruncCl, RKind::ExpectTruncChunked] {
            for body_len in [9usize, 600, 20_000] {
                for (nseg, pace) in [(1, false), (4, true), (7, false)] {
                    for repeat_first in [false, true] {
                        idx += 1;
                        if !ctx.mine(idx) || (miri && idx % 53 != 0) {
                            continue;
                        }
                        if ctx.out_of_time() {
                            complete = false;
                            continue;
                        }
                        let first = ReqPlan { kind: first_kind, body_len: 300, nseg: 1, pace: false, after: CloseKind::Stay, leftover: Leftover::None, act: ClientAct::ReadAll };
                        let cut = ReqPlan { kind: cut_kind, body_len, nseg, pace, after: CloseKind::Eof, leftover: Leftover::None, act: ClientAct::ReadAll };
                        let plain = ReqPlan { kind: RKind::Cl, body_len: 20, nseg: 1, pace: false, after: CloseKind::Stay, leftover: Leftover::None, act: ClientAct::ReadAll };
                        let plans = if repeat_first { vec![first.clone(), first, cut, plain] } else { vec![first, cut, plain] };
                        eval_pool(&PoolScenario { limit: 1, concurrent: false, plans, order_seed: 0 }, rep);
                    }
                }
            }
        }
    }
    rep.exhaustive("every reusable first exchange × truncated framed response on the reused connection × body size × segmentation", complete && !miri);
    // ---- Phase C: random large responses, random close offset, random segmentation
    let nrand = if !phases.contains('C') { 0 } else if miri { 3 } else { ctx.share(40_000, 2_400_000) };
    let past = |pct: u64| ctx.start.elapsed().as_secs() * 100 >= ctx.budget_s * pct;
    for k in 0..nrand {
        if past(55) {
            rep.count("random-phase-cut-short-by-budget", 1);
            break;
        }
        let mut rng = Rng::derive(ctx.seed, 171, k * ctx.nshards + ctx.shard);
        let t = random_tpl(&mut rng);
        let len = t.wire().len();
        // aim half of the closes at structurally interesting offsets
        let cut_at = match rng.below(6) {
            0 => len,
            1 => rng.range(0, t.final_head_end),
            2 => {
                // just before / at a part boundary
                let mut off = 0;
                let mut bounds = vec![];
                for p in &t.parts {
                    off += p.bytes.len();
                    bounds.push(off);
                }
                let b = *rng.pick(&bounds);
                b.saturating_sub(rng.below(3)).min(len)
            }
            3 => len - rng.below(8.min(len)),
            _ => rng.range(0, len),
        };
        let close = match rng.below(8) {
            0 => CloseKind::Stay,
            1 | 2 => CloseKind::Reset,
            _ => CloseKind::Eof,
        };
        let (cuts, seg_class) = match rng.below(4) {
            0 => (vec![], "one-segment"),
            1 => (rng.cuts(cut_at, 4), "few-cuts"),
            2 => (rng.cuts(cut_at, 60), "many-cuts"),
            _ => {
                // MTU-like
                let m = rng.range(500, 1500);
                ((1..cut_at / m + 1).map(|i| i * m).filter(|&c| c < cut_at).collect(), "mtu")
            }
        };
        let pace = rng.chance(1, 2);
        let req_body_len = if t.expect { [1usize, 23, 5000, 40_000, 100_000][rng.below(5)] } else { 0 };
        eval_exchange(&t, &XCase { cut_at, close, cuts, pace, seg_class: seg_class.into(), req_body_len }, rep);
    }

    // D2: random sequences of 2–6 requests
    let nseq = if !phases.contains('D') { 0 } else if miri { 2 } else { ctx.share(16_000, 900_000) };
    for k in 0..nseq {
        if past(80) {
            rep.count("random-phase-cut-short-by-budget", 1);
            break;
        }
        let mut rng = Rng::derive(ctx.seed, 172, k * ctx.nshards + ctx.shard);
        let n = rng.range(2, 6);
        let plans = (0..n).map(|_| random_plan(&mut rng, false)).collect();
        eval_pool(&PoolScenario { limit: rng.range(1, 3), concurrent: false, plans, order_seed: 0 }, rep);
    }

    // ---- Phase E: concurrency 2–4× the limit against a gated peer
    let nconc = if !phases.contains('E') { 0 } else if miri { 2 } else { ctx.share(8_000, 450_000) };
    for k in 0..nconc {
        if past(100) {
            rep.count("random-phase-cut-short-by-budget", 1);
            break;
        }
        let mut rng = Rng::derive(ctx.seed, 173, k * ctx.nshards + ctx.shard);
        let limit = rng.range(1, 4);
        let n = limit * rng.range(2, 4) + rng.below(2);
        let plans = (0..n).map(|_| random_plan(&mut rng, true)).collect();
        eval_pool(&PoolScenario { limit, concurrent: true, plans, order_seed: rng.next() }, rep);
    }
}
