//! C17 — not built yet.
use crate::report::{Ctx, Reporter};

pub fn run(_ctx: &Ctx, rep: &mut Reporter) {
    rep.inconclusive("C17 monitor not built");
}
