//! C09 — App routing picks the first registered match and exposes exactly its parameters.
//!
//! Observation: a real `App` is built from a generated routing table (nested scopes, resources
//! with several routes, `.route()` sugar, real `Method` / `Header` / `Host` guards, default
//! services, per-level `app_data` of two marker types), initialised with
//! `actix_web::test::init_service`, and called with `call_service`.  Every route handler and every
//! custom default service answers with its identity, the complete `match_info` (names and values
//! in order) and the values of both `app_data` markers it can see.
//!
//! Oracle: `refmodel::route_tree` interprets the same table for the same request (first registered
//! match depth-first, segment-boundary prefixes, commit on scope / resource, guards, defaults,
//! parameters outer-to-inner from the partially percent-decoded path, innermost data).  The
//! answering service must be (one of) the expected one(s); when it is a handler or a custom
//! default, `match_info` and both markers must be equal to the model's.

use std::collections::HashSet;

use actix_web::{guard, http::Method, test, web, App, HttpRequest, HttpResponse, Resource, Route, Scope};
use serde_json::{json, Value};

use crate::{
    refmodel::{
        pct_decode,
        route_tree::{self as rt, Expected, Guard, Node, Req, Table, Who},
    },
    report::{guard as catch, panic_site, Ctx, Reporter},
    util::Rng,
    world::exec::run_virtual,
};

struct M0(u32);
struct M1(u32);

// ------------------------------------------------------------------------------------------------
// building the real application from a table

fn describe(req: &HttpRequest, kind: &'static str, id: u32) -> String {
    let mi: Vec<(String, String)> = req.match_info().iter().map(|(k, v)| (k.to_string(), v.to_string())).collect();
    let d0 = req.app_data::<M0>().map(|m| m.0);
    let d1 = req.app_data::<M1>().map(|m| m.0);
    json!({"k": kind, "id": id, "mi": mi, "d": [d0, d1]}).to_string()
}

fn static_hdr(n: &str, v: &str) -> (&'static str, &'static str) {
    let n: &'static str = match n {
        "x-k" => "x-k",
        _ => "x-other",
    };
    let v: &'static str = match v {
        "1" => "1",
        "2" => "2",
        _ => "other",
    };
    (n, v)
}

fn mk_route(r: &rt::Route, kind: &'static str) -> Route {
    let mut route = web::route();
    for g in &r.guards {
        route = match g {
            Guard::Method(m) => route.method(Method::from_bytes(m.as_bytes()).unwrap()),
            Guard::Header(n, v) => {
                let (n, v) = static_hdr(n, v);
                route.guard(guard::Header(n, v))
            }
            Guard::Host(h) => route.guard(guard::Host(h.clone())),
        };
    }
    let id = r.id;
    route.to(move |req: HttpRequest| {
        let body = describe(&req, kind, id);
        async move { HttpResponse::Ok().body(body) }
    })
}

fn mk_default(id: u32) -> Route {
    mk_route(&rt::Route { id, guards: vec![] }, "d")
}

fn mk_resource(patterns: &[String], guards: &[Guard], routes: &[rt::Route], default: Option<u32>, data: &[Option<u32>; 2]) -> Resource {
    let mut r = if patterns.len() == 1 { web::resource(patterns[0].as_str()) } else { web::resource(patterns.to_vec()) };
    for g in guards {
        r = match g {
            Guard::Method(m) => r.guard(guard::Method(Method::from_bytes(m.as_bytes()).unwrap())),
            Guard::Header(n, v) => {
                let (n, v) = static_hdr(n, v);
                r.guard(guard::Header(n, v))
            }
            Guard::Host(h) => r.guard(guard::Host(h.clone())),
        };
    }
    for route in routes {
        r = r.route(mk_route(route, "h"));
    }
    if let Some(d) = default {
        r = r.default_service(mk_default(d));
    }
    if let Some(v) = data[0] {
        r = r.app_data(M0(v));
    }
    if let Some(v) = data[1] {
        r = r.app_data(M1(v));
    }
    r
}

fn mk_scope(prefix: &str, guards: &[Guard], children: &[Node], default: Option<u32>, data: &[Option<u32>; 2]) -> Scope {
    let mut s = web::scope(prefix);
    for g in guards {
        s = match g {
            Guard::Method(m) => s.guard(guard::Method(Method::from_bytes(m.as_bytes()).unwrap())),
            Guard::Header(n, v) => {
                let (n, v) = static_hdr(n, v);
                s.guard(guard::Header(n, v))
            }
            Guard::Host(h) => s.guard(guard::Host(h.clone())),
        };
    }
    for c in children {
        s = match c {
            Node::Resource { patterns, guards, routes, default, data, .. } => s.service(mk_resource(patterns, guards, routes, *default, data)),
            Node::Sugar { path, route } => s.route(path, mk_route(route, "h")),
            Node::Scope { prefix, guards, children, default, data, .. } => s.service(mk_scope(prefix, guards, children, *default, data)),
        };
    }
    if let Some(d) = default {
        s = s.default_service(mk_default(d));
    }
    if let Some(v) = data[0] {
        s = s.app_data(M0(v));
    }
    if let Some(v) = data[1] {
        s = s.app_data(M1(v));
    }
    s
}

#[derive(Clone, Debug, PartialEq, Eq)]
struct Obs {
    status: u16,
    /// "h" handler, "d" custom default; None for the built-in answers
    kind: Option<String>,
    id: u32,
    mi: Vec<(String, String)>,
    d: [Option<u32>; 2],
}

impl Obs {
    fn who(&self) -> Option<Who> {
        match (self.status, self.kind.as_deref()) {
            (200, Some("h")) => Some(Who::Route(self.id)),
            (200, Some("d")) => Some(Who::Default(self.id)),
            (404, None) => Some(Who::NotFound),
            (405, None) => Some(Who::MethodNotAllowed),
            _ => None,
        }
    }
}

fn uri_of(r: &Req) -> String {
    match &r.query {
        Some(q) => format!("{}?{}", r.path, q),
        None => r.path.clone(),
    }
}

/// Run the requests against the real application built from `table`.
fn exec(table: &Table, reqs: &[Req]) -> Result<Vec<Obs>, String> {
    let table = table.clone();
    let reqs = reqs.to_vec();
    catch(move || {
        run_virtual(async move {
            let mut app = App::new();
            for c in &table.children {
                app = match c {
                    Node::Resource { patterns, guards, routes, default, data, .. } => app.service(mk_resource(patterns, guards, routes, *default, data)),
                    Node::Sugar { path, route } => app.route(path, mk_route(route, "h")),
                    Node::Scope { prefix, guards, children, default, data, .. } => app.service(mk_scope(prefix, guards, children, *default, data)),
                };
            }
            if let Some(d) = table.default {
                app = app.default_service(mk_default(d));
            }
            if let Some(v) = table.data[0] {
                app = app.app_data(M0(v));
            }
            if let Some(v) = table.data[1] {
                app = app.app_data(M1(v));
            }
            let svc = test::init_service(app).await;
            let mut out = Vec::with_capacity(reqs.len());
            for r in &reqs {
                let mut tr = test::TestRequest::default().method(Method::from_bytes(r.method.as_bytes()).unwrap()).uri(&uri_of(r));
                if let Some((n, v)) = &r.header {
                    tr = tr.insert_header((n.as_str(), v.as_str()));
                }
                if let Some(h) = &r.host {
                    tr = tr.insert_header(("host", h.as_str()));
                }
                let resp = test::call_service(&svc, tr.to_request()).await;
                let status = resp.status().as_u16();
                let body = test::read_body(resp).await;
                let mut o = Obs { status, kind: None, id: 0, mi: vec![], d: [None, None] };
                if !body.is_empty() {
                    if let Ok(v) = serde_json::from_slice::<Value>(&body) {
                        o.kind = v["k"].as_str().map(|s| s.to_string());
                        o.id = v["id"].as_u64().unwrap_or(0) as u32;
                        o.mi = v["mi"]
                            .as_array()
                            .map(|a| a.iter().map(|p| (p[0].as_str().unwrap_or("").to_string(), p[1].as_str().unwrap_or("").to_string())).collect())
                            .unwrap_or_default();
                        o.d = [v["d"][0].as_u64().map(|x| x as u32), v["d"][1].as_u64().map(|x| x as u32)];
                    } else {
                        o.kind = Some("unparsable".into());
                    }
                }
                out.push(o);
            }
            out
        })
    })
}

// ------------------------------------------------------------------------------------------------
// rendering (details, signatures)

fn render_guards(gs: &[Guard]) -> String {
    if gs.is_empty() {
        return String::new();
    }
    let v: Vec<String> = gs
        .iter()
        .map(|g| match g {
            Guard::Method(m) => m.clone(),
            Guard::Header(n, v) => format!("{n}={v}"),
            Guard::Host(h) => format!("host={h}"),
        })
        .collect();
    format!("<{}>", v.join("&"))
}

fn render_extra(default: Option<u32>, data: &[Option<u32>; 2]) -> String {
    let mut s = String::new();
    if let Some(d) = default {
        s.push_str(&format!(" default=d{d}"));
    }
    if let Some(v) = data[0] {
        s.push_str(&format!(" M0={v}"));
    }
    if let Some(v) = data[1] {
        s.push_str(&format!(" M1={v}"));
    }
    s
}

fn render_nodes(ns: &[Node]) -> String {
    ns.iter()
        .map(|n| match n {
            Node::Resource { patterns, guards, routes, default, data, .. } => {
                let rs: Vec<String> = routes.iter().map(|r| format!("{}h{}", render_guards(&r.guards), r.id)).collect();
                format!("resource({:?}){}[{}]{}", patterns, render_guards(guards), rs.join(","), render_extra(*default, data))
            }
            Node::Sugar { path, route } => format!("route({:?}){}h{}", path, render_guards(&route.guards), route.id),
            Node::Scope { prefix, guards, children, default, data, .. } => {
                format!("scope({:?}){}{}{{{}}}", prefix, render_guards(guards), render_extra(*default, data), render_nodes(children))
            }
        })
        .collect::<Vec<_>>()
        .join("; ")
}

fn render_table(t: &Table) -> String {
    format!("app{}{{{}}}", render_extra(t.default, &t.data), render_nodes(&t.children))
}

fn render_req(r: &Req) -> String {
    let mut s = format!("{} {}", r.method, uri_of(r));
    if let Some((n, v)) = &r.header {
        s.push_str(&format!(" {n}:{v}"));
    }
    if let Some(h) = &r.host {
        s.push_str(&format!(" host:{h}"));
    }
    s
}

/// pattern kind for shapes: static / dynamic / custom class / tail, slash structure kept
fn pat_kind(p: &str) -> String {
    let mut s = String::new();
    let mut depth = 0;
    let mut lit = false;
    for c in p.chars() {
        match c {
            '{' => {
                depth += 1;
                if depth == 1 {
                    s.push('V');
                    lit = false;
                }
            }
            '}' => depth -= 1,
            ':' if depth == 1 => s.push('c'),
            '*' if depth == 0 => s.push('*'),
            '/' if depth == 0 => {
                s.push('/');
                lit = false;
            }
            _ if depth == 0 => {
                if !lit {
                    s.push('L');
                    lit = true;
                }
            }
            _ => {}
        }
    }
    s
}

fn shape_nodes(ns: &[Node]) -> String {
    ns.iter()
        .map(|n| match n {
            Node::Resource { patterns, guards, routes, default, data, .. } => format!(
                "R({}){}{}{}{}",
                patterns.iter().map(|p| pat_kind(p)).collect::<Vec<_>>().join("|"),
                if guards.is_empty() { "" } else { "g" },
                routes.iter().map(|r| if r.guards.is_empty() { "r" } else { "rg" }).collect::<String>(),
                if default.is_some() { "d" } else { "" },
                if data.iter().any(|d| d.is_some()) { "m" } else { "" }
            ),
            Node::Sugar { path, route } => format!("S({}){}", pat_kind(path), if route.guards.is_empty() { "" } else { "g" }),
            Node::Scope { prefix, guards, children, default, data, .. } => format!(
                "C({}){}{}{}[{}]",
                pat_kind(prefix),
                if guards.is_empty() { "" } else { "g" },
                if default.is_some() { "d" } else { "" },
                if data.iter().any(|d| d.is_some()) { "m" } else { "" },
                shape_nodes(children)
            ),
        })
        .collect::<Vec<_>>()
        .join(",")
}

fn shape(t: &Table) -> String {
    format!("A{}[{}]", if t.default.is_some() { "d" } else { "" }, shape_nodes(&t.children))
}

// ------------------------------------------------------------------------------------------------
// table generation

const SCOPE_PREFIXES: [&str; 20] = [
    "/{x}.a", "/a.b", "", "/", "/a", "a", "/a/", "/b", "/ab", "/a/b", "/{x}", "/{x}/", r"/{x:\d+}", "/{x:[a-z]+}", "/a/{x}", "{x}", "/{x:[^/]*}", "//", "/a{x}", "/{x}/{w}",
];
const RES_PATTERNS: [&str; 32] = [
    "/{y}.a", "/a.b", "/{y}/a.b", "/{y}.{z}", "", "/", "/a", "a", "/a/", "/b", "/ab", "/a/b", "/1", "/{y}", "/{y}/", r"/{y:\d+}", "/{y:[a-z]+}", "/{y}/{z}", "/a/{y}", "/{x}", "/a{y}", "/{y:[^/]*}", "/{t}*",
    "/a/{t}*", "{t}*", "/{y:.*}", "//", "/{y}/a", "/b/{y}", "{y}", "/{y:.+}/{z}", "/{y:a|ab}b",
];
const METHODS: [&str; 3] = ["GET", "POST", "DELETE"];

struct Gen<'a> {
    rng: &'a mut Rng,
    next_id: u32,
    budget: usize,
}

impl Gen<'_> {
    fn id(&mut self) -> u32 {
        self.next_id += 1;
        self.next_id
    }
    fn guard(&mut self) -> Guard {
        match self.rng.below(6) {
            0..=2 => Guard::Method(self.rng.pick(&METHODS).to_string()),
            3 => Guard::Header("x-k".into(), "1".into()),
            4 => Guard::Header("x-k".into(), "2".into()),
            _ => Guard::Host(self.rng.pick(&["h1.test", "h2.test"]).to_string()),
        }
    }
    fn guards(&mut self, p_num: usize, p_den: usize) -> Vec<Guard> {
        if !self.rng.chance(p_num, p_den) {
            return vec![];
        }
        let n = if self.rng.chance(1, 4) { 2 } else { 1 };
        (0..n).map(|_| self.guard()).collect()
    }
    fn data(&mut self, p_num: usize, p_den: usize) -> [Option<u32>; 2] {
        let mut d = [None, None];
        for slot in d.iter_mut() {
            if self.rng.chance(p_num, p_den) {
                *slot = Some(self.id());
            }
        }
        d
    }
    fn route(&mut self) -> rt::Route {
        let guards = match self.rng.below(8) {
            0..=3 => vec![Guard::Method(self.rng.pick(&METHODS).to_string())],
            4 => vec![],
            5 => vec![self.guard()],
            6 => vec![Guard::Method(self.rng.pick(&METHODS).to_string()), self.guard()],
            _ => vec![Guard::Header("x-k".into(), "1".into())],
        };
        rt::Route { id: self.id(), guards }
    }
    fn resource(&mut self, last: Option<&str>) -> Node {
        let np = match self.rng.below(10) {
            0 => 3,
            1 | 2 => 2,
            _ => 1,
        };
        let mut patterns: Vec<String> = (0..np).map(|_| self.rng.pick(&RES_PATTERNS).to_string()).collect();
        // overlap with the previous sibling on purpose now and then
        if let Some(l) = last {
            if self.rng.chance(1, 4) {
                patterns[0] = l.to_string();
            }
        }
        let nr = match self.rng.below(8) {
            0 => 0,
            1..=4 => 1,
            5 | 6 => 2,
            _ => 3,
        };
        Node::Resource {
            id: self.id(),
            patterns,
            guards: self.guards(1, 4),
            routes: (0..nr).map(|_| self.route()).collect(),
            default: if self.rng.chance(1, 5) { Some(self.id()) } else { None },
            data: self.data(1, 4),
        }
    }
    fn nodes(&mut self, depth: usize) -> Vec<Node> {
        let n = self.rng.range(if depth == 0 { 1 } else { 0 }, 4);
        let mut out: Vec<Node> = vec![];
        let mut last: Option<String> = None;
        for _ in 0..n {
            if self.budget == 0 {
                break;
            }
            self.budget -= 1;
            let k = self.rng.below(10);
            let node = if k < 3 && depth < 2 {
                let mut prefix = self.rng.pick(&SCOPE_PREFIXES).to_string();
                if let Some(l) = &last {
                    // a prefix that is also a resource
                    if self.rng.chance(1, 3) && !l.contains('*') {
                        prefix = l.clone();
                    }
                }
                let id = self.id();
                let guards = self.guards(1, 4);
                let default = if self.rng.chance(1, 3) { Some(self.id()) } else { None };
                let data = self.data(1, 3);
                let children = self.nodes(depth + 1);
                last = Some(prefix.clone());
                Node::Scope { id, prefix, guards, children, default, data }
            } else if k < 5 {
                let mut path = self.rng.pick(&RES_PATTERNS).to_string();
                if let Some(l) = &last {
                    if self.rng.chance(1, 3) {
                        path = l.clone();
                    }
                }
                last = Some(path.clone());
                Node::Sugar { path, route: self.route() }
            } else {
                let r = self.resource(last.as_deref());
                if let Node::Resource { patterns, .. } = &r {
                    last = Some(patterns[0].clone());
                }
                r
            };
            out.push(node);
        }
        out
    }
}

fn gen_table(rng: &mut Rng) -> Table {
    for _ in 0..50 {
        let mut g = Gen { rng, next_id: 0, budget: 8 };
        let default = if g.rng.chance(1, 3) { Some(g.id()) } else { None };
        let data = g.data(1, 2);
        let children = g.nodes(0);
        let t = Table { children, default, data };
        if rt::well_formed(&t) {
            return t;
        }
    }
    Table { children: vec![], default: None, data: [None, None] }
}

/// Hand-written tables, one per rule of DESIGN.md A.1 (run with the deeper path enumeration).
fn fixed_tables() -> Vec<Table> {
    let r = |id: u32, gs: Vec<Guard>| rt::Route { id, guards: gs };
    let get = || vec![Guard::Method("GET".into())];
    let del = || vec![Guard::Method("DELETE".into())];
    let res = |id: u32, p: &[&str], routes: Vec<rt::Route>| Node::Resource {
        id,
        patterns: p.iter().map(|s| s.to_string()).collect(),
        guards: vec![],
        routes,
        default: None,
        data: [None, None],
    };
    let scope = |id: u32, p: &str, children: Vec<Node>, default: Option<u32>, data: [Option<u32>; 2]| Node::Scope { id, prefix: p.into(), guards: vec![], children, default, data };
    vec![
        // trailing-slash prefix, empty and "/" resources inside a scope
        Table {
            children: vec![
                scope(1, "/a/", vec![res(2, &["/b"], vec![r(3, vec![])]), res(4, &[""], vec![r(5, vec![])])], None, [None, None]),
                scope(6, "/a", vec![res(7, &[""], vec![r(8, vec![])]), res(9, &["/"], vec![r(10, vec![])]), res(11, &["/b"], vec![r(12, get())])], None, [Some(13), None]),
            ],
            default: None,
            data: [Some(14), Some(15)],
        },
        // scope("") commits and hides later siblings
        Table {
            children: vec![scope(1, "", vec![res(2, &["/a"], vec![r(3, vec![])])], None, [None, None]), res(4, &["/b"], vec![r(5, vec![])])],
            default: Some(6),
            data: [None, None],
        },
        // sugar routes hoist guards (fall through to 404) vs one resource with two routes (405)
        Table {
            children: vec![
                Node::Sugar { path: "/a".into(), route: r(1, get()) },
                Node::Sugar { path: "/a".into(), route: r(2, del()) },
                res(3, &["/b"], vec![r(4, get()), r(5, del())]),
            ],
            default: None,
            data: [None, None],
        },
        // a prefix that is also a resource, both orders
        Table {
            children: vec![
                res(1, &["/a"], vec![r(2, vec![])]),
                scope(3, "/a", vec![res(4, &["/{y}"], vec![r(5, vec![])])], Some(6), [None, None]),
                scope(7, "/b", vec![res(8, &["/{y}"], vec![r(9, vec![])])], None, [None, None]),
                res(10, &["/b"], vec![r(11, vec![])]),
            ],
            default: None,
            data: [None, None],
        },
        // nested default-less scope inside a scope with a custom default; data shadowing
        Table {
            children: vec![scope(
                1,
                "/a",
                vec![scope(2, "/b", vec![res(3, &["/1"], vec![r(4, vec![])])], None, [None, Some(5)]), res(6, &["/{y}"], vec![r(7, get())])],
                Some(8),
                [Some(9), Some(10)],
            )],
            default: Some(11),
            data: [Some(12), None],
        },
        // dynamic prefixes, same name on scope and resource, tail, multi-pattern, regex
        Table {
            children: vec![
                scope(1, "/{x}", vec![res(2, &["/{x}"], vec![r(3, vec![])]), res(4, &[r"/{y:\d+}/{t}*"], vec![r(5, vec![])])], None, [None, None]),
                res(6, &[r"/{y:\d+}", "/{z}"], vec![r(7, vec![])]),
            ],
            default: None,
            data: [None, None],
        },
        // literal text with a regex metacharacter in every literal position: static list member,
        // after the last dynamic segment, between two dynamic segments, in a dynamic scope prefix
        Table {
            children: vec![
                res(1, &["/a.b", "/{y}/a.b"], vec![r(2, vec![])]),
                scope(3, "/{x}.1", vec![res(4, &["/{y}.a"], vec![r(5, vec![])]), res(6, &["/a.{y}"], vec![r(7, vec![])])], Some(8), [None, None]),
                res(9, &["/{y}.{z}"], vec![r(10, get())]),
            ],
            default: None,
            data: [None, None],
        },
        // a resource-level guard rejecting the first of two overlapping patterns
        Table {
            children: vec![
                Node::Resource { id: 1, patterns: vec!["/{y}".into()], guards: vec![Guard::Header("x-k".into(), "1".into())], routes: vec![r(2, vec![])], default: None, data: [None, None] },
                Node::Resource { id: 3, patterns: vec!["/{z}".into()], guards: vec![], routes: vec![r(4, get())], default: Some(5), data: [Some(6), None] },
                Node::Scope { id: 7, prefix: "/a".into(), guards: vec![Guard::Host("h1.test".into())], children: vec![res(8, &["/b"], vec![r(9, vec![])])], default: None, data: [None, None] },
                scope(10, "/a", vec![res(11, &["/b"], vec![r(12, vec![])])], None, [None, None]),
            ],
            default: None,
            data: [None, None],
        },
    ]
}

// ------------------------------------------------------------------------------------------------
// requests

const TOKENS: [&str; 10] = ["/", "a", "b", "1", "%41", "%61", "%2F", "%25", "//", "."];

/// all paths "/" + up to `n` tokens
fn all_paths(n: usize) -> Vec<String> {
    let mut out = vec!["/".to_string()];
    let mut start = 0;
    for _ in 0..n {
        let end = out.len();
        for i in start..end {
            for t in TOKENS {
                out.push(format!("{}{}", out[i], t));
            }
        }
        start = end;
    }
    out
}

const PROFILES: [(&str, Option<(&str, &str)>, Option<&str>); 6] = [
    ("GET", None, None),
    ("POST", None, None),
    ("GET", Some(("x-k", "1")), None),
    ("DELETE", None, Some("h1.test")),
    ("GET", Some(("x-k", "2")), Some("h1.test")),
    ("POST", Some(("x-k", "1")), Some("h2.test")),
];

fn req_of(path: &str, prof: usize) -> Req {
    let (m, h, host) = PROFILES[prof % PROFILES.len()];
    Req { method: m.into(), path: path.into(), query: None, header: h.map(|(a, b)| (a.to_string(), b.to_string())), host: host.map(|s| s.to_string()) }
}

const RAND_TOKENS: [&str; 21] = [".", ".a", "X", "/", "/", "a", "b", "ab", "1", "12", "%41", "%61", "%2F", "%2f", "%25", "%2B", "%C3%A9", "%FF", "//", "-", "%2"];

fn random_req(rng: &mut Rng) -> Req {
    let n = rng.range(0, 8);
    let mut path = String::from("/");
    for _ in 0..n {
        path.push_str(*rng.pick(&RAND_TOKENS));
    }
    let mut r = req_of(&path, rng.below(PROFILES.len()));
    if rng.chance(1, 6) {
        r.method = rng.pick(&["PUT", "HEAD", "PATCH"]).to_string();
    }
    if rng.chance(1, 8) {
        r.query = Some(rng.pick(&["q=1", "x=/a/b", "a%2Fb", ""]).to_string());
    }
    r
}

// ------------------------------------------------------------------------------------------------
// comparison

struct Mismatch {
    class: &'static str,
    detail: String,
}

fn compare(exp: &Expected, obs: &Obs) -> Result<(), Mismatch> {
    let who = match obs.who() {
        Some(w) => w,
        None => return Err(Mismatch { class: "wrong-service", detail: format!("unexpected answer status={} kind={:?}", obs.status, obs.kind) }),
    };
    if !exp.who.contains(&who) {
        return Err(Mismatch { class: "wrong-service", detail: format!("answered by {:?}, expected {:?} (decision path {})", who, exp.who, exp.trace) });
    }
    if matches!(who, Who::Route(_) | Who::Default(_)) {
        if obs.mi != exp.params {
            return Err(Mismatch { class: "match-info", detail: format!("{:?} saw match_info {:?}, expected {:?}", who, obs.mi, exp.params) });
        }
        if obs.d != exp.data {
            return Err(Mismatch { class: "app-data", detail: format!("{:?} saw app_data markers {:?}, expected {:?}", who, obs.d, exp.data) });
        }
    }
    Ok(())
}

fn who_kind(w: &Who) -> &'static str {
    match w {
        Who::Route(_) => "route",
        Who::Default(_) => "custom-default",
        Who::NotFound => "404",
        Who::MethodNotAllowed => "405",
    }
}

/// Evaluate one table on a batch of requests.  Returns the number of cases evaluated.
fn run_table(rep: &mut Reporter, table: &Table, reqs: &[Req], sigs: &mut HashSet<String>) -> u64 {
    let obs = match exec(table, reqs) {
        Ok(o) => o,
        Err(p) => {
            // find the request that panics (or the build itself)
            let mut culprit: Option<&Req> = None;
            if exec(table, &[]).is_ok() {
                for r in reqs {
                    if exec(table, std::slice::from_ref(r)).is_err() {
                        culprit = Some(r);
                        break;
                    }
                }
            }
            let t = shrink(table, culprit, "panic");
            rep.violation(
                "panic",
                &format!("{} | {} | {}", panic_site(&p), render_table(&t), culprit.map(render_req).unwrap_or_else(|| "init_service".into())),
                &format!("panic: {p}\n table: {}\n request: {:?}", render_table(&t), culprit.map(render_req)),
                json!({"table": t, "req": culprit}),
            );
            return 0;
        }
    };
    let tshape = shape(table);
    let mut n = 0;
    let mut reported = false;
    for (r, o) in reqs.iter().zip(obs.iter()) {
        let exp = match rt::route(table, r) {
            Some(e) => e,
            None => {
                rep.inconclusive("generated a table outside the modelled grammar");
                return n;
            }
        };
        n += 1;
        match compare(&exp, o) {
            Ok(()) => {
                let w = o.who().unwrap();
                rep.count(&format!("answered-by:{}", who_kind(&w)), 1);
                if exp.guard_rejected {
                    rep.count("cases:some-guard-rejected-a-matching-pattern", 1);
                }
                if exp.trace.contains("!scope-default") {
                    rep.count("cases:scope-default-reached", 1);
                }
                if exp.latitude {
                    rep.count(if w == exp.who[0] { "latitude:default-less-nested-scope-used-app-default" } else { "latitude:default-less-nested-scope-used-enclosing-scope-default" }, 1);
                }
                if !exp.params.is_empty() {
                    rep.count("cases:handler-saw-parameters", 1);
                    if exp.params.iter().any(|(_, v)| v.contains('%')) {
                        rep.count("cases:parameter-keeps-protected-escape", 1);
                    }
                }
                if r.path.contains('%') && pct_decode::path_view(&r.path) != r.path {
                    rep.count("cases:path-changed-by-decoding", 1);
                }
                if exp.data.iter().any(|d| d.is_some()) && matches!(w, Who::Route(_) | Who::Default(_)) {
                    rep.count("cases:app-data-visible", 1);
                }
                let s = format!("{}|{}|{}", tshape, exp.trace, who_kind(&w));
                if !sigs.contains(&s) {
                    rep.sig(&s);
                    sigs.insert(s);
                }
            }
            Err(m) => {
                if reported {
                    rep.count(&format!("violations:{}", m.class), 1);
                    continue;
                }
                reported = true;
                let t = shrink(table, Some(r), m.class);
                // re-evaluate on the shrunk table for the detail text
                let detail = match (rt::route(&t, r), exec(&t, std::slice::from_ref(r))) {
                    (Some(e), Ok(o)) if !o.is_empty() => compare(&e, &o[0]).err().map(|m| m.detail).unwrap_or(m.detail),
                    _ => m.detail,
                };
                rep.violation(
                    m.class,
                    &format!("{} | {}", render_table(&t), render_req(r)),
                    &format!("{}\n table: {}\n request: {}\n routing view of the path: {:?}", detail, render_table(&t), render_req(r), pct_decode::path_view(&r.path)),
                    json!({"table": t, "req": r}),
                );
            }
        }
    }
    n
}

// ------------------------------------------------------------------------------------------------
// shrinking

fn node_variants(n: &Node) -> Vec<Node> {
    let mut out = vec![];
    match n {
        Node::Resource { id, patterns, guards, routes, default, data } => {
            let mk = |patterns: Vec<String>, guards: Vec<Guard>, routes: Vec<rt::Route>, default: Option<u32>, data: [Option<u32>; 2]| Node::Resource { id: *id, patterns, guards, routes, default, data };
            if !guards.is_empty() {
                out.push(mk(patterns.clone(), vec![], routes.clone(), *default, *data));
            }
            if patterns.len() > 1 {
                for i in 0..patterns.len() {
                    let mut p = patterns.clone();
                    p.remove(i);
                    out.push(mk(p, guards.clone(), routes.clone(), *default, *data));
                }
            }
            for i in 0..routes.len() {
                let mut r = routes.clone();
                r.remove(i);
                out.push(mk(patterns.clone(), guards.clone(), r, *default, *data));
                if !routes[i].guards.is_empty() {
                    let mut r = routes.clone();
                    r[i].guards.clear();
                    out.push(mk(patterns.clone(), guards.clone(), r, *default, *data));
                }
            }
            if default.is_some() {
                out.push(mk(patterns.clone(), guards.clone(), routes.clone(), None, *data));
            }
            if data.iter().any(|d| d.is_some()) {
                out.push(mk(patterns.clone(), guards.clone(), routes.clone(), *default, [None, None]));
            }
        }
        Node::Sugar { path, route } => {
            if !route.guards.is_empty() {
                out.push(Node::Sugar { path: path.clone(), route: rt::Route { id: route.id, guards: vec![] } });
            }
        }
        Node::Scope { id, prefix, guards, children, default, data } => {
            let mk = |guards: Vec<Guard>, children: Vec<Node>, default: Option<u32>, data: [Option<u32>; 2]| Node::Scope { id: *id, prefix: prefix.clone(), guards, children, default, data };
            if !guards.is_empty() {
                out.push(mk(vec![], children.clone(), *default, *data));
            }
            if default.is_some() {
                out.push(mk(guards.clone(), children.clone(), None, *data));
            }
            if data.iter().any(|d| d.is_some()) {
                out.push(mk(guards.clone(), children.clone(), *default, [None, None]));
            }
            for c in list_variants(children) {
                out.push(mk(guards.clone(), c, *default, *data));
            }
        }
    }
    out
}

fn list_variants(ns: &[Node]) -> Vec<Vec<Node>> {
    let mut out = vec![];
    for i in 0..ns.len() {
        let mut v = ns.to_vec();
        v.remove(i);
        out.push(v);
    }
    for i in 0..ns.len() {
        for nv in node_variants(&ns[i]) {
            let mut v = ns.to_vec();
            v[i] = nv;
            out.push(v);
        }
    }
    out
}

fn still_fails(t: &Table, req: Option<&Req>, class: &str) -> bool {
    let reqs: Vec<Req> = req.cloned().into_iter().collect();
    match exec(t, &reqs) {
        Err(_) => class == "panic",
        Ok(obs) => match (req, obs.first()) {
            (Some(r), Some(o)) => match rt::route(t, r) {
                Some(e) => compare(&e, o).err().map(|m| m.class == class).unwrap_or(false),
                None => false,
            },
            _ => false,
        },
    }
}

/// Greedy one-step-at-a-time reduction of the table that keeps the same violation class.
fn shrink(table: &Table, req: Option<&Req>, class: &str) -> Table {
    let mut cur = table.clone();
    let mut budget = 300;
    'again: loop {
        let mut cands: Vec<Table> = list_variants(&cur.children).into_iter().map(|c| Table { children: c, default: cur.default, data: cur.data }).collect();
        if cur.default.is_some() {
            cands.push(Table { children: cur.children.clone(), default: None, data: cur.data });
        }
        if cur.data.iter().any(|d| d.is_some()) {
            cands.push(Table { children: cur.children.clone(), default: cur.default, data: [None, None] });
        }
        for c in cands {
            if budget == 0 {
                break 'again;
            }
            budget -= 1;
            if still_fails(&c, req, class) {
                cur = c;
                continue 'again;
            }
        }
        break;
    }
    cur
}

// ------------------------------------------------------------------------------------------------

pub fn run(ctx: &Ctx, rep: &mut Reporter) {
    let mut sigs: HashSet<String> = HashSet::new();

    if let Some(rp) = &ctx.replay {
        rep.sig("replay");
        rep.sig("replay2");
        let table: Option<Table> = serde_json::from_value(rp["table"].clone()).ok();
        let req: Option<Req> = serde_json::from_value(rp["req"].clone()).ok();
        match table {
            Some(t) => {
                let reqs: Vec<Req> = req.into_iter().collect();
                let n = run_table(rep, &t, &reqs, &mut sigs);
                rep.count("evaluations", n.max(1));
            }
            None => rep.inconclusive("replay file has no table"),
        }
        return;
    }

    let thorough = ctx.thorough();
    let deep = all_paths(if thorough { 5 } else { 4 });
    let short = all_paths(3);

    // Phase 1: hand-written tables, every path of the deep enumeration under every profile
    let mut complete = true;
    for (ti, t) in fixed_tables().iter().enumerate() {
        if !rt::well_formed(t) {
            rep.inconclusive("a hand-written table is outside the grammar");
            continue;
        }
        let mut reqs = vec![];
        let mut k = 0u64;
        for p in &deep {
            for prof in 0..PROFILES.len() {
                k += 1;
                if ctx.mine(k + ti as u64) {
                    reqs.push(req_of(p, prof));
                }
            }
        }
        if ctx.out_of_time() {
            complete = false;
            break;
        }
        let n = run_table(rep, t, &reqs, &mut sigs);
        rep.count("evaluations", n);
        rep.count("tables:hand-written", if ctx.shard == 0 { 1 } else { 0 });
    }
    rep.exhaustive("hand-written tables x all paths of '/'+<=4 (quick) / 5 (thorough) tokens x 6 request profiles", complete);

    // Phase 2: generated tables.  Each: all short paths under every profile, every deep path under
    // a rotating profile (quick: every 4th table, others a third of them), and random requests.
    // (the number of tables is a sample size, not a space: running out of time only lowers it)
    let ntables = ctx.share(2400, 20000);
    let small_complete = true;
    for k in 0..ntables {
        if ctx.out_of_time() {
            rep.count("tables:not-run-for-lack-of-time", ntables - k);
            break;
        }
        let case = k * ctx.nshards + ctx.shard;
        let mut rng = Rng::derive(ctx.seed, 0xC09, case);
        let table = gen_table(&mut rng);
        let mut reqs: Vec<Req> = vec![];
        for p in &short {
            for prof in 0..PROFILES.len() {
                reqs.push(req_of(p, prof));
            }
        }
        let full = k % 4 == 0;
        let off = rng.below(3);
        for (i, p) in deep.iter().enumerate() {
            if p.len() <= 2 {
                continue;
            }
            if full || i % 3 == off {
                reqs.push(req_of(p, i + k as usize));
            }
        }
        for _ in 0..200 {
            reqs.push(random_req(&mut rng));
        }
        // http::Uri must accept the target (TestRequest::uri panics otherwise)
        reqs.retain(|r| uri_of(r).parse::<actix_web::http::Uri>().is_ok());
        let n = run_table(rep, &table, &reqs, &mut sigs);
        rep.count("evaluations", n);
        rep.count("tables:generated", 1);
        if full {
            rep.count("tables:generated-with-full-deep-enumeration", 1);
        }
        rep.max("table:nodes", count_nodes(&table.children) as u64);
        rep.max("table:depth", depth(&table.children) as u64);
        if k < 2 && ctx.shard == 0 {
            let r = &reqs[reqs.len() - 1];
            rep.sample("table", json!({"table": render_table(&table), "request": render_req(r), "expected": rt::route(&table, r).map(|e| format!("{:?} params={:?} data={:?}", e.who, e.params, e.data))}));
        }
    }
    rep.exhaustive("generated tables x all paths of '/'+<=3 tokens x 6 request profiles", small_complete);
}

fn count_nodes(ns: &[Node]) -> usize {
    ns.iter().map(|n| 1 + if let Node::Scope { children, .. } = n { count_nodes(children) } else { 0 }).sum()
}

fn depth(ns: &[Node]) -> usize {
    ns.iter().map(|n| 1 + if let Node::Scope { children, .. } = n { depth(children) } else { 0 }).max().unwrap_or(0)
}
