//! C02 — HTTP/1 responses: one per request, in order, self-framed, body-faithful.
//!
//! Obs: the bytes the server wrote, parsed by the reference response parser (told the request
//! methods); what every handler's body script actually yielded.
//! Oracles: exactly-once / in-order (`x-req-idx`), self-delimiting stream, framing rules,
//! body fidelity against the script, and the metamorphic *context independence*: response i inside
//! any pipeline and schedule equals the response to request i sent alone.

use std::collections::HashMap;

use serde_json::{json, Value};

use crate::{
    refmodel::h1_resp::{self, RefResp, RespFraming},
    report::{guard, panic_site, Ctx, Reporter},
    util::{esc_short, fnv, Rng},
    world::{
        conn::ConnCfg,
        run::{run_scenario, Act, Outcome, Scenario},
        svc::{fill_data, BStep, BodyKind, Conn, Prog, ReadMode, ReqRec, RespEnd},
    },
};

#[derive(Clone, Debug, PartialEq)]
pub struct ReqSpec {
    pub method: &'static str,
    pub v10: bool,
    /// 0 no Connection header, 1 close, 2 keep-alive
    pub conn: u8,
    pub expect: bool,
    pub body: usize,
    pub chunked: bool,
}

impl ReqSpec {
    pub fn get() -> Self {
        ReqSpec { method: "GET", v10: false, conn: 0, expect: false, body: 0, chunked: false }
    }
    pub fn bytes(&self, i: usize) -> Vec<u8> {
        let mut s = format!("{} /r{} HTTP/1.{}\r\nHost: t\r\n", self.method, i, if self.v10 { 0 } else { 1 });
        match self.conn {
            1 => s.push_str("Connection: close\r\n"),
            2 => s.push_str("Connection: keep-alive\r\n"),
            _ => {}
        }
        let body = fill_data(self.body, (i * 7) as u8);
        let has_body = self.method == "POST";
        if has_body {
            if self.chunked {
                s.push_str("Transfer-Encoding: chunked\r\n");
            } else {
                s.push_str(&format!("Content-Length: {}\r\n", body.len()));
            }
            if self.expect {
                s.push_str("Expect: 100-continue\r\n");
            }
        }
        s.push_str("\r\n");
        let mut v = s.into_bytes();
        if has_body {
            if self.chunked {
                let mut p = 0;
                while p < body.len() {
                    let n = (body.len() - p).min(1 + (p * 31 + 7) % 4000);
                    v.extend_from_slice(format!("{:x}\r\n", n).as_bytes());
                    v.extend_from_slice(&body[p..p + n]);
                    v.extend_from_slice(b"\r\n");
                    p += n;
                }
                v.extend_from_slice(b"0\r\n\r\n");
            } else {
                v.extend_from_slice(&body);
            }
        }
        v
    }
    /// the request itself asks for (or implies) the connection to end after its response
    pub fn wants_close(&self) -> bool {
        self.conn == 1 || (self.v10 && self.conn != 2)
    }
    fn to_json(&self) -> Value {
        json!({"method": self.method, "v10": self.v10, "conn": self.conn, "expect": self.expect, "body": self.body, "chunked": self.chunked})
    }
    fn from_json(v: &Value) -> Self {
        ReqSpec {
            method: match v["method"].as_str() {
                Some("HEAD") => "HEAD",
                Some("POST") => "POST",
                _ => "GET",
            },
            v10: v["v10"].as_bool().unwrap_or(false),
            conn: v["conn"].as_u64().unwrap_or(0) as u8,
            expect: v["expect"].as_bool().unwrap_or(false),
            body: v["body"].as_u64().unwrap_or(0) as usize,
            chunked: v["chunked"].as_bool().unwrap_or(false),
        }
    }
    fn tag(&self) -> String {
        format!("{}{}{}{}", &self.method[..1], if self.v10 { "0" } else { "1" }, ["", "c", "k"][self.conn as usize], if self.expect { "e" } else { "" })
    }
}

#[derive(Clone, Debug, PartialEq)]
pub enum Ev {
    Push(usize),
    Gate(usize),
    Credit(usize),
}

#[derive(Clone, Debug)]
pub struct Case {
    pub cfg: ConnCfg,
    pub reqs: Vec<ReqSpec>,
    pub progs: Vec<Prog>,
    pub order: Vec<Ev>,
    pub limited_credit: bool,
}

impl Case {
    fn scenario(&self) -> Scenario {
        let ngates = self.reqs.len() * 2;
        let mut sc = Scenario::new(self.cfg.clone(), self.progs.clone(), ngates);
        if self.limited_credit {
            sc.initial_credit = Some(0);
        }
        for e in &self.order {
            sc.acts.push(match e {
                Ev::Push(i) => Act::Push(self.reqs[*i].bytes(*i)),
                Ev::Gate(g) => Act::Gate(*g, 1),
                Ev::Credit(n) => Act::Credit(*n),
            });
        }
        sc.settle.push(Act::SetCredit(usize::MAX));
        for g in 0..ngates {
            sc.settle.push(Act::Gate(g, 1_000_000));
        }
        sc.settle.push(Act::Eof);
        sc
    }
    fn to_json(&self) -> Value {
        json!({
            "cfg": self.cfg.to_json(),
            "reqs": self.reqs.iter().map(|r| r.to_json()).collect::<Vec<_>>(),
            "progs": self.progs.iter().map(|p| p.to_json()).collect::<Vec<_>>(),
            "order": self.order.iter().map(|e| match e { Ev::Push(i) => json!({"push": i}), Ev::Gate(g) => json!({"gate": g}), Ev::Credit(n) => json!({"credit": n}) }).collect::<Vec<_>>(),
            "limited_credit": self.limited_credit,
        })
    }
    fn from_json(v: &Value) -> Case {
        Case {
            cfg: ConnCfg::from_json(&v["cfg"]),
            reqs: v["reqs"].as_array().map(|a| a.iter().map(ReqSpec::from_json).collect()).unwrap_or_default(),
            progs: v["progs"].as_array().map(|a| a.iter().map(Prog::from_json).collect()).unwrap_or_default(),
            order: v["order"]
                .as_array()
                .map(|a| {
                    a.iter()
                        .filter_map(|e| {
                            if let Some(i) = e["push"].as_u64() {
                                Some(Ev::Push(i as usize))
                            } else if let Some(g) = e["gate"].as_u64() {
                                Some(Ev::Gate(g as usize))
                            } else {
                                e["credit"].as_u64().map(|n| Ev::Credit(n as usize))
                            }
                        })
                        .collect()
                })
                .unwrap_or_default(),
            limited_credit: v["limited_credit"].as_bool().unwrap_or(false),
        }
    }
    fn shape(&self) -> String {
        // schedule shape: order of pushes / gate openings, with credit grants collapsed
        let mut s = String::new();
        let mut last_c = false;
        for e in &self.order {
            match e {
                Ev::Push(i) => {
                    s.push_str(&format!("P{i}"));
                    last_c = false;
                }
                Ev::Gate(g) => {
                    s.push_str(&format!("g{g}"));
                    last_c = false;
                }
                Ev::Credit(_) => {
                    if !last_c {
                        s.push('c');
                    }
                    last_c = true;
                }
            }
        }
        s
    }
}

fn kind_tag(p: &Prog) -> String {
    let k = match p.kind {
        BodyKind::None => "N",
        BodyKind::Bytes => "B",
        BodyKind::SizedStream(_) => "S",
        BodyKind::BodyStream => "T",
        BodyKind::CustomStream => "C",
        BodyKind::CustomSized(_) => "Z",
    };
    let total: usize = p.steps.iter().map(|s| if let BStep::Data(d) = s { d.len() } else { 0 }).sum();
    let declared = match p.kind {
        BodyKind::SizedStream(n) | BodyKind::CustomSized(n) => Some(n as usize),
        _ => None,
    };
    let rel = match declared {
        Some(d) if d > total => "short",
        Some(d) if d < total => "long",
        _ => "",
    };
    let empty = p.steps.iter().any(|s| matches!(s, BStep::Data(d) if d.is_empty()));
    let err = p.steps.iter().any(|s| matches!(s, BStep::Err));
    let big = p.steps.iter().any(|s| matches!(s, BStep::Data(d) if d.len() > 32_768));
    format!(
        "{k}{}{rel}{}{}{}{}{}{}",
        p.status,
        if empty { "+e" } else { "" },
        if err { "+x" } else { "" },
        if big { "+big" } else { "" },
        if p.no_chunking.is_some() { "+nc" } else { "" },
        if p.fail { "+fail" } else { "" },
        match p.conn {
            Conn::Default => "",
            Conn::Close => "+close",
            Conn::KeepAlive => "+ka",
        },
    )
}

fn bodiless(method: &str, status: u16) -> bool {
    method == "HEAD" || (100..200).contains(&status) || status == 204 || status == 304
}

/// (bytes the script yields before it ends or errors, does it end with an error, declared size)
fn script_facts(p: &Prog) -> (u64, bool, Option<u64>) {
    let mut total = 0u64;
    let mut err = false;
    for s in &p.steps {
        match s {
            BStep::Data(d) => total += d.len() as u64,
            BStep::Err => {
                err = true;
                break;
            }
            BStep::Wait(_) => {}
            BStep::Gen { len, times } => total += (*len * *times) as u64,
        }
    }
    let declared = match (&p.kind, p.no_chunking) {
        (BodyKind::SizedStream(n), _) | (BodyKind::CustomSized(n), _) => Some(*n),
        (BodyKind::BodyStream | BodyKind::CustomStream, Some(n)) => Some(n),
        _ => None,
    };
    (total, err, declared)
}

fn is_stream_kind(p: &Prog) -> bool {
    !matches!(p.kind, BodyKind::None | BodyKind::Bytes)
}

/// The body script errors or ends short of its declared size: terminating the connection (with the
/// response missing or cut short) is a legitimate outcome — also for HEAD / 204 / 304, whose body
/// is polled although it is not transmitted.
fn may_terminate(p: &Prog) -> bool {
    if !is_stream_kind(p) {
        return false;
    }
    let (total, err, declared) = script_facts(p);
    err || matches!(declared, Some(n) if total < n)
}

/// The transmitted body cannot be completed faithfully: a complete-looking message is a violation.
fn body_fails(p: &Prog, method: &str) -> bool {
    if !is_stream_kind(p) || bodiless(method, p.status) {
        return false;
    }
    let (total, err, declared) = script_facts(p);
    match declared {
        Some(n) => total < n,
        None => err,
    }
}

/// The body a conforming client must decode for a complete response.
fn expected_body(p: &Prog, rec: &ReqRec, method: &str) -> Vec<u8> {
    if bodiless(method, p.status) {
        return vec![];
    }
    let mut b = rec.resp_yielded.clone();
    let declared = match (&p.kind, p.no_chunking) {
        (BodyKind::SizedStream(n), _) | (BodyKind::CustomSized(n), _) => Some(*n as usize),
        (BodyKind::BodyStream | BodyKind::CustomStream, Some(n)) => Some(n as usize),
        _ => None,
    };
    if let Some(n) = declared {
        b.truncate(n);
    }
    b
}

struct Verdict {
    class: &'static str,
    sig: String,
    detail: String,
}

fn v(class: &'static str, sig: String, detail: String) -> Verdict {
    Verdict { class, sig, detail }
}

/// response head with the volatile / index-dependent header lines removed, plus the raw body bytes
fn normalised(out: &[u8], r: &RefResp) -> Vec<u8> {
    let head = &out[r.start..r.head_end];
    let mut n = Vec::with_capacity(r.end - r.start);
    for line in head.split_inclusive(|&b| b == b'\n') {
        let l = line.to_ascii_lowercase();
        if l.starts_with(b"date:") || l.starts_with(b"x-req-idx:") {
            continue;
        }
        n.extend_from_slice(line);
    }
    n.extend_from_slice(&out[r.head_end..r.end]);
    n
}

struct Judged {
    verdicts: Vec<Verdict>,
    /// normalised bytes of each complete, judged final response (by request index)
    complete: Vec<(usize, Vec<u8>)>,
    n_final: usize,
    n_interim: usize,
    n_incomplete_legit: usize,
    n_lost_to_termination: usize,
    n_bytes_after_close_delimited: usize,
    complete_close_delimited: usize,
    cut: Option<usize>,
}

fn judge(case: &Case, oc: &Outcome) -> Judged {
    let mut out = Judged { verdicts: vec![], complete: vec![], n_final: 0, n_interim: 0, n_incomplete_legit: 0, n_lost_to_termination: 0, n_bytes_after_close_delimited: 0, complete_close_delimited: 0, cut: None };
    let n = case.reqs.len();
    let sigbase = |i: usize| format!("{} {}", case.reqs[i].tag(), kind_tag(&case.progs[i]));
    if oc.livelock {
        out.verdicts.push(v("livelock", "poll-cap".into(), "connection kept waking itself beyond the poll cap".into()));
        return out;
    }
    // first request after which the connection legitimately ends (C03 judges what follows)
    let cut = (0..n).find(|&i| {
        case.reqs[i].wants_close() || case.cfg.keep_alive_s.is_none() || case.progs[i].conn == Conn::Close || may_terminate(&case.progs[i])
            // a close-delimited body ends the connection by definition
            || (case.reqs[i].v10 && matches!(case.progs[i].kind, BodyKind::BodyStream | BodyKind::CustomStream))
    });
    out.cut = cut;
    let last = cut.unwrap_or(n.saturating_sub(1));
    // A later response whose body failed terminates the connection at once; earlier responses
    // that were complete but still buffered (all handlers ready within one poll) are lost with it.
    // The statement allows termination on body failure and does not demand a flush first, so this
    // is tolerated and counted.
    let term_by = if matches!(oc.result, Some(Err(_))) { (0..n.min(oc.reqs.len())).filter(|&c| may_terminate(&case.progs[c])).max() } else { None };
    let methods: Vec<String> = case.reqs.iter().map(|r| r.method.to_string()).collect();
    let rp = h1_resp::parse_responses(&oc.out, &|i| methods.get(i).cloned(), true);

    let mut next_final = 0usize;
    let mut pending_interim = 0usize;
    let mut prev_final: Option<(usize, &RefResp)> = None;
    for r in &rp.resps {
        if r.is_interim() {
            out.n_interim += 1;
            pending_interim += 1;
            let i = next_final;
            if i > last {
                break;
            }
            if r.status != 100 || i >= n || !case.reqs[i].expect || pending_interim > 1 {
                out.verdicts.push(v("unexpected-interim", format!("status={}", r.status), format!("interim {} before the final response of request #{i} ({})", r.status, if i < n { sigbase(i) } else { "none".into() })));
                return out;
            }
            continue;
        }
        pending_interim = 0;
        let i = next_final;
        next_final += 1;
        if i > last {
            break;
        }
        prev_final = Some((i, r));
        if i >= n {
            out.verdicts.push(v("extra-response", format!("status={}", r.status), format!("a {} response beyond the {n} requests sent", r.status)));
            return out;
        }
        out.n_final += 1;
        let (rq, p) = (&case.reqs[i], &case.progs[i]);
        let rec = oc.reqs.get(i);
        if r.req_idx_header() != Some(i) {
            out.verdicts.push(v(
                "response-order",
                sigbase(i),
                format!("final response #{i} on the wire carries x-req-idx {:?} (status {})", r.req_idx_header(), r.status),
            ));
            return out;
        }
        let Some(rec) = rec else {
            out.verdicts.push(v("response-without-request", sigbase(i), format!("response #{i} on the wire but handler #{i} never ran")));
            return out;
        };
        if r.status != p.status {
            out.verdicts.push(v("status-differs", sigbase(i), format!("response #{i} status {} but the handler answered {}", r.status, p.status)));
        }
        let want_v = if rq.v10 { 10 } else { 11 };
        if r.version != want_v {
            out.verdicts.push(v("version-mismatch", sigbase(i), format!("response #{i} is HTTP/1.{} for an HTTP/1.{} request", r.version % 10, want_v % 10)));
        }
        let has_te = r.header("transfer-encoding").is_some();
        let has_cl = r.header("content-length").is_some();
        if has_te && has_cl {
            out.verdicts.push(v("cl-and-te", sigbase(i), format!("response #{i} carries both content-length and transfer-encoding")));
        }
        if has_te && rq.v10 {
            out.verdicts.push(v("te-on-http10-response", sigbase(i), format!("response #{i} to an HTTP/1.0 request carries transfer-encoding: {}", esc_short(r.header("transfer-encoding").unwrap_or(b""), 30))));
        }
        if r.header_count("content-length") > 1 || r.header_count("transfer-encoding") > 1 {
            out.verdicts.push(v("duplicate-framing-header", sigbase(i), format!("response #{i} repeats content-length or transfer-encoding")));
        }
        let fails = body_fails(p, rq.method);
        let want = expected_body(p, rec, rq.method);
        if r.complete {
            if fails && r.framing != RespFraming::CloseDelimited {
                out.verdicts.push(v(
                    "failed-body-looks-complete",
                    sigbase(i),
                    format!("response #{i}: the body script failed / ended short (yielded {} bytes) but the message on the wire is complete ({:?}, {} body bytes)", rec.resp_yielded.len(), r.framing, r.body.len()),
                ));
            } else if fails {
                if !want.starts_with(&r.body) {
                    out.verdicts.push(v("body-differs", sigbase(i), format!("response #{i}: close-delimited body is not a prefix of what the script yielded")));
                }
            } else if r.framing == RespFraming::CloseDelimited {
                // anything after a close-delimited body belongs to it by definition; whether the
                // server wrote more after announcing the close is C03's question
                if matches!(term_by, Some(c) if i < c) && want.starts_with(&r.body) {
                    out.n_lost_to_termination += 1;
                } else if !r.body.starts_with(&want) {
                    out.verdicts.push(v("body-differs", sigbase(i), format!("response #{i}: close-delimited body ({} bytes) does not start with the {} bytes the handler's body produced", r.body.len(), want.len())));
                } else {
                    if r.body.len() > want.len() {
                        out.n_bytes_after_close_delimited += 1;
                    }
                    out.complete_close_delimited += 1;
                }
            } else if r.body != want {
                let at = r.body.iter().zip(&want).position(|(a, b)| a != b).unwrap_or(r.body.len().min(want.len()));
                out.verdicts.push(v(
                    "body-differs",
                    sigbase(i),
                    format!("response #{i} ({:?}): client decodes {} bytes, the handler's body produced {} (first difference at {at}); chunks yielded {:?}", r.framing, r.body.len(), want.len(), rec.resp_chunks),
                ));
            } else {
                out.complete.push((i, normalised(&oc.out, r)));
            }
        } else {
            // incomplete message followed by EOF: only when the body really failed
            if matches!(term_by, Some(c) if i < c) {
                out.n_lost_to_termination += 1;
                return out;
            } else if !may_terminate(p) {
                out.verdicts.push(v(
                    "response-truncated",
                    sigbase(i),
                    format!("response #{i} ends inside the message ({:?}, {} of {} body bytes) although its body script completed (resp_end {:?}); connection result {:?}", r.framing, r.body.len(), want.len(), rec.resp_end, oc.result),
                ));
            } else {
                out.n_incomplete_legit += 1;
                if !want.starts_with(&r.body) && r.framing != RespFraming::Chunked {
                    out.verdicts.push(v("body-differs", sigbase(i), format!("response #{i}: partial body is not a prefix of what the script yielded")));
                }
                if !oc.closed {
                    out.verdicts.push(v("failed-body-not-closed", sigbase(i), format!("response #{i}: body failed but the connection was not terminated")));
                }
            }
        }
    }
    if let Some((at, why)) = rp.malformed_at {
        // only judged when it lies inside the judged prefix of the stream
        let parsed_finals = rp.resps.iter().filter(|r| !r.is_interim()).count();
        if parsed_finals <= last + 1 {
            let i = parsed_finals.saturating_sub(1).min(n.saturating_sub(1));
            // body bytes written after the head of a response that must not have a body
            if let Some((pi, r)) = prev_final {
                let produced = oc.reqs.get(pi).map(|x| !x.resp_yielded.is_empty()).unwrap_or(false) || is_stream_kind(&case.progs[pi]);
                if pi == i && r.end == at && r.framing == RespFraming::NoBody && produced && pi < n {
                    let sig = if case.reqs[pi].method == "HEAD" { "method=HEAD".to_string() } else { format!("status={}", r.status) };
                    out.verdicts.push(v(
                        "body-after-bodiless-head",
                        sig,
                        format!("response #{pi} ({} to {}) must not have a body, but bytes of its body / body framing follow the head on the wire at offset {at}: …{}", r.status, case.reqs[pi].method, esc_short(&oc.out[at.saturating_sub(40)..(at + 40).min(oc.out.len())], 160)),
                    ));
                    return out;
                }
            }
            out.verdicts.push(v(
                "stream-malformed",
                format!("{} after={}", why, if parsed_finals == 0 { "start".into() } else { sigbase(i) }),
                format!("the response stream stops being well-formed at offset {at} ({why}): …{}", esc_short(&oc.out[at.saturating_sub(60)..(at + 60).min(oc.out.len())], 200)),
            ));
        }
        return out;
    }
    // every request up to the cut must have been answered (all gates open, peer finished sending)
    let answered = next_final.min(last + 1);
    if answered < last + 1 {
        // the only legitimate reason: the response at `answered` failed before anything was flushed
        let i = answered;
        let legit = cut == Some(i) && may_terminate(&case.progs[i]);
        if matches!(term_by, Some(c) if i < c) {
            out.n_lost_to_termination += 1;
        } else if !legit && !rp.incomplete_tail {
            out.verdicts.push(v(
                "missing-response",
                sigbase(i),
                format!("request #{i} of {n} was never answered: {} final responses on the wire, {} handlers ran, connection result {:?}, closed={}", next_final, oc.reqs.len(), oc.result, oc.closed),
            ));
        } else if legit {
            out.n_incomplete_legit += 1;
        }
    }
    if !oc.done && cut.is_none() {
        // peer has half-closed and everything is answered: the connection must end (C04 judges
        // stalls in depth; here it only guards the exactly-once accounting)
        out.verdicts.push(v("not-terminated", "after-eof".into(), format!("all {n} requests answered and peer closed, but the connection task is still pending (stalled={})", oc.stalled)));
    }
    out
}

fn replay_json(case: &Case) -> Value {
    case.to_json()
}

struct Solo {
    cache: HashMap<u64, Option<Vec<u8>>>,
}

impl Solo {
    /// normalised bytes of the response to request `i` of `case` when sent alone
    fn get(&mut self, case: &Case, i: usize, rep: &mut Reporter) -> Option<Vec<u8>> {
        let key = fnv(format!("{:?}|{:?}|{:?}", case.reqs[i], case.progs[i], case.cfg).as_bytes());
        if let Some(c) = self.cache.get(&key) {
            rep.count("solo_cache_hits", 1);
            return c.clone();
        }
        // same request bytes (index-dependent path and body), same program, gates wide open
        let mut prog = case.progs[i].clone();
        prog.post_gate = prog.post_gate.map(|_| 0);
        for s in prog.steps.iter_mut() {
            if let BStep::Wait(g) = s {
                *g = 1;
            }
        }
        let mut sc = Scenario::new(case.cfg.clone(), vec![prog], 2);
        sc.acts.push(Act::Gate(0, 1_000_000));
        sc.acts.push(Act::Gate(1, 1_000_000));
        sc.acts.push(Act::Push(case.reqs[i].bytes(i)));
        sc.settle.push(Act::Eof);
        rep.count("solo_runs", 1);
        let res = match guard(|| run_scenario(&sc)) {
            Ok(oc) => {
                let m = case.reqs[i].method.to_string();
                let rp = h1_resp::parse_responses(&oc.out, &|_| Some(m.clone()), true);
                rp.resps.iter().find(|r| !r.is_interim()).filter(|r| r.complete && rp.malformed_at.is_none()).map(|r| normalised(&oc.out, r))
            }
            Err(_) => None,
        };
        self.cache.insert(key, res.clone());
        res
    }
}

fn eval_case(case: &Case, solo: &mut Solo, rep: &mut Reporter) {
    rep.eval();
    let sc = case.scenario();
    let oc = match guard(|| run_scenario(&sc)) {
        Ok(o) => o,
        Err(p) => {
            rep.violation("panic", &panic_site(&p), &format!("panic while serving: {p}"), replay_json(case));
            return;
        }
    };
    let j = judge(case, &oc);
    rep.count("final_responses_checked", j.n_final as u64);
    rep.count("interim_responses_seen", j.n_interim as u64);
    rep.count("failed_bodies_seen_terminated", j.n_incomplete_legit as u64);
    rep.count("earlier_responses_lost_to_termination_by_later_body_failure", j.n_lost_to_termination as u64);
    rep.count("close_delimited_responses_checked", j.complete_close_delimited as u64);
    rep.count("close_delimited_followed_by_more_bytes(C03)", j.n_bytes_after_close_delimited as u64);
    rep.count("handler_invocations", oc.reqs.len() as u64);
    if j.cut.is_some() {
        rep.count("cases_with_close_cut", 1);
    }
    if oc.partial_writes > 0 {
        rep.count("cases_with_partial_writes", 1);
    }
    // how many later requests had already been dispatched/decoded when handler i responded:
    // approximated by "bytes of later requests already read by the server"
    for (i, r) in oc.reqs.iter().enumerate() {
        if r.resp_end == RespEnd::Done {
            rep.count(&format!("kind:{}", kind_tag(&case.progs[i]).chars().next().unwrap_or('?')), 1);
        }
    }
    for vd in &j.verdicts {
        let detail = format!("{} | reqs=[{}] progs=[{}] order={} credit_limited={}", vd.detail, case.reqs.iter().map(|r| r.tag()).collect::<Vec<_>>().join(","), case.progs.iter().map(kind_tag).collect::<Vec<_>>().join(","), case.shape(), case.limited_credit);
        rep.violation(vd.class, &vd.sig, &detail, replay_json(case));
    }
    if !j.verdicts.is_empty() {
        return;
    }
    // context independence
    for (i, bytes) in &j.complete {
        if case.reqs.len() == 1 && case.order.len() == 1 {
            continue; // this *is* the solo run
        }
        match solo.get(case, *i, rep) {
            Some(alone) => {
                rep.count("solo_comparisons", 1);
                if &alone != bytes {
                    let at = alone.iter().zip(bytes.iter()).position(|(a, b)| a != b).unwrap_or(alone.len().min(bytes.len()));
                    rep.violation(
                        "context-dependent-response",
                        &format!("{} {}", case.reqs[*i].tag(), kind_tag(&case.progs[*i])),
                        &format!(
                            "response #{i} differs from the response to the same request sent alone (first difference at byte {at}): in pipeline …{}… alone …{}… | reqs=[{}] progs=[{}] order={}",
                            esc_short(&bytes[at.saturating_sub(40)..(at + 60).min(bytes.len())], 160),
                            esc_short(&alone[at.saturating_sub(40)..(at + 60).min(alone.len())], 160),
                            case.reqs.iter().map(|r| r.tag()).collect::<Vec<_>>().join(","),
                            case.progs.iter().map(kind_tag).collect::<Vec<_>>().join(","),
                            case.shape()
                        ),
                        replay_json(case),
                    );
                }
            }
            None => rep.count("solo_not_comparable", 1),
        }
    }
}

fn case_sig(case: &Case) -> String {
    // coarse on purpose: request tuple, body-kind letters with status class, and the schedule with
    // gate numbers reduced to handler/body (diversity, not volume)
    let kinds: Vec<String> = case.progs.iter().map(|p| { let t = kind_tag(p); format!("{}{}", &t[..1], p.status / 100) }).collect();
    let mut shape = String::new();
    for e in &case.order {
        shape.push(match e {
            Ev::Push(_) => 'P',
            Ev::Gate(g) if g % 2 == 0 => 'h',
            Ev::Gate(_) => 'b',
            Ev::Credit(_) => 'c',
        });
    }
    format!("{}|{}|{}", case.reqs.iter().map(|r| r.tag()).collect::<Vec<_>>().join(","), kinds.join(","), shape)
}


// ------------------------------------------------- requests pipelined in front of a protocol upgrade

/// `k` ordinary requests followed by an upgrade request on a connection whose service stack has an
/// upgrade service.  Every ordinary request was dispatched, so each is owed its response, in
/// order, before whatever the upgrade handler writes.
#[derive(Clone, Debug)]
struct UpCase {
    k: usize,
    /// 0 handlers ready, one segment; 1 one segment, handlers released afterwards in order;
    /// 2 upgrade request arrives while every handler is pending; 3 while only the last one is
    mode: u8,
    /// socket not writable until the end: earlier responses are still buffered at hand-over
    blocked: bool,
    body_len: usize,
}

impl UpCase {
    fn to_json(&self) -> Value {
        json!({"upgrade_case": {"k": self.k, "mode": self.mode, "blocked": self.blocked, "body_len": self.body_len}})
    }
    fn from_json(v: &Value) -> Self {
        UpCase { k: v["k"].as_u64().unwrap_or(1) as usize, mode: v["mode"].as_u64().unwrap_or(0) as u8, blocked: v["blocked"].as_bool().unwrap_or(false), body_len: v["body_len"].as_u64().unwrap_or(5) as usize }
    }
}

fn eval_upgrade(c: &UpCase, rep: &mut Reporter) {
    rep.eval();
    let mut cfg = ConnCfg::persistent();
    cfg.upgrade = true;
    let progs: Vec<Prog> = (0..c.k).map(|i| Prog { post_gate: Some(i), kind: BodyKind::Bytes, steps: vec![data(c.body_len, i, 0)], ..Default::default() }).collect();
    let mut sc = Scenario::new(cfg, progs, c.k);
    if c.blocked {
        sc.initial_credit = Some(0);
    }
    let ordinary: Vec<u8> = (0..c.k).flat_map(|i| format!("GET /r{i} HTTP/1.1\r\nHost: t\r\n\r\n").into_bytes()).collect();
    let up = b"GET /up HTTP/1.1\r\nHost: t\r\nConnection: upgrade\r\nUpgrade: websocket\r\n\r\n".to_vec();
    let mut all = ordinary.clone();
    all.extend_from_slice(&up);
    match c.mode {
        0 => {
            for g in 0..c.k {
                sc.acts.push(Act::Gate(g, 1));
            }
            sc.acts.push(Act::Push(all));
        }
        1 => {
            sc.acts.push(Act::Push(all));
            for g in 0..c.k {
                sc.acts.push(Act::Gate(g, 1));
            }
        }
        2 => {
            sc.acts.push(Act::Push(ordinary));
            sc.acts.push(Act::Push(up));
            for g in 0..c.k {
                sc.acts.push(Act::Gate(g, 1));
            }
        }
        _ => {
            sc.acts.push(Act::Push(ordinary));
            for g in 0..c.k - 1 {
                sc.acts.push(Act::Gate(g, 1));
            }
            sc.acts.push(Act::Push(up));
            sc.acts.push(Act::Gate(c.k - 1, 1));
        }
    }
    sc.settle.push(Act::SetCredit(usize::MAX));
    let oc = match guard(|| run_scenario(&sc)) {
        Ok(o) => o,
        Err(p) => {
            rep.violation("panic", &panic_site(&p), &format!("panic: {p}"), c.to_json());
            return;
        }
    };
    if std::env::var("AVMON_DEBUG").is_ok() {
        crate::world::run::debug_dump(&sc, &oc);
    }
    let sig = format!("upgrade k={} mode={} blocked={}", c.k, c.mode, c.blocked);
    rep.sig(&format!("{sig} len={}", c.body_len.min(1) + (c.body_len > 4096) as usize));
    rep.count("upgrade_cases", 1);
    if oc.livelock || oc.stalled {
        rep.violation("upgrade-hand-over-stuck", &sig, &format!("livelock={} stalled={} with every gate open and the socket writable", oc.livelock, oc.stalled), c.to_json());
        return;
    }
    let dispatched = oc.reqs.len();
    let rp = h1_resp::parse_responses(&oc.out, &|_| Some("GET".to_string()), true);
    let finals: Vec<&RefResp> = rp.resps.iter().filter(|r| r.status >= 200).collect();
    let idxs: Vec<Option<usize>> = finals.iter().map(|r| r.req_idx_header()).collect();
    let want: Vec<Option<usize>> = (0..dispatched).map(Some).collect();
    if idxs != want {
        rep.violation(
            "response-lost-before-upgrade",
            &sig,
            &format!("{dispatched} ordinary requests were dispatched in front of the upgrade request; final responses on the wire answer {idxs:?}; output: {}", esc_short(&oc.out, 300)),
            c.to_json(),
        );
        return;
    }
    for (i, r) in finals.iter().enumerate() {
        if !r.complete || r.body != oc.reqs[i].resp_yielded {
            rep.violation("body-differs", &format!("{sig} before-upgrade"), &format!("response #{i} in front of the upgrade: complete={} body {} bytes, handler produced {}", r.complete, r.body.len(), oc.reqs[i].resp_yielded.len()), c.to_json());
            return;
        }
    }
    if let Some((at, why)) = rp.malformed_at {
        rep.violation("stream-malformed", &format!("{sig} {why}"), &format!("output not parseable as responses at offset {at} ({why}): {}", esc_short(&oc.out, 300)), c.to_json());
        return;
    }
    // the upgrade handler's own answer comes after all of them
    match rp.resps.iter().position(|r| r.status == 101) {
        Some(p) if p == rp.resps.len() - 1 && rp.resps[p].header("x-upgraded").is_some() => rep.count("upgrade_answer_last", 1),
        other => rep.violation("upgrade-answer-misplaced", &sig, &format!("101 at position {other:?} of {} messages: {}", rp.resps.len(), esc_short(&oc.out, 300)), c.to_json()),
    }
}

fn upgrade_cases(ctx: &Ctx, rep: &mut Reporter) {
    let mut idx = 0u64;
    let mut complete = true;
    for k in 1..=3usize {
        for mode in 0..4u8 {
            for blocked in [false, true] {
                for body_len in [0usize, 5, 70_000] {
                    idx += 1;
                    if !ctx.mine(idx) {
                        continue;
                    }
                    if ctx.out_of_time() {
                        complete = false;
                        continue;
                    }
                    eval_upgrade(&UpCase { k, mode, blocked, body_len }, rep);
                }
            }
        }
    }
    rep.exhaustive("1-3 ordinary requests in front of an upgrade request x 4 arrival/hand-over orders x socket writable or not x 3 body sizes", complete);
}

// ------------------------------------------------------------------------------------ generators

fn data(n: usize, i: usize, k: usize) -> BStep {
    BStep::Data(fill_data(n, (i * 13 + k * 5 + 1) as u8))
}

/// request/program "atoms" for the exhaustive schedule enumeration; gates: 2i handler, 2i+1 body
fn atoms() -> Vec<(&'static str, ReqSpec, Box<dyn Fn(usize) -> Prog>)> {
    let g = ReqSpec::get;
    let mut v: Vec<(&'static str, ReqSpec, Box<dyn Fn(usize) -> Prog>)> = vec![];
    v.push(("get-bytes", g(), Box::new(|i| Prog { post_gate: Some(2 * i), steps: vec![data(2, i, 0)], ..Default::default() })));
    v.push(("head-bytes", ReqSpec { method: "HEAD", ..g() }, Box::new(|i| Prog { post_gate: Some(2 * i), steps: vec![data(10, i, 0)], ..Default::default() })));
    v.push(("get10ka-bytes", ReqSpec { v10: true, conn: 2, ..g() }, Box::new(|i| Prog { post_gate: Some(2 * i), steps: vec![data(3, i, 0)], ..Default::default() })));
    v.push((
        "post-stream",
        ReqSpec { method: "POST", body: 5, ..g() },
        Box::new(|i| Prog { post_gate: Some(2 * i), kind: BodyKind::BodyStream, steps: vec![data(3, i, 0), BStep::Wait(2 * i + 1), data(4, i, 1)], ..Default::default() }),
    ));
    v.push((
        "get-sized",
        g(),
        Box::new(|i| Prog { post_gate: Some(2 * i), kind: BodyKind::SizedStream(7), steps: vec![data(3, i, 0), BStep::Wait(2 * i + 1), data(4, i, 1)], ..Default::default() }),
    ));
    v.push(("get-204", g(), Box::new(|i| Prog { post_gate: Some(2 * i), status: 204, kind: BodyKind::None, steps: vec![], ..Default::default() })));
    v.push(("get-304", g(), Box::new(|i| Prog { post_gate: Some(2 * i), status: 304, kind: BodyKind::None, steps: vec![], ..Default::default() })));
    v.push((
        "post-chunked-expect",
        ReqSpec { method: "POST", body: 9, chunked: true, expect: true, ..g() },
        Box::new(|i| Prog { post_gate: Some(2 * i), steps: vec![data(4, i, 0)], ..Default::default() }),
    ));
    v.push((
        "head-stream",
        ReqSpec { method: "HEAD", ..g() },
        Box::new(|i| Prog { post_gate: Some(2 * i), kind: BodyKind::BodyStream, steps: vec![data(3, i, 0), BStep::Wait(2 * i + 1), data(4, i, 1)], ..Default::default() }),
    ));
    v.push(("get-fail", g(), Box::new(|i| Prog { post_gate: Some(2 * i), status: 500, fail: true, ..Default::default() })));
    v.push((
        "get-custom",
        g(),
        Box::new(|i| Prog { post_gate: Some(2 * i), kind: BodyKind::CustomStream, steps: vec![data(3, i, 0), BStep::Wait(2 * i + 1), data(0, i, 1), data(4, i, 2)], ..Default::default() }),
    ));
    v.push(("get10-close", ReqSpec { v10: true, ..g() }, Box::new(|i| Prog { post_gate: Some(2 * i), steps: vec![data(3, i, 0)], ..Default::default() })));
    v
}

/// all interleavings of the event lists (order inside each list preserved)
fn interleavings(lists: &[Vec<Ev>], cap: usize) -> Vec<Vec<Ev>> {
    fn rec(lists: &[Vec<Ev>], pos: &mut Vec<usize>, cur: &mut Vec<Ev>, out: &mut Vec<Vec<Ev>>, cap: usize) {
        if out.len() >= cap {
            return;
        }
        let mut any = false;
        for k in 0..lists.len() {
            if pos[k] < lists[k].len() {
                any = true;
                cur.push(lists[k][pos[k]].clone());
                pos[k] += 1;
                rec(lists, pos, cur, out, cap);
                pos[k] -= 1;
                cur.pop();
            }
        }
        if !any {
            out.push(cur.clone());
        }
    }
    let mut out = vec![];
    rec(lists, &mut vec![0; lists.len()], &mut vec![], &mut out, cap);
    out
}

fn nwaits(p: &Prog) -> usize {
    p.steps.iter().filter(|s| matches!(s, BStep::Wait(_))).count()
}

pub fn gen_request(rng: &mut Rng, last: bool) -> ReqSpec {
    let method = *rng.pick(&["GET", "GET", "HEAD", "POST", "POST"]);
    let v10 = rng.chance(1, 4);
    let conn = if v10 {
        if last && rng.chance(1, 3) {
            0
        } else {
            2
        }
    } else if last && rng.chance(1, 5) {
        1
    } else if rng.chance(1, 8) {
        2
    } else {
        0
    };
    let chunked = !v10 && rng.chance(1, 2);
    let body = *rng.pick(&[0usize, 1, 5, 300, 5000, 40_000]);
    ReqSpec { method, v10, conn, expect: method == "POST" && !v10 && rng.chance(1, 4), body: if method == "POST" { body } else { 0 }, chunked }
}

pub fn gen_prog(rng: &mut Rng, i: usize, gated: bool) -> Prog {
    let mut p = Prog { post_gate: if gated { Some(2 * i) } else { None }, ..Default::default() };
    p.status = *rng.pick(&[200u16, 200, 200, 200, 404, 500, 204, 304, 201]);
    // one program in eight reaches the dispatcher through the service's `Err` path (a separate
    // copy of the response-sending code); everything else about it is generated as usual
    p.fail = rng.chance(1, 8);
    let kind = rng.below(8);
    let nchunks = rng.below(5);
    let mut steps = vec![];
    let mut total = 0usize;
    for k in 0..nchunks {
        if rng.chance(1, 3) {
            steps.push(BStep::Wait(2 * i + 1));
        }
        let n = *rng.pick(&[0usize, 1, 1, 5, 5, 100, 5000, 40_000]);
        total += n;
        steps.push(data(n, i, k));
    }
    if rng.chance(1, 6) {
        steps.push(BStep::Wait(2 * i + 1));
    }
    match kind {
        0 | 1 => {
            p.kind = BodyKind::Bytes;
            steps.retain(|s| matches!(s, BStep::Data(_)));
        }
        2 => {
            p.kind = BodyKind::BodyStream;
        }
        3 => {
            p.kind = BodyKind::CustomStream;
        }
        4 | 5 => {
            let declared = match rng.below(6) {
                0 => total.saturating_sub(rng.range(1, 3)),
                1 => total + rng.range(1, 3),
                _ => total,
            };
            p.kind = if kind == 4 { BodyKind::SizedStream(declared as u64) } else { BodyKind::CustomSized(declared as u64) };
        }
        6 => {
            p.kind = BodyKind::BodyStream;
            let declared = match rng.below(4) {
                0 => total.saturating_sub(1),
                1 => total + 2,
                _ => total,
            };
            p.no_chunking = Some(declared as u64);
        }
        _ => {
            p.kind = BodyKind::None;
            steps.clear();
            if !rng.chance(1, 6) {
                p.status = *rng.pick(&[204u16, 304]);
            } else {
                // `body::None` on a status that allows a body is API misuse (the docs reserve it
                // for responses that forbid payloads): not generated
                p.status = 204;
            }
        }
    }
    if !matches!(p.kind, BodyKind::Bytes | BodyKind::None) && rng.chance(1, 10) {
        let at = rng.below(steps.len() + 1);
        steps.insert(at, BStep::Err);
        steps.truncate(at + 1);
    }
    p.steps = steps;
    // a 304 with a body runs into the recorded known finding (body bytes after the head) and
    // hides everything behind it in the same case: keep it rare
    if p.status == 304 && !rng.chance(1, 6) {
        p.kind = BodyKind::None;
        p.steps.clear();
        p.no_chunking = None;
    }
    if rng.chance(1, 8) {
        p.headers.push(("content-length".into(), format!("{}", rng.below(50))));
    }
    // (a 304 deliberately retains manually set framing headers, so a handler-set
    // Transfer-Encoding on a 304 is the handler's own statement, not the server's)
    if rng.chance(1, 16) && p.headers.is_empty() && p.no_chunking.is_none() && p.status != 304 {
        p.headers.push(("transfer-encoding".into(), "chunked".into()));
    }
    if rng.chance(1, 12) {
        p.conn = Conn::KeepAlive;
    } else if rng.chance(1, 16) {
        p.conn = Conn::Close;
    }
    p.read = ReadMode::All;
    p
}

fn gen_case(rng: &mut Rng) -> Case {
    let n = match rng.below(10) {
        0 | 1 => 1,
        2..=5 => 2,
        6 | 7 => 3,
        8 => 4,
        _ => 6,
    };
    let mut cfg = ConnCfg::persistent();
    if rng.chance(1, 25) {
        cfg.keep_alive_s = None;
    }
    if rng.chance(1, 6) {
        cfg.write_buf = Some(*rng.pick(&[1usize, 512, 4096, 100_000]));
    }
    let reqs: Vec<ReqSpec> = (0..n).map(|i| gen_request(rng, i + 1 == n)).collect();
    let progs: Vec<Prog> = (0..n).map(|i| { let gated = rng.chance(2, 3); gen_prog(rng, i, gated) }).collect();
    // events: pushes in order; each handler gate once (if gated); each body wait once
    let mut lists: Vec<Vec<Ev>> = vec![(0..n).map(Ev::Push).collect()];
    for (i, p) in progs.iter().enumerate() {
        if p.post_gate.is_some() {
            lists.push(vec![Ev::Gate(2 * i)]);
        }
        let w = nwaits(p);
        if w > 0 {
            lists.push((0..w).map(|_| Ev::Gate(2 * i + 1)).collect());
        }
    }
    let limited = rng.chance(1, 4);
    if limited {
        let k = rng.range(1, 6);
        lists.push((0..k).map(|_| Ev::Credit(*rng.pick(&[1usize, 7, 100, 5000, 70_000]))).collect());
    }
    // random interleaving; bias: with prob 1/3 deliver all requests first (deep pipelining)
    let mut order = vec![];
    let mut pos = vec![0usize; lists.len()];
    let all_first = rng.chance(1, 3);
    if all_first {
        order.extend(lists[0].iter().cloned());
        pos[0] = lists[0].len();
    }
    loop {
        let avail: Vec<usize> = (0..lists.len()).filter(|&k| pos[k] < lists[k].len()).collect();
        if avail.is_empty() {
            break;
        }
        let k = *rng.pick(&avail);
        order.push(lists[k][pos[k]].clone());
        pos[k] += 1;
    }
    Case { cfg, reqs, progs, order, limited_credit: limited }
}

pub fn run(ctx: &Ctx, rep: &mut Reporter) {
    let mut solo = Solo { cache: HashMap::new() };
    if let Some(r) = &ctx.replay {
        if !r["upgrade_case"].is_null() {
            eval_upgrade(&UpCase::from_json(&r["upgrade_case"]), rep);
            rep.sig("replay-a");
            rep.sig("replay-b");
            return;
        }
        let case = Case::from_json(r);
        eval_case(&case, &mut solo, rep);
        rep.sig("replay-a");
        rep.sig("replay-b");
        return;
    }

    // ---- requests pipelined in front of a protocol upgrade
    if !ctx.is_miri() {
        upgrade_cases(ctx, rep);
    }

    // ---- Phase A: every schedule of every ordered pair (thorough: also triples) of atoms
    let at = atoms();
    let mut idx = 0u64;
    let mut complete = true;
    let na = at.len();
    for a in 0..na {
        for b in 0..na {
            // a request that ends the connection can only come last
            if at[a].1.wants_close() {
                continue;
            }
            let reqs = vec![at[a].1.clone(), at[b].1.clone()];
            let progs = vec![(at[a].2)(0), (at[b].2)(1)];
            let mut lists: Vec<Vec<Ev>> = vec![vec![Ev::Push(0), Ev::Push(1)]];
            for (i, p) in progs.iter().enumerate() {
                lists.push(vec![Ev::Gate(2 * i)]);
                let w = nwaits(p);
                if w > 0 {
                    lists.push((0..w).map(|_| Ev::Gate(2 * i + 1)).collect());
                }
            }
            for order in interleavings(&lists, 100_000) {
                idx += 1;
                if !ctx.mine(idx) {
                    continue;
                }
                if ctx.out_of_time() {
                    complete = false;
                    break;
                }
                let case = Case { cfg: ConnCfg::persistent(), reqs: reqs.clone(), progs: progs.clone(), order, limited_credit: false };
                eval_case(&case, &mut solo, rep);
                rep.sig(&case_sig(&case));
                if idx == 37 {
                    rep.sample("enumerated-pair-schedule", json!({"atoms": [at[a].0, at[b].0], "order": case.shape(), "case": case.to_json()}));
                }
            }
        }
    }
    rep.exhaustive("all schedules (request arrivals x handler gates x body gates) of all ordered pairs of the request/program atoms", complete);
    rep.max("atoms", na as u64);
    if ctx.thorough() {
        let mut complete3 = true;
        'outer: for a in 0..na {
            for b in 0..na {
                for c in 0..na {
                    if at[a].1.wants_close() || at[b].1.wants_close() {
                        continue;
                    }
                    let reqs = vec![at[a].1.clone(), at[b].1.clone(), at[c].1.clone()];
                    let progs = vec![(at[a].2)(0), (at[b].2)(1), (at[c].2)(2)];
                    // handler gates only; body gates are opened up front
                    let mut lists: Vec<Vec<Ev>> = vec![vec![Ev::Push(0), Ev::Push(1), Ev::Push(2)]];
                    for i in 0..3 {
                        lists.push(vec![Ev::Gate(2 * i)]);
                    }
                    for mut order in interleavings(&lists, 100_000) {
                        idx += 1;
                        if !ctx.mine(idx) {
                            continue;
                        }
                        if ctx.out_of_time() {
                            complete3 = false;
                            break 'outer;
                        }
                        let mut pre: Vec<Ev> = vec![];
                        for (i, p) in progs.iter().enumerate() {
                            for _ in 0..nwaits(p) {
                                pre.push(Ev::Gate(2 * i + 1));
                            }
                        }
                        pre.append(&mut order);
                        let case = Case { cfg: ConnCfg::persistent(), reqs: reqs.clone(), progs: progs.clone(), order: pre, limited_credit: false };
                        eval_case(&case, &mut solo, rep);
                        rep.sig(&case_sig(&case));
                    }
                }
            }
        }
        rep.exhaustive("all arrival x handler-gate schedules of all ordered triples of the atoms", complete3);
    }

    // ---- Phase B: random pipelines, programs and schedules
    let n = ctx.share(40_000, 2_000_000);
    for k in 0..n {
        if ctx.out_of_time() {
            break;
        }
        let mut rng = Rng::derive(ctx.seed, 2, k * ctx.nshards + ctx.shard);
        let case = gen_case(&mut rng);
        eval_case(&case, &mut solo, rep);
        rep.sig(&case_sig(&case));
        if k == 3 {
            rep.sample("random-case", case.to_json());
        }
    }
}
