//! C16 — static file serving stays inside its root and answers Range / conditional requests exactly.
//!
//! Obs: `actix_files::Files` mounted eight times (default/async reads, hidden files + sync reads,
//! index file, directory listing, three `try_compressed` combinations, root mount) in a real `App`, driven through the `Service`
//! interface on a temp tree created per shard.  Every file's content is a unique id pattern
//! (16-byte records `iiii:oooooooooo\n`), so any body identifies the file and offset it came from;
//! canary files, a sibling directory `rootx/` (sharing the root's name prefix) and same-named
//! decoys sit OUTSIDE the root.  The whole body is streamed chunk by chunk.
//!
//! Oracles (one `judge` for every phase, driven only by the request path + headers):
//!  * escape: a 200/206 body must be bytes of an in-root file; never of an outside file;
//!  * resolve: an independent re-statement of the path rules (DESIGN A.3) says which in-root file /
//!    directory / rejection the path denotes; anything that is not a file must get an error status;
//!  * range: `refmodel::range::eval_range` (RFC 7233) × file length ⇒ outcome set; a 206 must carry a
//!    well-formed `Content-Range: bytes s-e/len` with s ≤ e < len, body == file[s..=e], declared
//!    body size == e−s+1 == streamed bytes; a 416 `bytes */len` and an empty body;
//!  * cond: `refmodel::range::eval_cond` (RFC 7232 §6) ⇒ 412 / 304 (empty body) / the normal answer;
//!  * pre-compressed variants (`try_compressed` mounts): `Content-Encoding` may only appear when the
//!    body is exactly the in-root `<name>.br/.gz/.zst` sibling of the denoted file for a coding the
//!    request's `Accept-Encoding` accepts; look-alikes next to the root (`<root>.gz`, `rootx.gz`, …)
//!    are canaries;
//!  * never a panic, never a body stream error.

use std::{
    collections::{BTreeMap, BTreeSet},
    future::Future,
    path::PathBuf,
    pin::Pin,
    sync::{
        atomic::{AtomicBool, AtomicU64, Ordering::SeqCst},
        Arc,
    },
    task::{Context, Poll},
    time::{Duration, Instant, UNIX_EPOCH},
};

use actix_files::Files;
use actix_http::Request;
use actix_web::{
    body::{BodySize, BoxBody, MessageBody},
    dev::{Service, ServiceResponse},
    http::{
        header::{HeaderName, HeaderValue},
        Uri,
    },
    test, App,
};
use serde_json::{json, Value};

use crate::{
    refmodel::range::{
        eval_cond, eval_range, fmt_http_date, parse_content_range, parse_http_date, range_allows, CondHeaders,
        ContentRange, DateFmt, ETag, Kind, RangeAnswer, Validators,
    },
    report::{guard, panic_site, Ctx, Reporter},
    util::{esc_short, fnv, Rng},
    world::exec::run_virtual,
};

// ------------------------------------------------------------------------------------------------
// The tree
// ------------------------------------------------------------------------------------------------

/// mtime given to every file: whole seconds + 0.5 s (HTTP dates only carry the seconds)
const MTIME: i64 = 1_700_000_000;
const ETAG: &str = "{ETAG}";

struct FileEnt {
    /// components relative to the root (inside) or to the base (outside)
    rel: Vec<String>,
    id: u16,
    content: Vec<u8>,
    inside: bool,
}

struct Tree {
    base: PathBuf,
    root: PathBuf,
    files: Vec<FileEnt>,
    /// in-root directories, as component lists (the root itself is the empty list)
    dirs: BTreeSet<Vec<String>>,
}

fn content(id: u16, len: usize) -> Vec<u8> {
    let mut v = Vec::with_capacity(len + 16);
    let mut rec = 0u64;
    while v.len() < len {
        v.extend_from_slice(format!("{:04x}:{:010x}\n", id, rec).as_bytes());
        rec += 1;
    }
    v.truncate(len);
    v
}

/// (path, id, len) of the files inside the root
const INSIDE: &[(&str, u16, usize)] = &[
    ("a.txt", 0x0a01, 10),
    ("empty.bin", 0x0a02, 0),
    ("one.bin", 0x0a03, 1),
    ("k64.bin", 0x0a04, 65_536),
    ("k64p1.bin", 0x0a05, 65_537),
    ("big.bin", 0x0a06, 200_000),
    (".hidden", 0x0a07, 40),
    (".hid/x.txt", 0x0a08, 40),
    ("sub/b.txt", 0x0a09, 40),
    ("sub/index.html", 0x0a0a, 40),
    ("sub/deep/c.txt", 0x0a0b, 40),
    ("sub/deep/deeper/d.txt", 0x0a0c, 40),
    ("\u{fc}n\u{ef}/\u{e9}.txt", 0x0a0d, 40),
    ("x\\y.txt", 0x0a0e, 40),
    ("sp ace.txt", 0x0a0f, 40),
    ("sub/deep/index.html.bak", 0x0a10, 40),
    // pre-compressed variants (the server never decompresses: the content is an id pattern too)
    ("a.txt.gz", 0x0b01, 30),
    ("a.txt.br", 0x0b02, 31),
    ("a.txt.zst", 0x0b03, 32),
    ("sub/b.txt.gz", 0x0b04, 33),
    ("sub/index.html.br", 0x0b05, 34),
    ("big.bin.gz", 0x0b06, 70_000),
    // a variant whose plain file does not exist
    ("only.txt.gz", 0x0b07, 35),
    (".hidden.gz", 0x0b08, 36),
    ("empty.bin.zst", 0x0b09, 0),
    // files named like `<directory>.<ext>`: never a variant of anything
    ("sub.gz", 0x0b0a, 37),
    ("emptydir.br", 0x0b0b, 38),
];

/// decoys and canaries outside the root (relative to the base directory that contains `root/`)
const OUTSIDE: &[(&str, u16, usize)] = &[
    ("CANARY.txt", 0xc001, 40),
    ("rootx/CANARY.txt", 0xc002, 40),
    ("rootx/a.txt", 0xc003, 10),
    ("sub/b.txt", 0xc004, 40),
    ("a.txt", 0xc005, 10),
    ("index.html", 0xc006, 40),
    (".hidden", 0xc007, 40),
    ("rootx/sub/b.txt", 0xc008, 40),
    // look-alikes of pre-compressed variants next to the root and next to the decoys
    ("root.gz", 0xc101, 40),
    ("root.br", 0xc102, 41),
    ("root.zst", 0xc103, 42),
    ("rootx.gz", 0xc104, 43),
    ("CANARY.txt.gz", 0xc105, 44),
    ("a.txt.gz", 0xc106, 30),
    ("index.html.gz", 0xc107, 45),
    ("index.html.br", 0xc108, 34),
    ("sub/b.txt.gz", 0xc109, 33),
    ("rootx/a.txt.gz", 0xc10a, 30),
    ("rootx/CANARY.txt.gz", 0xc10b, 46),
    (".hidden.gz", 0xc10c, 36),
    ("sub.gz", 0xc10d, 37),
];

impl Tree {
    fn create(ctx: &Ctx) -> std::io::Result<Tree> {
        let parent = match std::env::current_dir() {
            Ok(d) if d.join("target").is_dir() => d.join("target").join("c16-tmp"),
            _ => std::env::temp_dir().join("avmon-c16-tmp"),
        };
        std::fs::create_dir_all(&parent)?;
        // leftovers of killed runs (older than two hours) are removed
        if let Ok(rd) = std::fs::read_dir(&parent) {
            for e in rd.flatten() {
                let old = e
                    .metadata()
                    .and_then(|m| m.modified())
                    .ok()
                    .and_then(|t| t.elapsed().ok())
                    .map(|d| d > Duration::from_secs(7200))
                    .unwrap_or(false);
                if old && e.file_name().to_string_lossy().starts_with("avmon-c16-") {
                    let _ = std::fs::remove_dir_all(e.path());
                }
            }
        }
        let base = parent.join(format!("avmon-c16-{}-{}-{}", std::process::id(), ctx.shard, ctx.layer));
        let _ = std::fs::remove_dir_all(&base);
        let root = base.join("root");
        std::fs::create_dir_all(&root)?;
        let mut files = vec![];
        let mut dirs = BTreeSet::new();
        dirs.insert(vec![]);
        let mtime = UNIX_EPOCH + Duration::from_millis(MTIME as u64 * 1000 + 500);
        for (inside, list) in [(true, INSIDE), (false, OUTSIDE)] {
            for &(p, id, len) in list {
                let rel: Vec<String> = p.split('/').map(|s| s.to_string()).collect();
                let top = if inside { &root } else { &base };
                let mut full = top.clone();
                for (i, c) in rel.iter().enumerate() {
                    full.push(c);
                    if i + 1 < rel.len() && inside {
                        dirs.insert(rel[..=i].to_vec());
                    }
                }
                std::fs::create_dir_all(full.parent().unwrap())?;
                let data = content(id, len);
                std::fs::write(&full, &data)?;
                let f = std::fs::OpenOptions::new().write(true).open(&full)?;
                f.set_modified(mtime)?;
                files.push(FileEnt { rel, id, content: data, inside });
            }
        }
        // an empty directory inside the root
        std::fs::create_dir_all(root.join("emptydir"))?;
        dirs.insert(vec!["emptydir".to_string()]);
        let base = base.canonicalize()?;
        let root = root.canonicalize()?;
        Ok(Tree { base, root, files, dirs })
    }

    fn lookup(&self, comps: &[String]) -> Node {
        if self.dirs.contains(comps) {
            return Node::Dir;
        }
        match self.files.iter().position(|f| f.inside && f.rel == comps) {
            Some(i) => Node::File(i),
            None => Node::Missing,
        }
    }

    /// visible (non-hidden) children names of an in-root directory
    fn children(&self, dir: &[String]) -> BTreeSet<String> {
        let mut out = BTreeSet::new();
        for f in self.files.iter().filter(|f| f.inside) {
            if f.rel.len() > dir.len() && f.rel[..dir.len()] == *dir {
                out.insert(f.rel[dir.len()].clone());
            }
        }
        for d in &self.dirs {
            if d.len() > dir.len() && d[..dir.len()] == *dir {
                out.insert(d[dir.len()].clone());
            }
        }
        out.into_iter().filter(|n| !n.starts_with('.')).collect()
    }
}

impl Drop for Tree {
    fn drop(&mut self) {
        if self.base.file_name().map(|n| n.to_string_lossy().starts_with("avmon-c16-")).unwrap_or(false) {
            let _ = std::fs::remove_dir_all(&self.base);
        }
    }
}

#[derive(Clone, Copy, Debug, PartialEq, Eq)]
enum Node {
    File(usize),
    Dir,
    Missing,
}

// ------------------------------------------------------------------------------------------------
// The mounts and the path model
// ------------------------------------------------------------------------------------------------

struct Mount {
    prefix: &'static str,
    hidden: bool,
    index: Option<&'static str>,
    listing: bool,
    /// `try_compressed()`: `<name>.br/.gz/.zst` is served instead when Accept-Encoding allows
    compressed: bool,
}

const M_STATIC: usize = 0;
const M_HID: usize = 1;
const M_LIST: usize = 3;
const M_CMP: usize = 4;
const M_CIDX: usize = 5;
const M_CHID: usize = 6;
const M_ROOT: usize = 7;
/// the mounts without `try_compressed`
const PLAIN_MOUNTS: [usize; 5] = [0, 1, 2, 3, M_ROOT];

/// (Content-Encoding token, file extension) of the pre-compressed variants, in no particular order
const CODINGS: [(&str, &str); 3] = [("br", ".br"), ("gzip", ".gz"), ("zstd", ".zst")];

/// in registration order; the root mount must be last (it shadows everything after it)
const MOUNTS: &[Mount] = &[
    Mount { prefix: "/static", hidden: false, index: None, listing: false, compressed: false },
    Mount { prefix: "/hid", hidden: true, index: None, listing: false, compressed: false },
    Mount { prefix: "/idx", hidden: false, index: Some("index.html"), listing: false, compressed: false },
    Mount { prefix: "/list", hidden: false, index: None, listing: true, compressed: false },
    Mount { prefix: "/cmp", hidden: false, index: None, listing: false, compressed: true },
    Mount { prefix: "/cidx", hidden: false, index: Some("index.html"), listing: false, compressed: true },
    Mount { prefix: "/chid", hidden: true, index: None, listing: true, compressed: true },
    Mount { prefix: "", hidden: false, index: None, listing: false, compressed: false },
];

async fn make_app(
    root: PathBuf,
) -> impl Service<Request, Response = ServiceResponse<BoxBody>, Error = actix_web::Error> {
    test::init_service(
        App::new()
            .service(Files::new("/static", &root))
            // every file below 100 000 bytes is read synchronously on this mount
            .service(Files::new("/hid", &root).use_hidden_files().read_mode_threshold(100_000))
            .service(Files::new("/idx", &root).index_file("index.html"))
            .service(Files::new("/list", &root).show_files_listing())
            .service(Files::new("/cmp", &root).try_compressed())
            .service(Files::new("/cidx", &root).try_compressed().index_file("index.html"))
            .service(Files::new("/chid", &root).try_compressed().use_hidden_files().show_files_listing())
            .service(Files::new("/", &root)),
    )
    .await
}

fn hexval(b: u8) -> Option<u8> {
    (b as char).to_digit(16).map(|d| d as u8)
}

/// What the application router does to the path before any service sees it: percent-decoding of
/// everything except the escapes of `%`, `/` and `+`; the result read as UTF-8, lossily.
fn router_decode(path: &[u8]) -> String {
    let mut out = Vec::with_capacity(path.len());
    let mut i = 0;
    while i < path.len() {
        if path[i] == b'%' && i + 2 < path.len() {
            if let (Some(h), Some(l)) = (hexval(path[i + 1]), hexval(path[i + 2])) {
                let ch = h << 4 | l;
                if ch != b'%' && ch != b'/' && ch != b'+' {
                    out.push(ch);
                    i += 3;
                    continue;
                }
            }
        }
        out.push(path[i]);
        i += 1;
    }
    String::from_utf8_lossy(&out).into_owned()
}

/// What the file service does to its tail: decode every escape once; must be UTF-8.
fn files_decode(tail: &str) -> Option<String> {
    let b = tail.as_bytes();
    let mut out = Vec::with_capacity(b.len());
    let mut i = 0;
    while i < b.len() {
        if b[i] == b'%' && i + 2 < b.len() {
            if let (Some(h), Some(l)) = (hexval(b[i + 1]), hexval(b[i + 2])) {
                out.push(h << 4 | l);
                i += 3;
                continue;
            }
        }
        out.push(b[i]);
        i += 1;
    }
    String::from_utf8(out).ok()
}

#[derive(Clone, Debug, PartialEq, Eq)]
enum Expect {
    /// the path rules reject the request (traversal guard) — an error status
    Reject(&'static str),
    /// nothing there / not servable — an error status
    Missing,
    File(usize),
    /// directory listing of this in-root directory
    Listing(Vec<String>),
}

/// The path rules of DESIGN A.3, restated: which mount, and what the path denotes there.
fn resolve(tree: &Tree, raw_path: &str) -> (usize, Expect) {
    let (mi, e, _) = resolve_full(tree, raw_path);
    (mi, e)
}

/// `resolve` plus, on a `try_compressed` mount, the in-root pre-compressed variants
/// (coding, file index) of the file the path denotes (whether or not the plain file exists).
fn resolve_full(tree: &Tree, raw_path: &str) -> (usize, Expect, Vec<(&'static str, usize)>) {
    let raw = raw_path.split('?').next().unwrap_or("");
    let p = router_decode(raw.as_bytes());
    let (mi, tail) = MOUNTS
        .iter()
        .enumerate()
        .find_map(|(i, m)| {
            if m.prefix.is_empty() {
                Some((i, p.as_str()))
            } else if p == m.prefix {
                Some((i, ""))
            } else if p.starts_with(m.prefix) && p.as_bytes()[m.prefix.len()] == b'/' {
                Some((i, &p[m.prefix.len()..]))
            } else {
                None
            }
        })
        .unwrap();
    let m = &MOUNTS[mi];
    let dec = match files_decode(tail) {
        Some(d) => d,
        None => return (mi, Expect::Reject("not-utf8"), vec![]),
    };
    if dec.matches('/').count() != tail.matches('/').count() {
        return (mi, Expect::Reject("encoded-slash"), vec![]);
    }
    let mut comps: Vec<String> = vec![];
    for seg in dec.split('/') {
        if seg == "." {
            return (mi, Expect::Reject("dot"), vec![]);
        } else if seg == ".." {
            comps.pop();
        } else if seg.starts_with('.') && !m.hidden {
            return (mi, Expect::Reject("hidden"), vec![]);
        } else if seg.starts_with('*') {
            return (mi, Expect::Reject("star"), vec![]);
        } else if seg.ends_with(':') || seg.ends_with('<') || seg.ends_with('>') {
            return (mi, Expect::Reject("bad-end"), vec![]);
        } else if seg.is_empty() {
            continue;
        } else {
            comps.push(seg.to_string());
        }
    }
    if comps.iter().any(|c| c.contains('\0')) {
        return (mi, Expect::Missing, vec![]);
    }
    // the file whose `<name>.<ext>` siblings count as its pre-compressed variants: the denoted
    // path itself unless it is a directory (then its index file, if the mount has one)
    let mut target: Option<Vec<String>> = None;
    let e = match tree.lookup(&comps) {
        Node::File(i) => {
            target = Some(comps.clone());
            Expect::File(i)
        }
        Node::Missing => {
            target = Some(comps.clone());
            Expect::Missing
        }
        Node::Dir => {
            if let Some(ix) = m.index {
                let mut c = comps.clone();
                c.push(ix.to_string());
                target = Some(c.clone());
                match tree.lookup(&c) {
                    Node::File(i) => Expect::File(i),
                    _ => Expect::Missing,
                }
            } else if m.listing {
                Expect::Listing(comps)
            } else {
                Expect::Missing
            }
        }
    };
    let mut variants = vec![];
    if m.compressed {
        if let Some(t) = target.filter(|t| !t.is_empty()) {
            for (coding, ext) in CODINGS {
                let mut v = t.clone();
                let last = v.pop().unwrap();
                v.push(format!("{last}{ext}"));
                if let Node::File(i) = tree.lookup(&v) {
                    variants.push((coding, i));
                }
            }
        }
    }
    (mi, e, variants)
}

#[derive(Clone, Copy, Debug, PartialEq, Eq)]
enum Tri {
    Yes,
    No,
    /// the header does not parse: what it means is unspecified
    Unknown,
}

/// RFC 7231 §5.3.4: is `coding` acceptable to a request with this `Accept-Encoding`?
/// (`identity` is acceptable unless refused explicitly or by `*;q=0`; any other coding needs to be
/// listed, or covered by `*`, with a non-zero weight; no header at all accepts everything.)
fn accepts(ae: Option<&str>, coding: &str) -> Tri {
    let v = match ae {
        None => return Tri::Yes,
        Some(v) => v,
    };
    fn qvalue(s: &str) -> Option<bool> {
        // qvalue = ( "0" [ "." 0*3DIGIT ] ) / ( "1" [ "." 0*3("0") ] ) → is it non-zero?
        let (int, frac) = match s.split_once('.') {
            Some((i, f)) => (i, f),
            None => (s, ""),
        };
        if frac.len() > 3 || !frac.bytes().all(|b| b.is_ascii_digit()) {
            return None;
        }
        match int {
            "0" => Some(frac.bytes().any(|b| b != b'0')),
            "1" if frac.bytes().all(|b| b == b'0') => Some(true),
            _ => None,
        }
    }
    let mut explicit: Option<bool> = None;
    let mut star: Option<bool> = None;
    for el in v.split(',') {
        let el = el.trim_matches(|c| c == ' ' || c == '\t');
        if el.is_empty() {
            continue;
        }
        let mut parts = el.split(';');
        let name = parts.next().unwrap_or("").trim().to_ascii_lowercase();
        if name.is_empty() || !name.bytes().all(|b| b.is_ascii_alphanumeric() || b"!#$%&'*+-.^_`|~".contains(&b)) {
            return Tri::Unknown;
        }
        let mut pos = true;
        for p in parts {
            match p.trim().split_once('=') {
                Some((k, val)) if k.trim().eq_ignore_ascii_case("q") => match qvalue(val.trim()) {
                    Some(nz) => pos = nz,
                    None => return Tri::Unknown,
                },
                _ => return Tri::Unknown,
            }
        }
        let name = if name == "x-gzip" { "gzip".to_string() } else { name };
        let slot = if name == coding {
            &mut explicit
        } else if name == "*" {
            &mut star
        } else {
            continue;
        };
        match *slot {
            None => *slot = Some(pos),
            Some(p) if p == pos => {}
            Some(_) => return Tri::Unknown, // listed twice with contradicting weights
        }
    }
    match (explicit, star) {
        (Some(true), _) => Tri::Yes,
        (Some(false), _) => Tri::No,
        (None, Some(true)) => Tri::Yes,
        (None, Some(false)) => Tri::No,
        (None, None) if coding == "identity" => Tri::Yes,
        (None, None) => Tri::No,
    }
}

fn seg_class(tree: &Tree, seg: &str) -> &'static str {
    let l = seg.to_ascii_lowercase();
    if seg.is_empty() {
        "E"
    } else if seg == "." {
        "dot"
    } else if seg == ".." {
        "dd"
    } else if l.contains("%2f") {
        "encslash"
    } else if l.contains("%5c") || seg.contains('\\') {
        "bslash"
    } else if l.contains("%00") {
        "nul"
    } else if l.contains("%25") || l.contains("%%") {
        "dblenc"
    } else if l.contains("%2e") {
        "encdot"
    } else if seg == "CANARY.txt" {
        "canary"
    } else if seg == "rootx" {
        "rootx"
    } else if seg == "root" {
        "rootname"
    } else if seg.starts_with('.') {
        "hidden"
    } else if seg.starts_with('*') {
        "star"
    } else if seg.ends_with(':') || l.ends_with("%3c") || l.ends_with("%3e") || l.ends_with("%3a") {
        "badend"
    } else if !seg.is_ascii() || l.contains("%c3") || l.contains("%ff") {
        "utf8"
    } else if seg.contains('%') {
        "pct"
    } else if tree.dirs.iter().any(|d| d.last().map(|x| x == seg).unwrap_or(false)) {
        "dir"
    } else if tree.files.iter().any(|f| f.inside && f.rel.last().map(|x| x == seg).unwrap_or(false)) {
        "file"
    } else {
        "other"
    }
}

fn path_class(tree: &Tree, path: &str, mi: usize) -> String {
    let tail = path.strip_prefix(MOUNTS[mi].prefix).unwrap_or(path);
    let segs: Vec<&str> = tail.split('/').skip(1).collect();
    let mut s = String::new();
    for (i, g) in segs.iter().enumerate() {
        if i >= 6 {
            s.push_str("/…");
            break;
        }
        s.push('/');
        s.push_str(seg_class(tree, g));
    }
    s
}

// ------------------------------------------------------------------------------------------------
// Cases, execution, observation
// ------------------------------------------------------------------------------------------------

#[derive(Clone, Debug)]
struct Case {
    path: String,
    /// header values may contain `{ETAG}` (replaced by the target file's current entity-tag) and
    /// chars ≤ U+00FF standing for single bytes (obs-text)
    headers: Vec<(String, String)>,
    /// abstract, seed-independent description of the conditional headers (signature material)
    label: String,
    phase: &'static str,
}

impl Case {
    fn get(&self, name: &str) -> Option<&str> {
        self.headers.iter().find(|(n, _)| n.eq_ignore_ascii_case(name)).map(|(_, v)| v.as_str())
    }
    fn replay(&self) -> Value {
        json!({"path": self.path, "headers": self.headers, "label": self.label})
    }
}

#[derive(Clone, Debug, Default)]
struct Resp {
    status: u16,
    content_range: Vec<String>,
    content_type: String,
    etag: Option<String>,
    last_modified: Option<String>,
    accept_ranges: bool,
    content_encoding: Vec<String>,
    vary_accept_encoding: bool,
    /// declared body size: Some(n) for a sized body, None for none/stream
    size: Option<u64>,
    size_kind: &'static str,
    body_len: u64,
    body_fnv: u64,
    /// first bytes of the body (all of it when ≤ 8 KiB)
    head: Vec<u8>,
    whole: bool,
    chunks: u64,
    max_chunk: u64,
    body_err: Option<String>,
}

#[derive(Clone, Debug)]
enum Obs {
    Resp(Resp),
    Panic(String),
    UriRejected,
    HeaderRejected,
    ServiceErr(u16),
}

fn latin1(s: &str) -> Vec<u8> {
    if s.chars().all(|c| (c as u32) <= 0xff) {
        s.chars().map(|c| c as u32 as u8).collect()
    } else {
        s.as_bytes().to_vec()
    }
}

/// A future whose every poll runs under `report::guard`.
struct GuardFut<F>(Pin<Box<F>>);

impl<F: Future> Future for GuardFut<F> {
    type Output = Result<F::Output, String>;
    fn poll(mut self: Pin<&mut Self>, cx: &mut Context<'_>) -> Poll<Self::Output> {
        let inner = &mut self.0;
        match guard(|| inner.as_mut().poll(cx)) {
            Ok(Poll::Ready(v)) => Poll::Ready(Ok(v)),
            Ok(Poll::Pending) => Poll::Pending,
            Err(m) => Poll::Ready(Err(m)),
        }
    }
}

const BODY_CAP: u64 = 8 << 20;

async fn exec_one<S>(app: &S, path: &str, headers: &[(String, String)]) -> Obs
where
    S: Service<Request, Response = ServiceResponse<BoxBody>, Error = actix_web::Error>,
{
    let uri = match Uri::try_from(path) {
        Ok(u) => u,
        Err(_) => return Obs::UriRejected,
    };
    drop(uri);
    let mut tr = test::TestRequest::get().uri(path);
    for (n, v) in headers {
        let name = match HeaderName::from_bytes(n.as_bytes()) {
            Ok(n) => n,
            Err(_) => return Obs::HeaderRejected,
        };
        let val = match HeaderValue::from_bytes(&latin1(v)) {
            Ok(v) => v,
            Err(_) => return Obs::HeaderRejected,
        };
        tr = tr.append_header((name, val));
    }
    let req = tr.to_request();
    let sres = match app.call(req).await {
        Ok(r) => r,
        Err(e) => return Obs::ServiceErr(e.as_response_error().status_code().as_u16()),
    };
    let (_req, res) = sres.into_parts();
    let mut r = Resp { status: res.status().as_u16(), ..Default::default() };
    let h = res.headers();
    r.content_range = h.get_all("content-range").map(|v| String::from_utf8_lossy(v.as_bytes()).into_owned()).collect();
    r.content_type = h.get("content-type").map(|v| String::from_utf8_lossy(v.as_bytes()).into_owned()).unwrap_or_default();
    r.etag = h.get("etag").map(|v| String::from_utf8_lossy(v.as_bytes()).into_owned());
    r.last_modified = h.get("last-modified").map(|v| String::from_utf8_lossy(v.as_bytes()).into_owned());
    r.accept_ranges = h.get("accept-ranges").map(|v| v.as_bytes() == b"bytes").unwrap_or(false);
    r.content_encoding = h.get_all("content-encoding").map(|v| String::from_utf8_lossy(v.as_bytes()).to_ascii_lowercase()).collect();
    r.vary_accept_encoding = h.get_all("vary").any(|v| String::from_utf8_lossy(v.as_bytes()).to_ascii_lowercase().contains("accept-encoding"));
    let mut body = res.into_body();
    match body.size() {
        BodySize::None => r.size_kind = "none",
        BodySize::Sized(n) => {
            r.size_kind = "sized";
            r.size = Some(n);
        }
        BodySize::Stream => r.size_kind = "stream",
    }
    let mut hash_buf: Vec<u8> = vec![];
    let mut big = false;
    loop {
        let item = std::future::poll_fn(|cx| Pin::new(&mut body).poll_next(cx)).await;
        match item {
            None => break,
            Some(Err(e)) => {
                r.body_err = Some(e.to_string());
                break;
            }
            Some(Ok(b)) => {
                r.chunks += 1;
                r.max_chunk = r.max_chunk.max(b.len() as u64);
                r.body_len += b.len() as u64;
                if !big {
                    hash_buf.extend_from_slice(&b);
                } else {
                    // fold chunk hashes for bodies beyond the cap: only their length matters then
                    r.body_fnv ^= fnv(&b);
                }
                if r.body_len > BODY_CAP {
                    big = true;
                }
                if r.chunks > 4096 || r.body_len > 4 * BODY_CAP {
                    r.body_err = Some("body exceeds every file in the tree (harness cap)".into());
                    break;
                }
            }
        }
    }
    if !big {
        r.body_fnv = fnv(&hash_buf);
    }
    r.whole = hash_buf.len() <= 8192 && !big;
    hash_buf.truncate(if r.whole { 8192 } else { 64 });
    r.head = hash_buf;
    Obs::Resp(r)
}

/// Run a batch of requests against one application instance (rebuilt after a panic).
fn exec_batch(root: PathBuf, reqs: Vec<(String, Vec<(String, String)>)>, progress: Arc<AtomicU64>) -> Vec<Obs> {
    run_virtual(async move {
        let mut app = make_app(root.clone()).await;
        let mut out = Vec::with_capacity(reqs.len());
        for (path, headers) in &reqs {
            let res = GuardFut(Box::pin(exec_one(&app, path, headers))).await;
            let o = match res {
                Ok(o) => o,
                Err(msg) => {
                    app = make_app(root.clone()).await;
                    Obs::Panic(msg)
                }
            };
            progress.fetch_add(1, SeqCst);
            out.push(o);
        }
        out
    })
}

// ------------------------------------------------------------------------------------------------
// The oracle
// ------------------------------------------------------------------------------------------------

struct Viol {
    class: &'static str,
    sig: String,
    detail: String,
}

struct World {
    tree: Tree,
    /// per in-root file: validators as a client sees them (baseline GET)
    vals: BTreeMap<usize, (String, Validators)>,
}

impl World {
    fn etag_of(&self, fi: usize) -> &str {
        self.vals.get(&fi).map(|v| v.0.as_str()).unwrap_or("\"unknown\"")
    }
    /// substitute `{ETAG}` for the target of `case` (if it denotes a file)
    fn materialize(&self, c: &Case) -> Vec<(String, String)> {
        let (_, exp, variants) = resolve_full(&self.tree, &c.path);
        let target = match exp {
            Expect::File(i) => Some(i),
            _ => None,
        };
        c.headers
            .iter()
            .map(|(n, v)| {
                // `{ETAG.gz}` / `{ETAG.br}` / `{ETAG.zst}`: the entity-tag of that variant of the target
                let mut v = v.clone();
                for (coding, ext) in CODINGS {
                    let ph = format!("{{ETAG{ext}}}");
                    if v.contains(&ph) {
                        let e = variants.iter().find(|(k, _)| *k == coding).map(|&(_, i)| self.etag_of(i)).unwrap_or("\"no-variant\"");
                        v = v.replace(&ph, e);
                    }
                }
                let v = if v.contains(ETAG) {
                    v.replace(ETAG, target.map(|i| self.etag_of(i)).unwrap_or("\"no-target\""))
                } else {
                    v.clone()
                };
                (n.clone(), v)
            })
            .collect()
    }
}

fn identify(tree: &Tree, r: &Resp, s: u64, e_incl: Option<u64>) -> String {
    // which file's bytes [s..] does the body look like?
    let mut hits = vec![];
    for f in &tree.files {
        let end = match e_incl {
            Some(e) => e + 1,
            None => f.content.len() as u64,
        };
        if end as usize <= f.content.len() && s <= end && end - s == r.body_len {
            let sl = &f.content[s as usize..end as usize];
            if fnv(sl) == r.body_fnv {
                hits.push(format!("{}{} (id {:04x})", if f.inside { "root/" } else { "OUTSIDE:" }, f.rel.join("/"), f.id));
            }
        }
    }
    if hits.is_empty() {
        format!("no file of the tree (body starts {:?}, {} bytes)", esc_short(&r.head, 48), r.body_len)
    } else {
        hits.join(" | ")
    }
}

fn body_is(r: &Resp, want: &[u8]) -> bool {
    r.body_len == want.len() as u64 && r.body_fnv == fnv(want) && (!r.whole || r.head == want)
}

fn listing_names(body: &str) -> Option<BTreeSet<String>> {
    let mut out = BTreeSet::new();
    let mut rest = body;
    while let Some(i) = rest.find("<li><a href=\"") {
        rest = &rest[i + 13..];
        let j = rest.find("\">")?;
        rest = &rest[j + 2..];
        let k = rest.find("</a></li>")?;
        out.insert(rest[..k].trim_end_matches('/').to_string());
        rest = &rest[k..];
    }
    Some(out)
}

/// Judge one observed case.  Returns the outcome label (for signatures/counters) or a violation.
fn judge(w: &World, c: &Case, headers: &[(String, String)], obs: &Obs, rep: &mut Reporter) -> Result<String, Viol> {
    let tree = &w.tree;
    let (mi, exp, variants) = resolve_full(tree, &c.path);
    let m = &MOUNTS[mi];
    let pclass = path_class(tree, &c.path, mi);
    let get = |name: &str| headers.iter().find(|(n, _)| n.eq_ignore_ascii_case(name)).map(|(_, v)| v.as_str());
    let range_hdr = get("range");
    let ae = get("accept-encoding");
    let mk_sig = |exp: &Expect, enc: &str| {
        let file_len = match exp {
            Expect::File(i) => Some(tree.files[*i].content.len() as u64),
            _ => None,
        };
        format!(
            "mount={} path={} len={} range={} cond={}{}",
            if m.prefix.is_empty() { "/" } else { m.prefix },
            pclass,
            file_len.map(|l| l.to_string()).unwrap_or_else(|| "-".into()),
            file_len.map(|l| eval_range(range_hdr, l).shape).unwrap_or_else(|| if range_hdr.is_some() { "n/a".into() } else { "absent".into() }),
            c.label,
            if enc.is_empty() { String::new() } else { format!(" enc={enc}") }
        )
    };
    let sig0 = mk_sig(&exp, "");
    let viol = |class: &'static str, detail: String| Viol { class, sig: sig0.clone(), detail };

    let r = match obs {
        Obs::Panic(msg) => {
            return Err(Viol {
                class: "panic",
                sig: panic_site(msg),
                detail: format!("panic while serving GET {} {:?}: {msg}", c.path, headers),
            })
        }
        Obs::UriRejected => {
            rep.count("uri_rejected_by_http_crate", 1);
            rep.count(if c.path.is_ascii() { "uri_rejected:ascii" } else { "uri_rejected:raw_non_ascii" }, 1);
            return Ok("uri-rejected".into());
        }
        Obs::HeaderRejected => {
            rep.count("header_value_rejected_by_http_crate", 1);
            return Ok("header-rejected".into());
        }
        Obs::ServiceErr(st) => {
            rep.count("service_err", 1);
            if *st >= 400 && !matches!(exp, Expect::File(_) | Expect::Listing(_)) {
                return Ok(format!("svc-err-{st}"));
            }
            return Err(viol("status", format!("service returned Err (status {st}) for {}; model expects {:?}", c.path, exp)));
        }
        Obs::Resp(r) => r,
    };
    rep.count(&format!("status:{}", r.status), 1);
    if let Some(e) = &r.body_err {
        return Err(viol(
            "body-error",
            format!(
                "GET {} {:?}: status {} declared size {:?} but the body stream failed after {} bytes in {} chunks: {e}",
                c.path, headers, r.status, r.size, r.body_len, r.chunks
            ),
        ));
    }
    if r.max_chunk > 65_536 {
        rep.count("chunk_over_64k", 1);
    }
    rep.max("body_chunks", r.chunks);

    // ---- Content-Encoding: only the pre-compressed branch of a `try_compressed` mount sets it, and
    // then the representation is the in-root variant, not the plain file
    let plain_exp = exp.clone();
    let mut exp = exp;
    let mut enc = "";
    if !r.content_encoding.is_empty() {
        let who_is_it = || {
            let (s, e) = match (r.status, r.content_range.first().and_then(|v| parse_content_range(v))) {
                (206, Some(ContentRange::Range(s, e, _))) => (s, Some(e)),
                _ => (0, None),
            };
            identify(tree, r, s, e)
        };
        let cand = match r.content_encoding.as_slice() {
            [one] if m.compressed => variants.iter().find(|(k, _)| k == one).copied(),
            _ => None,
        };
        match cand {
            Some((coding, vi)) => {
                match accepts(ae, coding) {
                    Tri::Yes => {}
                    Tri::Unknown => rep.count("tolerated:variant_served_for_unparsable_accept_encoding", 1),
                    Tri::No => {
                        return Err(viol(
                            "encoding",
                            format!("GET {} {:?}: answered {} with Content-Encoding {coding}, a coding the request's Accept-Encoding does not accept", c.path, headers, r.status),
                        ))
                    }
                }
                exp = Expect::File(vi);
                enc = coding;
            }
            None => {
                let who = if matches!(r.status, 200 | 206) { who_is_it() } else { "-".into() };
                let class = if who.contains("OUTSIDE") && !who.contains("root/") { "escape" } else { "encoding" };
                return Err(viol(
                    class,
                    format!(
                        "GET {} {:?}: answered {} with Content-Encoding {:?}, but the path (model: {:?}) has no such in-root pre-compressed variant on mount {:?} (variants: {:?}); body is of {who}",
                        c.path,
                        headers,
                        r.status,
                        r.content_encoding,
                        plain_exp,
                        m.prefix,
                        variants.iter().map(|(k, i)| format!("{k}:{}", tree.files[*i].rel.join("/"))).collect::<Vec<_>>()
                    ),
                ));
            }
        }
    }
    let sig1 = mk_sig(&exp, enc);
    let viol = |class: &'static str, detail: String| Viol { class, sig: sig1.clone(), detail };
    let file_len = match exp {
        Expect::File(i) => Some(tree.files[i].content.len() as u64),
        _ => None,
    };
    let rv = file_len.map(|l| eval_range(range_hdr, l));
    if m.compressed {
        let acceptable: Vec<&str> = variants.iter().filter(|(k, _)| ae.is_some() && accepts(ae, k) == Tri::Yes).map(|(k, _)| *k).collect();
        if !enc.is_empty() {
            rep.count(&format!("compressed:variant_served:{enc}"), 1);
            if !r.vary_accept_encoding {
                rep.count("compressed:variant_without_vary", 1);
            }
            if matches!(plain_exp, Expect::Missing) {
                rep.count("compressed:variant_served_plain_file_absent", 1);
            }
        } else if r.status < 400 || r.status == 412 || r.status == 416 {
            if !acceptable.is_empty() {
                let lab = c.label.split(',').find(|kv| kv.starts_with("ae=")).unwrap_or("ae=?");
                rep.count(&format!("tolerated:plain_served_though_variant_acceptable:{lab}"), 1);
            }
            if accepts(ae, "identity") == Tri::No {
                rep.count("tolerated:plain_served_though_identity_refused", 1);
            }
        } else if !acceptable.is_empty() && matches!(plain_exp, Expect::Missing) {
            let lab = c.label.split(',').find(|kv| kv.starts_with("ae=")).unwrap_or("ae=?");
            rep.count(&format!("tolerated:error_though_variant_acceptable:{lab}"), 1);
        }
    }

    // ---- directory listing
    if let (Expect::Listing(dir), 200) = (&exp, r.status) {
        let body = String::from_utf8_lossy(&r.head).into_owned();
        if !r.whole || !r.content_type.starts_with("text/html") {
            let who = identify(tree, r, 0, None);
            let class = if who.contains("OUTSIDE") && !who.contains("root/") { "escape" } else { "resolve" };
            return Err(viol(class, format!("GET {}: expected a listing of root/{}, got a 200 of type {:?}: {who}", c.path, dir.join("/"), r.content_type)));
        }
        let names = listing_names(&body).unwrap_or_default();
        let want = tree.children(dir);
        if names != want {
            let class = if names.iter().any(|n| n == "CANARY.txt" || n == "rootx" || n == "root") { "escape" } else { "resolve" };
            return Err(viol(class, format!("GET {}: listing shows {:?}, directory root/{} has {:?}", c.path, names, dir.join("/"), want)));
        }
        rep.count("listing_checked", 1);
        return Ok("listing".into());
    }

    // ---- error statuses
    if r.status >= 400 && r.status != 412 && r.status != 416 {
        // an obs-text Range value cannot be read as a string: 400 is a fair answer to it
        let range_obs_text = range_hdr.map(|v| !latin1(v).iter().all(|&b| b == b'\t' || (32..127).contains(&b))).unwrap_or(false);
        return match exp.clone() {
            Expect::File(_) if r.status == 400 && range_obs_text => {
                rep.count("tolerated:400_for_obs_text_range", 1);
                Ok("file:400-obs-text".into())
            }
            Expect::File(i) => Err(viol(
                "resolve-miss",
                format!("GET {} denotes the in-root file {} but was answered {}", c.path, tree.files[i].rel.join("/"), r.status),
            )),
            Expect::Listing(d) => Err(viol("resolve-miss", format!("GET {} denotes the in-root directory {:?} on the listing mount but was answered {}", c.path, d, r.status))),
            Expect::Reject(why) => {
                rep.count(&format!("rejected:{why}"), 1);
                if r.status >= 500 {
                    rep.count("error_5xx", 1);
                }
                Ok(format!("reject-{why}-{}", r.status))
            }
            Expect::Missing => {
                if r.status >= 500 {
                    rep.count("error_5xx", 1);
                }
                Ok(format!("missing-{}", r.status))
            }
        };
    }
    if !matches!(r.status, 200 | 206 | 304 | 412 | 416) {
        return Err(viol("status", format!("GET {} {:?}: status {} is outside 200/206/304/412/416/4xx/5xx", c.path, headers, r.status)));
    }

    // ---- from here on the response claims to be about a representation
    let fi = match exp {
        Expect::File(i) => i,
        _ if !matches!(r.status, 200 | 206) => {
            return Err(viol("status", format!("GET {} {:?}: model says {:?} (an error status), server answered {}", c.path, headers, exp, r.status)));
        }
        _ => {
            // the model says there is nothing to serve: a content-bearing answer is an escape or a
            // resolution difference, told apart by whose bytes came back
            let (s, e) = match (r.status, r.content_range.first().and_then(|v| parse_content_range(v))) {
                (206, Some(ContentRange::Range(s, e, _))) => (s, Some(e)),
                _ => (0, None),
            };
            let who = identify(tree, r, s, e);
            let class = if who.contains("root/") && !who.contains("OUTSIDE") { "resolve" } else { "escape" };
            return Err(viol(class, format!("GET {} {:?}: model says {:?} (an error status), server answered {} with body of {}", c.path, headers, exp, r.status, who)));
        }
    };
    let file = &tree.files[fi];
    let len = file.content.len() as u64;
    let rv = rv.unwrap();
    let cond = CondHeaders {
        if_match: get("if-match").map(String::from),
        if_none_match: get("if-none-match").map(String::from),
        if_unmodified_since: get("if-unmodified-since").map(String::from),
        if_modified_since: get("if-modified-since").map(String::from),
        if_range: get("if-range").map(String::from),
    };
    let vals = w.vals.get(&fi).map(|v| v.1.clone()).unwrap_or(Validators { etag: None, last_modified: None });
    let cv = eval_cond(&cond, &vals);
    for t in &cv.widened {
        rep.count(&format!("cond_set_widened:{t}"), 1);
    }
    if let (Some(e), Some((base, _))) = (&r.etag, w.vals.get(&fi)) {
        if e != base {
            rep.count("etag_differs_from_baseline", 1);
        }
    }
    let ctx_s = format!("GET {} {:?} (file {} len {len})", c.path, headers, file.rel.join("/"));

    match r.status {
        412 | 304 => {
            let allowed = if r.status == 412 { cv.allow_412 } else { cv.allow_304 };
            if !allowed {
                return Err(viol("cond", format!("{ctx_s}: answered {} but RFC 7232 §6 evaluation yields {:?} (412 allowed: {}, 304 allowed: {})", r.status, cv.rfc, cv.allow_412, cv.allow_304)));
            }
            if r.body_len != 0 {
                return Err(viol("cond-body", format!("{ctx_s}: {} with a {}-byte body", r.status, r.body_len)));
            }
            if cv.rfc != if r.status == 412 { "412" } else { "304" } {
                rep.count(&format!("cond_deviation:rfc_{}_got_{}", cv.rfc, r.status), 1);
            }
            rep.count(&format!("cond:{}", r.status), 1);
            Ok(format!("{}:rfc-{}{}", r.status, cv.rfc, if enc.is_empty() { String::new() } else { format!(":enc-{enc}") }))
        }
        416 => {
            match r.content_range.as_slice() {
                [v] if parse_content_range(v) == Some(ContentRange::Unsatisfied(len)) => {}
                other => return Err(viol("content-range", format!("{ctx_s}: 416 with Content-Range {:?}, expected \"bytes */{len}\"", other))),
            }
            if r.body_len != 0 {
                return Err(viol("range-body", format!("{ctx_s}: 416 with a {}-byte body", r.body_len)));
            }
            let how = range_allows(&rv, &RangeAnswer::NotSatisfiable).map_err(|why| viol("range", format!("{ctx_s}: 416 — {why} (model: {:?} {:?})", rv.kind, rv.sat)))?;
            rep.count(&format!("range:{how}"), 1);
            if cv.rfc != "normal" {
                // precedence: RFC evaluates preconditions first; a 416 here is still inside the property's set
                rep.count("tolerated:416_before_precondition", 1);
            }
            if cv.if_range_matches == Some(false) {
                rep.count("if_range:mismatch_range_still_evaluated", 1);
            }
            Ok(format!("416:{how}:rfc-{}{}", cv.rfc, if enc.is_empty() { String::new() } else { format!(":enc-{enc}") }))
        }
        200 => {
            if !cv.allow_normal {
                return Err(viol("cond", format!("{ctx_s}: answered 200 but RFC 7232 §6 evaluation yields {:?}", cv.rfc)));
            }
            if !r.content_range.is_empty() {
                return Err(viol("content-range", format!("{ctx_s}: 200 carrying Content-Range {:?}", r.content_range)));
            }
            if !body_is(r, &file.content) {
                let who = identify(tree, r, 0, None);
                let class = if who.contains("OUTSIDE") { "escape" } else if who.contains("root/") { "resolve" } else { "body" };
                return Err(viol(class, format!("{ctx_s}: 200 whose body is not the file: {} bytes, looks like {who}", r.body_len)));
            }
            if r.size != Some(len) {
                return Err(viol("length", format!("{ctx_s}: 200 declares body size {:?} ({}), file has {len}", r.size, r.size_kind)));
            }
            let how = if cv.if_range_matches == Some(false) && range_hdr.is_some() {
                rep.count("if_range:mismatch_range_ignored", 1);
                "if-range-mismatch:200"
            } else {
                range_allows(&rv, &RangeAnswer::Full).map_err(|why| viol("range", format!("{ctx_s}: 200 — {why} (model: {:?} {:?})", rv.kind, rv.sat)))?
            };
            rep.count(&format!("range:{how}"), 1);
            if cv.rfc != "normal" {
                rep.count(&format!("cond_deviation:rfc_{}_got_200", cv.rfc), 1);
            }
            if !r.accept_ranges {
                rep.count("200_without_accept_ranges", 1);
            }
            Ok(format!("200:{how}:rfc-{}{}", cv.rfc, if enc.is_empty() { String::new() } else { format!(":enc-{enc}") }))
        }
        206 => {
            if !cv.allow_normal {
                return Err(viol("cond", format!("{ctx_s}: answered 206 but RFC 7232 §6 evaluation yields {:?}", cv.rfc)));
            }
            let (s, e, total) = match r.content_range.as_slice() {
                [v] => match parse_content_range(v) {
                    Some(ContentRange::Range(s, e, t)) => (s, e, t),
                    _ => return Err(viol("content-range", format!("{ctx_s}: 206 with malformed Content-Range {:?}", v))),
                },
                other => return Err(viol("content-range", format!("{ctx_s}: 206 with {} Content-Range headers {:?}", other.len(), other))),
            };
            if !(s <= e && e < total && total == len) {
                return Err(viol("content-range", format!("{ctx_s}: 206 with impossible Content-Range \"bytes {s}-{e}/{total}\" for a {len}-byte file")));
            }
            let how = range_allows(&rv, &RangeAnswer::Partial(s, e)).map_err(|why| viol("range", format!("{ctx_s}: 206 bytes {s}-{e}/{total} — {why} (model: {:?} {:?})", rv.kind, rv.sat)))?;
            if !body_is(r, &file.content[s as usize..=e as usize]) {
                let who = identify(tree, r, s, Some(e));
                let class = if who.contains("OUTSIDE") && !who.contains("root/") { "escape" } else { "range-body" };
                return Err(viol(class, format!("{ctx_s}: 206 bytes {s}-{e}/{total} but the body ({} bytes, starts {:?}) is not that slice of the file; looks like {who}", r.body_len, esc_short(&r.head, 40))));
            }
            if r.size != Some(e - s + 1) {
                return Err(viol("length", format!("{ctx_s}: 206 bytes {s}-{e}/{total} declares body size {:?} ({}), expected {}", r.size, r.size_kind, e - s + 1)));
            }
            rep.count(&format!("range:{how}"), 1);
            if let Kind::Ignored(why) = &rv.kind {
                rep.count(&format!("range_invalid_but_served_206:{why:?}"), 1);
                rep.sample("invalid-range-served-206", json!({"range": range_hdr, "len": len, "content_range": r.content_range}));
            }
            match cv.if_range_matches {
                Some(false) => rep.count("if_range:mismatch_range_still_served_206", 1),
                Some(true) => rep.count("if_range:match_206", 1),
                None => {}
            }
            if cv.rfc != "normal" {
                rep.count(&format!("cond_deviation:rfc_{}_got_206", cv.rfc), 1);
            }
            Ok(format!("206:{how}:rfc-{}{}", cv.rfc, if enc.is_empty() { String::new() } else { format!(":enc-{enc}") }))
        }
        _ => unreachable!(),
    }
}

// ------------------------------------------------------------------------------------------------
// Workloads
// ------------------------------------------------------------------------------------------------

/// segment alphabet of the path enumeration
const SEGS: &[&str] = &[
    // names
    "a.txt", "sub", "deep", "b.txt", "index.html", "c.txt", "emptydir",
    // dot segments, plain and encoded
    ".", "..", "%2e", "%2E%2e", ".%2e", "...", "%2e%2e%2f", "%252e%252e", "%%32e%%32e",
    // separators
    "%2f", "..%2f", "%2F..", "%%32f", "%5c", "..%5c..", "\\", "..\\", "x%5cy.txt",
    // empty, NUL, UTF-8, broken escapes
    "", "%00", "a.txt%00", "\u{fc}n\u{ef}", "%C3%BCn%C3%AF", "%c3%a9.txt", "%ff", "%", "%2", "%zz",
    // hidden
    ".hidden", ".hid", "x.txt",
    // what lies outside
    "rootx", "CANARY.txt", "root",
    // reserved starts/ends
    "*", "*a", "a:", "a%3C", "a%3E", "sp%20ace.txt",
];

/// the core of the alphabet (deeper exhaustive levels)
const SEGS_CORE: &[&str] = &["a.txt", "sub", "deep", "b.txt", "..", "%2e%2e", ".", "", "%2f", "%5c", ".hid", "rootx", "CANARY.txt", "x.txt", "..%2f", "%00"];
const SEGS_MIN: &[&str] = &["a.txt", "sub", "b.txt", "..", "%2E%2e", "", "rootx", "CANARY.txt"];

fn nums_for(len: u64) -> Vec<String> {
    let mut v: Vec<u128> = vec![0, 1, 2, 65_535, 65_536, 65_537, 131_071, 131_072, 131_073, 1 << 31, 1 << 32, (1 << 63) - 1, 1 << 63, u64::MAX as u128 - 1, u64::MAX as u128, 1 << 64];
    for d in [-2i128, -1, 0, 1] {
        let x = len as i128 + d;
        if x >= 0 {
            v.push(x as u128);
        }
    }
    v.sort_unstable();
    v.dedup();
    let mut out: Vec<String> = v.iter().map(|x| x.to_string()).collect();
    out.push("99999999999999999999999999".into());
    out.push("00000000000000000000005".into());
    out
}

fn range_headers(len: u64) -> Vec<String> {
    let nums = nums_for(len);
    let mut out = vec![];
    for a in &nums {
        for b in &nums {
            out.push(format!("bytes={a}-{b}"));
        }
        out.push(format!("bytes={a}-"));
        out.push(format!("bytes=-{a}"));
    }
    for s in ["bytes= 0-4", "bytes=0-4 ", "bytes=0 - 4", "bytes=\t0-4", "Bytes=0-4", "BYTES=-1", "bytes=- 1", "bytes= -1", "bytes=0- "] {
        out.push(s.to_string());
    }
    let l = len.to_string();
    let lm1 = len.saturating_sub(1).to_string();
    let specs: Vec<String> = vec!["0-0".into(), "-1".into(), "1-".into(), format!("{l}-"), format!("0-{l}"), format!("{lm1}-{lm1}"), "-0".into(), "5-4".into(), "abc".into(), "".into(), "18446744073709551616-".into()];
    for a in &specs {
        for b in &specs {
            out.push(format!("bytes={a},{b}"));
            out.push(format!("bytes={a}, {b}"));
        }
    }
    out.push(format!("bytes={l}-,{l}-,0-0"));
    out.push("bytes=0-0,1-1,2-2,3-3".to_string());
    out.push(format!("bytes={}0-0", "0-0,".repeat(200)));
    out.push(format!("bytes=0-{}", "9".repeat(400)));
    out.push(format!("bytes=-{}", "9".repeat(400)));
    for s in [
        "", "bytes", "bytes=", "bytes=,", "bytes= , ,", "bytes=-", "bytes=--5", "bytes=5--", "bytes=a-b", "bytes=0-5;q=1", "bytes=0x10-0x20", "bytes=+1-+5", "bytes=1.5-2",
        "items=0-5", "bytes 0-5", "bytes:0-5", "=0-5", "bytes==0-5", "bytes=0-5-6", "bytes=0-\u{e9}", "none", "bytes=-1-", "bytes=1-2-", "bytes=0–5", "bytes=٠-٥",
    ] {
        out.push(s.to_string());
    }
    out
}

fn tag_opts() -> Vec<(&'static str, Option<String>)> {
    vec![
        ("none", None),
        ("any", Some("*".into())),
        ("exact", Some(ETAG.into())),
        ("weak", Some(format!("W/{ETAG}"))),
        ("other", Some("\"nope\"".into())),
        ("list", Some(format!("\"x\", {ETAG}"))),
        ("garbage", Some("nope-unquoted".into())),
    ]
}

fn date_opts() -> Vec<(&'static str, Option<String>)> {
    vec![
        ("none", None),
        ("lm-1", Some(fmt_http_date(MTIME - 1, DateFmt::Imf))),
        ("lm", Some(fmt_http_date(MTIME, DateFmt::Imf))),
        ("lm+1", Some(fmt_http_date(MTIME + 1, DateFmt::Imf))),
        ("lm-rfc850", Some(fmt_http_date(MTIME, DateFmt::Rfc850))),
        ("lm-1-asctime", Some(fmt_http_date(MTIME - 1, DateFmt::Asctime))),
        ("garbage", Some("yesterday".into())),
    ]
}

fn if_range_opts() -> Vec<(&'static str, Option<String>)> {
    vec![
        ("none", None),
        ("etag", Some(ETAG.into())),
        ("other", Some("\"nope\"".into())),
        ("lm", Some(fmt_http_date(MTIME, DateFmt::Imf))),
        ("lm-1", Some(fmt_http_date(MTIME - 1, DateFmt::Imf))),
    ]
}

/// Accept-Encoding variants (label, value)
fn ae_opts() -> Vec<(&'static str, Option<&'static str>)> {
    vec![
        ("none", None),
        ("gzip", Some("gzip")),
        ("br", Some("br")),
        ("zstd", Some("zstd")),
        ("star", Some("*")),
        ("gzip-q0", Some("gzip;q=0")),
        ("several", Some("br;q=0.5, gzip;q=0.8, zstd;q=0.1")),
        ("all-equal", Some("gzip, br, zstd")),
        ("gzip-q0-star", Some("gzip;q=0, *")),
        ("star-q0", Some("*;q=0")),
        ("identity-q0-gzip", Some("identity;q=0, gzip")),
        ("identity", Some("identity")),
        ("deflate", Some("deflate")),
        ("upper", Some("GZIP")),
        ("x-gzip", Some("x-gzip")),
        ("empty", Some("")),
        ("garbage", Some("gzip;q=abc")),
        ("tiny-q", Some("zstd;q=0.001")),
        ("only-star-positive", Some("br;q=0, gzip;q=0, *;q=0.5")),
    ]
}
/// the labels of the reduced Accept-Encoding set used on the larger enumerations
const AE_CORE: &[&str] = &["none", "gzip", "br", "star", "several", "gzip-q0", "star-q0"];

/// segment alphabet of the pre-compressed phase: names with and without variants, names that only
/// exist as look-alikes outside the root, and the segments that lead back to the root itself
const SEGS_CMP: &[&str] = &[
    "a.txt", "sub", "b.txt", "index.html", "only.txt", "big.bin", "empty.bin", "emptydir", "deep", "a.txt.gz", "sub.gz", "root", "root.gz", "rootx", "rootx.gz", "CANARY.txt",
    "CANARY.txt.gz", "..", "%2e%2e", ".", "", "%2f", ".hidden", ".hidden.gz", "%00",
];

fn file_path(mount: &str, rel: &str) -> String {
    format!("{mount}/{rel}")
}

fn random_range(rng: &mut Rng, len: u64) -> String {
    let num = |rng: &mut Rng| -> String {
        match rng.below(10) {
            0 => "0".into(),
            1 => len.saturating_sub(1).to_string(),
            2 => len.to_string(),
            3 => (len + 1 + rng.below(5) as u64).to_string(),
            4 => [65_535u64, 65_536, 65_537, 131_072][rng.below(4)].to_string(),
            5 => ["9223372036854775807", "9223372036854775808", "18446744073709551615", "18446744073709551616", "340282366920938463463374607431768211456"][rng.below(5)].into(),
            6 => format!("{:03}", rng.below(1000)),
            _ => (rng.next() % (len + 2)).to_string(),
        }
    };
    let n = if rng.chance(7, 10) { 1 } else { rng.range(2, 4) };
    let mut specs = vec![];
    for _ in 0..n {
        let s = match rng.below(12) {
            0..=4 => {
                let a = num(rng);
                let b = num(rng);
                format!("{a}-{b}")
            }
            5 | 6 => format!("{}-", num(rng)),
            7 | 8 => format!("-{}", num(rng)),
            9 => {
                // ordered pair inside the file
                let a = rng.next() % (len + 1);
                let b = a + rng.next() % (len + 1 - a.min(len));
                format!("{a}-{b}")
            }
            10 => "".into(),
            _ => ["x", "1-2-3", "--1", "1", "-", "0-a", "0x1-2"][rng.below(7)].into(),
        };
        specs.push(s);
    }
    let sep = *rng.pick(&[",", ", ", " ,", ",,", " , "]);
    let unit = if rng.chance(1, 25) { *rng.pick(&["Bytes", "BYTES", "items", "bytes "]) } else { "bytes" };
    let lead = if rng.chance(1, 20) { " " } else { "" };
    format!("{unit}={lead}{}", specs.join(sep))
}

fn random_case(w: &World, rng: &mut Rng) -> Case {
    let tree = &w.tree;
    let mount = MOUNTS[rng.below(MOUNTS.len())].prefix;
    let mut headers = vec![];
    let mut label = String::from("-");
    let path;
    if rng.chance(1, 2) {
        // a decorated path to a real file (so that the header clauses are reached through odd paths)
        let inside: Vec<&FileEnt> = tree.files.iter().filter(|f| f.inside && f.rel.iter().all(|c| c.is_ascii() && !c.contains('\\') && !c.contains(' '))).collect();
        let f = inside[rng.below(inside.len())];
        let mut segs: Vec<String> = vec![];
        for c in &f.rel {
            match rng.below(8) {
                0 => {
                    segs.push("sub".into());
                    segs.push("..".into());
                }
                1 => segs.push("".into()),
                2 => {
                    segs.push("zz".into());
                    segs.push("%2e%2E".into());
                }
                3 => {
                    segs.push("..".into());
                }
                _ => {}
            }
            if rng.chance(1, 6) {
                // percent-encode the first character of the component
                let b = c.as_bytes()[0];
                segs.push(format!("%{:02x}{}", b, &c[1..]));
            } else {
                segs.push(c.clone());
            }
        }
        path = format!("{mount}/{}", segs.join("/"));
        let len = f.content.len() as u64;
        if rng.chance(3, 4) {
            headers.push(("Range".to_string(), random_range(rng, len)));
        }
        if rng.chance(1, 2) {
            let tags = tag_opts();
            let dates = date_opts();
            let irs = if_range_opts();
            let mut l = vec![];
            for (name, opts) in [("If-Match", &tags), ("If-None-Match", &tags), ("If-Unmodified-Since", &dates), ("If-Modified-Since", &dates), ("If-Range", &irs)] {
                if rng.chance(1, 3) {
                    let (lab, v) = &opts[rng.range(1, opts.len() - 1)];
                    headers.push((name.to_string(), v.clone().unwrap()));
                    l.push(format!("{name}={lab}"));
                }
            }
            if !l.is_empty() {
                label = l.join(",");
            }
        }
    } else {
        let depth = rng.range(1, 5);
        let alpha = if rng.chance(1, 3) { SEGS_CMP } else { SEGS };
        let segs: Vec<&str> = (0..depth).map(|_| *rng.pick(alpha)).collect();
        path = format!("{mount}/{}", segs.join("/"));
        if rng.chance(1, 4) {
            headers.push(("Range".to_string(), random_range(rng, 10)));
        }
    }
    if rng.chance(1, 2) {
        let aes = ae_opts();
        let (lab, v) = &aes[rng.range(1, aes.len() - 1)];
        headers.push(("Accept-Encoding".to_string(), v.unwrap().to_string()));
        label = if label == "-" { format!("ae={lab}") } else { format!("{label},ae={lab}") };
    }
    Case { path, headers, label, phase: "random" }
}

// ------------------------------------------------------------------------------------------------
// run
// ------------------------------------------------------------------------------------------------

struct Runner<'a> {
    ctx: &'a Ctx,
    w: World,
    batch: Vec<Case>,
    progress: Arc<AtomicU64>,
    slow_batches: u64,
}

impl<'a> Runner<'a> {
    fn push(&mut self, c: Case, rep: &mut Reporter) {
        self.batch.push(c);
        if self.batch.len() >= 1024 {
            self.flush(rep);
        }
    }

    fn flush(&mut self, rep: &mut Reporter) {
        if self.batch.is_empty() {
            return;
        }
        let cases = std::mem::take(&mut self.batch);
        let reqs: Vec<(String, Vec<(String, String)>)> = cases.iter().map(|c| (c.path.clone(), self.w.materialize(c))).collect();
        let t0 = Instant::now();
        let root = self.w.tree.root.clone();
        let progress = self.progress.clone();
        let reqs2 = reqs.clone();
        let obs = match guard(move || exec_batch(root, reqs2, progress)) {
            Ok(o) => o,
            Err(msg) => {
                // a panic outside any request (application construction): nothing was observed
                rep.inconclusive(&format!("harness/app construction panicked: {msg}"));
                return;
            }
        };
        if t0.elapsed() > Duration::from_secs(60) {
            self.slow_batches += 1;
        }
        for ((c, (_, headers)), o) in cases.iter().zip(reqs.iter()).zip(obs.iter()) {
            rep.eval();
            rep.count(&format!("phase:{}", c.phase), 1);
            match judge(&self.w, c, headers, o, rep) {
                Ok(outcome) => {
                    if outcome != "uri-rejected" && outcome != "header-rejected" {
                        let (mi, _) = resolve(&self.w.tree, &c.path);
                        let mut classes: Vec<&str> = path_class(&self.w.tree, &c.path, mi).split('/').filter(|s| !s.is_empty()).map(|s| seg_class_static(s)).collect();
                        classes.sort_unstable();
                        classes.dedup();
                        let rshape = match (c.get("range"), resolve(&self.w.tree, &c.path).1) {
                            (Some(h), Expect::File(i)) => {
                                let l = self.w.tree.files[i].content.len() as u64;
                                format!("{}@{}", eval_range(Some(h), l).shape, len_class(l))
                            }
                            (Some(_), _) => "range-on-nonfile".into(),
                            (None, _) => "-".into(),
                        };
                        // conditional headers enter the signature by which are present (their values
                        // show through the outcome), so the grid counts as diversity, not volume
                        let present: Vec<&str> = c.label.split(',').filter(|kv| !kv.ends_with("=none") && *kv != "-").map(|kv| if kv.starts_with("ae=") { kv } else { kv.split('=').next().unwrap_or("") }).collect();
                        rep.sig(&format!("{}|{}|{}|{}|{}", MOUNTS[mi].prefix, classes.join("+"), rshape, present.join("+"), outcome));
                    }
                }
                Err(v) => {
                    rep.violation(v.class, &v.sig, &v.detail, c.replay());
                }
            }
        }
    }
}

fn seg_class_static(s: &str) -> &'static str {
    for k in ["E", "dot", "dd", "encslash", "bslash", "nul", "dblenc", "encdot", "canary", "rootx", "rootname", "hidden", "star", "badend", "utf8", "pct", "dir", "file", "other", "…"] {
        if k == s {
            return k;
        }
    }
    "other"
}

fn len_class(l: u64) -> &'static str {
    match l {
        0 => "L0",
        1 => "L1",
        2..=65_535 => "Lsmall",
        65_536 => "L64k",
        65_537 => "L64k+1",
        _ => "Lmulti",
    }
}

fn baseline(w: &mut World, rep: &mut Reporter, progress: Arc<AtomicU64>) -> bool {
    let idx: Vec<usize> = w.tree.files.iter().enumerate().filter(|(_, f)| f.inside).map(|(i, _)| i).collect();
    let reqs: Vec<(String, Vec<(String, String)>)> = idx
        .iter()
        .map(|&i| {
            let rel: Vec<String> = w.tree.files[i].rel.iter().map(|c| pct_encode(c)).collect();
            (format!("/hid/{}", rel.join("/")), vec![])
        })
        .collect();
    let root = w.tree.root.clone();
    let r2 = reqs.clone();
    let obs = match guard(move || exec_batch(root, r2, progress)) {
        Ok(o) => o,
        Err(m) => {
            rep.inconclusive(&format!("baseline requests panicked: {m}"));
            return false;
        }
    };
    for ((&i, (path, _)), o) in idx.iter().zip(reqs.iter()).zip(obs.iter()) {
        let f = &w.tree.files[i];
        match o {
            Obs::Resp(r) if r.status == 200 && body_is(r, &f.content) => {
                let etag = r.etag.clone().unwrap_or_default();
                let lm = r.last_modified.as_deref().and_then(parse_http_date);
                if lm != Some(MTIME) {
                    rep.count("last_modified_differs_from_mtime", 1);
                }
                let v = Validators { etag: ETag::parse(&etag), last_modified: lm };
                if v.etag.is_none() || v.last_modified.is_none() {
                    rep.inconclusive(&format!("baseline GET {path}: no usable validators (ETag {:?}, Last-Modified {:?})", r.etag, r.last_modified));
                    return false;
                }
                w.vals.insert(i, (etag, v));
            }
            other => {
                // the plain unconditional GET of a plain file is the floor everything else stands
                // on: judge it like any other case, then stop
                let c = Case { path: path.clone(), headers: vec![], label: "-".into(), phase: "baseline" };
                rep.eval();
                match judge(w, &c, &[], other, rep) {
                    Err(v) => rep.violation(v.class, &v.sig, &format!("baseline: {}", v.detail), c.replay()),
                    Ok(_) => rep.inconclusive(&format!("baseline GET {path} gave no usable answer: {}", short_obs(other))),
                }
                return false;
            }
        }
    }
    true
}

fn short_obs(o: &Obs) -> String {
    match o {
        Obs::Resp(r) => format!("status {} size {:?} body {} bytes {:?} err {:?}", r.status, r.size, r.body_len, esc_short(&r.head, 32), r.body_err),
        other => format!("{other:?}"),
    }
}

fn pct_encode(c: &str) -> String {
    let mut s = String::new();
    for &b in c.as_bytes() {
        if b.is_ascii_alphanumeric() || b == b'.' || b == b'-' || b == b'_' {
            s.push(b as char);
        } else {
            s.push_str(&format!("%{:02X}", b));
        }
    }
    s
}

pub fn run(ctx: &Ctx, rep: &mut Reporter) {
    let tree = match Tree::create(ctx) {
        Ok(t) => t,
        Err(e) => {
            rep.inconclusive(&format!("cannot create the temp tree: {e}"));
            return;
        }
    };
    let progress = Arc::new(AtomicU64::new(0));
    let finished = Arc::new(AtomicBool::new(false));
    // wall watchdog: file reads go through a real blocking pool; a request that never completes
    // must not look like a pass
    {
        let (p, f, base) = (progress.clone(), finished.clone(), tree.base.clone());
        std::thread::spawn(move || {
            let mut last = (p.load(SeqCst), Instant::now());
            loop {
                std::thread::sleep(Duration::from_millis(500));
                if f.load(SeqCst) {
                    return;
                }
                let now = p.load(SeqCst);
                if now != last.0 {
                    last = (now, Instant::now());
                } else if last.1.elapsed() > Duration::from_secs(120) {
                    eprintln!("C16 watchdog: no request completed for 120 s (after {now} requests) — giving up, inconclusive");
                    let _ = std::fs::remove_dir_all(&base);
                    std::process::exit(3);
                }
            }
        });
    }
    let mut w = World { tree, vals: BTreeMap::new() };
    let ok = baseline(&mut w, rep, progress.clone());
    let mut rn = Runner { ctx, w, batch: vec![], progress, slow_batches: 0 };
    if ok {
        if let Some(rp) = &ctx.replay {
            run_replay(&mut rn, rp, rep);
        } else {
            run_phases(&mut rn, rep);
        }
    }
    if rn.slow_batches > 0 {
        rep.inconclusive(&format!("{} batches of 1024 requests took more than 60 s wall", rn.slow_batches));
    }
    finished.store(true, SeqCst);
}

fn run_replay(rn: &mut Runner<'_>, rp: &Value, rep: &mut Reporter) {
    let headers: Vec<(String, String)> = rp["headers"]
        .as_array()
        .map(|a| a.iter().filter_map(|p| Some((p.get(0)?.as_str()?.to_string(), p.get(1)?.as_str()?.to_string()))).collect())
        .unwrap_or_default();
    let c = Case {
        path: rp["path"].as_str().unwrap_or("/").to_string(),
        headers,
        label: rp["label"].as_str().unwrap_or("-").to_string(),
        phase: "replay",
    };
    rn.push(c, rep);
    rn.flush(rep);
    rep.sig("replay-a");
    rep.sig("replay-b");
}

fn run_phases(rn: &mut Runner<'_>, rep: &mut Reporter) {
    let ctx = rn.ctx;
    let mut idx = 0u64;

    // ---- Phase A: path enumeration, no headers
    // (alphabet, depth, mounts) levels; every sequence of exactly that length
    // without Accept-Encoding the `try_compressed` mounts behave like plain ones: they get their own phase
    let all_mounts: Vec<usize> = PLAIN_MOUNTS.to_vec();
    let mut levels: Vec<(&[&str], usize, Vec<usize>)> = vec![
        (SEGS, 1, all_mounts.clone()),
        (SEGS, 2, all_mounts.clone()),
        (SEGS, 3, if ctx.thorough() { all_mounts.clone() } else { vec![M_STATIC, M_HID] }),
        (SEGS_CORE, 4, if ctx.thorough() { all_mounts.clone() } else { vec![M_STATIC, M_ROOT] }),
        (SEGS_MIN, 5, all_mounts.clone()),
    ];
    if ctx.thorough() {
        levels.push((SEGS, 4, vec![M_STATIC, M_HID]));
        levels.push((SEGS_CORE, 5, vec![M_HID, M_LIST]));
    }
    let mut complete = true;
    'a: for (alpha, depth, mounts) in &levels {
        let a = alpha.len() as u64;
        let total = a.pow(*depth as u32);
        for &mi in mounts {
            for code in 0..total {
                idx += 1;
                if !ctx.mine(idx) {
                    continue;
                }
                if idx % 4096 < ctx.nshards && ctx.out_of_time() {
                    complete = false;
                    break 'a;
                }
                let mut c = code;
                let mut segs = Vec::with_capacity(*depth);
                for _ in 0..*depth {
                    segs.push(alpha[(c % a) as usize]);
                    c /= a;
                }
                let path = format!("{}/{}", MOUNTS[mi].prefix, segs.join("/"));
                if code == 1234 && mi == M_STATIC {
                    rep.sample("path-case", json!({"path": path}));
                }
                rn.push(Case { path, headers: vec![], label: "-".into(), phase: "paths" }, rep);
            }
        }
    }
    rn.flush(rep);
    rep.exhaustive(
        &format!(
            "all segment sequences: depth<=3 over {} segments, depth 4 over {} ({}), depth 5 over {} ({})",
            SEGS.len(),
            if ctx.thorough() { SEGS.len() } else { SEGS_CORE.len() },
            if ctx.thorough() { "two mounts; 16 on all" } else { "two mounts" },
            if ctx.thorough() { SEGS_CORE.len() } else { SEGS_MIN.len() },
            if ctx.thorough() { "two mounts; 8 on all" } else { "all mounts" }
        ),
        complete,
    );
    rep.max("path_alphabet", SEGS.len() as u64);

    // ---- Phase B: Range shapes × file lengths × read modes
    let len_files = ["empty.bin", "one.bin", "a.txt", "k64.bin", "k64p1.bin", "big.bin"];
    let mut complete = true;
    'b: for rel in len_files {
        let len = INSIDE.iter().find(|f| f.0 == rel).unwrap().2 as u64;
        let hs = range_headers(len);
        for mount in ["/static", "/hid"] {
            for h in &hs {
                idx += 1;
                if !ctx.mine(idx) {
                    continue;
                }
                if idx % 512 < ctx.nshards && ctx.out_of_time() {
                    complete = false;
                    break 'b;
                }
                if h == "bytes=2-5" || h == "bytes=-1" {
                    rep.sample("range-case", json!({"path": file_path(mount, rel), "range": h, "len": len}));
                }
                rn.push(Case { path: file_path(mount, rel), headers: vec![("Range".into(), h.clone())], label: "-".into(), phase: "range-grid" }, rep);
            }
        }
    }
    rn.flush(rep);
    rep.exhaustive("range grid: (first,last)/(first,)/(,suffix) over boundary numbers incl. 2^63, 2^64-1, 2^64, spec pairs, garbage x lengths {0,1,10,65536,65537,200000} x {async,sync} reads", complete);

    // ---- Phase C: conditional header grid
    let cond_files: &[(&str, &str)] = if ctx.thorough() { &[("/static", "a.txt"), ("/hid", "empty.bin"), ("/static", "k64p1.bin")] } else { &[("/static", "a.txt")] };
    let tags = tag_opts();
    let dates = date_opts();
    let irs = if_range_opts();
    let mut complete = true;
    'c: for (mount, rel) in cond_files {
        let len = INSIDE.iter().find(|f| f.0 == *rel).unwrap().2 as u64;
        let ranges: Vec<(&str, Option<String>)> = vec![("none", None), ("sat", Some("bytes=2-5".into())), ("unsat", Some(format!("bytes={}-", len + 5))), ("suffix", Some("bytes=-3".into()))];
        for (lim, im) in &tags {
            for (linm, inm) in &tags {
                for (lius, ius) in &dates {
                    for (lims, ims) in &dates {
                        for (lr, rg) in &ranges {
                            for (lir, ir) in &irs {
                                idx += 1;
                                if !ctx.mine(idx) {
                                    continue;
                                }
                                if idx % 512 < ctx.nshards && ctx.out_of_time() {
                                    complete = false;
                                    break 'c;
                                }
                                let mut headers = vec![];
                                for (n, v) in [("If-Match", im), ("If-None-Match", inm), ("If-Unmodified-Since", ius), ("If-Modified-Since", ims), ("Range", rg), ("If-Range", ir)] {
                                    if let Some(v) = v {
                                        headers.push((n.to_string(), v.clone()));
                                    }
                                }
                                let label = format!("im={lim},inm={linm},ius={lius},ims={lims},r={lr},ir={lir}");
                                if label == "im=exact,inm=other,ius=lm,ims=lm-1,r=sat,ir=etag" {
                                    rep.sample("cond-case", json!({"path": file_path(mount, rel), "headers": headers}));
                                }
                                rn.push(Case { path: file_path(mount, rel), headers, label, phase: "cond-grid" }, rep);
                            }
                        }
                    }
                }
            }
        }
    }
    rn.flush(rep);
    rep.exhaustive("conditional grid: 7 If-Match x 7 If-None-Match x 7 If-Unmodified-Since x 7 If-Modified-Since x 4 Range x 5 If-Range", complete);

    // ---- Phase E: pre-compressed variants (`try_compressed` mounts) × Accept-Encoding
    let aes = ae_opts();
    let cmp_mounts = [M_CMP, M_CIDX, M_CHID];
    // (depth, mounts, all Accept-Encoding variants?)
    let mut elevels: Vec<(usize, Vec<usize>, bool)> = vec![(1, cmp_mounts.to_vec(), true), (2, cmp_mounts.to_vec(), true), (3, vec![M_CMP], false)];
    if ctx.thorough() {
        elevels.push((3, cmp_mounts.to_vec(), true));
        elevels.push((4, vec![M_CMP, M_CIDX], false));
    }
    let mut complete = true;
    'e: for (depth, mounts, full) in &elevels {
        let a = SEGS_CMP.len() as u64;
        let total = a.pow(*depth as u32);
        for &mi in mounts {
            for (lab, ae) in aes.iter().filter(|(l, _)| *full || AE_CORE.contains(l)) {
                for code in 0..total {
                    idx += 1;
                    if !ctx.mine(idx) {
                        continue;
                    }
                    if idx % 4096 < ctx.nshards && ctx.out_of_time() {
                        complete = false;
                        break 'e;
                    }
                    let mut c = code;
                    let mut segs = Vec::with_capacity(*depth);
                    for _ in 0..*depth {
                        segs.push(SEGS_CMP[(c % a) as usize]);
                        c /= a;
                    }
                    let path = format!("{}/{}", MOUNTS[mi].prefix, segs.join("/"));
                    let headers: Vec<(String, String)> = ae.iter().map(|v| ("Accept-Encoding".to_string(), v.to_string())).collect();
                    if code == 7 && mi == M_CMP && *lab == "several" {
                        rep.sample("compressed-case", json!({"path": path, "headers": headers}));
                    }
                    rn.push(Case { path, headers, label: format!("ae={lab}"), phase: "compressed-paths" }, rep);
                }
            }
        }
    }
    // the mount point itself, with and without a trailing slash
    for &mi in &cmp_mounts {
        for (lab, ae) in &aes {
            for tail in ["", "/", "//", "/sub/.."] {
                idx += 1;
                if !ctx.mine(idx) {
                    continue;
                }
                let headers: Vec<(String, String)> = ae.iter().map(|v| ("Accept-Encoding".to_string(), v.to_string())).collect();
                rn.push(Case { path: format!("{}{tail}", MOUNTS[mi].prefix), headers, label: format!("ae={lab}"), phase: "compressed-paths" }, rep);
            }
        }
    }
    rn.flush(rep);
    rep.exhaustive(
        &format!(
            "pre-compressed: all segment sequences over {} segments x Accept-Encoding: depth<=2 x 3 mounts x {} variants, depth 3 {}",
            SEGS_CMP.len(),
            aes.len(),
            if ctx.thorough() { "x 3 mounts x all variants, depth 4 x 2 mounts x 7 variants" } else { "x 1 mount x 7 variants" }
        ),
        complete,
    );
    // Range grid and a conditional grid answered from a variant
    let mut complete = true;
    'f: for (path, ae, vrel) in [("/cmp/a.txt", "gzip", "a.txt.gz"), ("/cmp/big.bin", "gzip, *;q=0", "big.bin.gz"), ("/cmp/empty.bin", "zstd", "empty.bin.zst"), ("/cidx/sub/", "br", "sub/index.html.br")] {
        let len = INSIDE.iter().find(|f| f.0 == vrel).unwrap().2 as u64;
        for h in range_headers(len) {
            idx += 1;
            if !ctx.mine(idx) {
                continue;
            }
            if idx % 512 < ctx.nshards && ctx.out_of_time() {
                complete = false;
                break 'f;
            }
            rn.push(
                Case { path: path.to_string(), headers: vec![("Accept-Encoding".into(), ae.to_string()), ("Range".into(), h)], label: "ae=variant".into(), phase: "compressed-range-grid" },
                rep,
            );
        }
    }
    let vtags: Vec<(&str, Option<String>)> = tag_opts().into_iter().map(|(l, v)| (l, v.map(|s| s.replace(ETAG, "{ETAG.gz}")))).collect();
    let vdates: Vec<(&str, Option<String>)> = date_opts().into_iter().filter(|(l, _)| matches!(*l, "none" | "lm-1" | "lm")).collect();
    for (lim, im) in &vtags {
        for (linm, inm) in &vtags {
            for (lius, ius) in &vdates {
                for (lims, ims) in &vdates {
                    for (lr, rg) in [("none", None), ("sat", Some("bytes=20-29".to_string()))] {
                        for (lir, ir) in [("none", None), ("etag", Some("{ETAG.gz}".to_string())), ("plain-etag", Some(ETAG.to_string()))] {
                            idx += 1;
                            if !ctx.mine(idx) {
                                continue;
                            }
                            let mut headers = vec![("Accept-Encoding".to_string(), "gzip".to_string())];
                            for (n, v) in [("If-Match", im), ("If-None-Match", inm), ("If-Unmodified-Since", ius), ("If-Modified-Since", ims), ("Range", &rg), ("If-Range", &ir)] {
                                if let Some(v) = v {
                                    headers.push((n.to_string(), v.clone()));
                                }
                            }
                            let label = format!("im={lim},inm={linm},ius={lius},ims={lims},r={lr},ir={lir},ae=variant");
                            rn.push(Case { path: "/cmp/a.txt".into(), headers, label, phase: "compressed-cond-grid" }, rep);
                        }
                    }
                }
            }
        }
    }
    rn.flush(rep);
    rep.exhaustive("pre-compressed: range grid on 4 variants (lengths 30, 70000, 0, 34) and 7x7x3x3x2x3 conditional grid answered from a.txt.gz", complete);

    // ---- Phase D: random paths × ranges × conditionals
    let n = ctx.share(160_000, 1_600_000);
    for k in 0..n {
        if k % 256 == 0 && ctx.out_of_time() {
            break;
        }
        let mut rng = Rng::derive(ctx.seed, 16, k * ctx.nshards + ctx.shard);
        let c = random_case(&rn.w, &mut rng);
        if k == 0 {
            rep.sample("random-case", c.replay());
        }
        rn.push(c, rep);
    }
    rn.flush(rep);
}
