//! C16 — not built yet.
use crate::report::{Ctx, Reporter};

pub fn run(_ctx: &Ctx, rep: &mut Reporter) {
    rep.inconclusive("C16 monitor not built");
}
