//! C07 — request-body channel (`actix_http::h1::Payload`): exact bytes, truthful ending, no lost
//! wake-ups.
//!
//! The public pair returned by `h1::Payload::create(eof)` is driven directly, one operation at a
//! time, with counting wakers (two for the reading side, two for the feeding side).  After every
//! operation `refmodel::byte_channel` judges what the real channel returned:
//!
//! * bytes — every chunk handed to the reader is the exact next run of the uniquely numbered bytes
//!   that were fed (or pushed back), nothing is delivered twice, nothing is skipped;
//! * ending — `Pending` only when nothing is owed; an error only after all data, and only an error
//!   that was set (or `Incomplete` when the sender vanished without signalling anything); a clean
//!   end only after all data, only if `feed_eof` happened (or the channel was created at eof), and
//!   never while a signalled error is still undelivered;
//! * reader wake-up — a reader whose last poll said `Pending` must have had the waker of *that*
//!   poll fired by the time the next data / eof / error / (effective) sender drop returns;
//! * feeder wake-up — a feeder whose last `need_read` said `Pause` must have had the waker of *that*
//!   call fired by the time a reader poll returns with fewer than 32 KiB buffered;
//!   and a `Pause` answered while fewer than 32 KiB are buffered (the wake-up condition already
//!   holds) must fire the waker itself;
//! * no mutual wait — reader parked and feeder parked at the same time is a deadlock;
//! * back-pressure — `need_read` says `Read` with more than 32 KiB buffered only if the excess
//!   comes from `unread_data` (accepted relaxation); `Pause` is never returned once the reader is gone.
//!
//! Workloads: (1) every valid operation sequence over an 11-instance alphabet to a depth bound, from
//! both `create(false)` and `create(true)`, each followed by a settling epilogue (drain, drop the
//! sender, drain); (2) long random sequences generated online (free-form and "disciplined feeder"
//! profiles, chunk sizes straddling the limit); (3) two wake-driven tasks (a feeder that parks on
//! `Pause`, a reader that parks on `Pending`) under a random scheduler, where running out of
//! runnable tasks before the body was delivered is a logical stall.

use std::{
    collections::HashSet,
    fmt::Write as _,
    pin::Pin,
    sync::{
        atomic::{AtomicU64, Ordering::Relaxed},
        Arc,
    },
    task::{Context, Poll, Wake, Waker},
};

use actix_http::{error::PayloadError, h1::Payload};
use bytes::Bytes;
use futures_core::Stream;
use serde_json::{json, Value};

use crate::{
    refmodel::byte_channel::{Channel, End, ErrKind, Seg, LIMIT},
    report::{guard, panic_site, Ctx, Reporter},
    util::Rng,
};

const MAX_CHUNK: usize = 40_000;
const KINDS: [ErrKind; 5] =
    [ErrKind::Overflow, ErrKind::Incomplete, ErrKind::EncodingCorrupted, ErrKind::UnknownLength, ErrKind::Io];

// ------------------------------------------------------------------------------------------------
// operations

#[derive(Clone, Copy, Debug, PartialEq, Eq)]
enum Op {
    Feed(usize),
    FeedEof,
    SetErr(ErrKind),
    DropSender,
    /// `need_read` with feeder waker A (0) / B (1)
    NeedRead(u8),
    /// `poll_next` with reader waker A (0) / B (1)
    Poll(u8),
    /// `unread_data` with n fresh bytes
    Unread(usize),
    /// `unread_data` with the last (up to) n bytes of the chunk read last
    UnreadBack(usize),
    DropReader,
}

fn wname(w: u8) -> char {
    if w == 0 {
        'A'
    } else {
        'B'
    }
}

impl Op {
    fn name(&self) -> String {
        match self {
            Op::Feed(n) => format!("feed({n})"),
            Op::FeedEof => "feed_eof".into(),
            Op::SetErr(k) => format!("set_error({})", k.name()),
            Op::DropSender => "drop_sender".into(),
            Op::NeedRead(w) => format!("need_read({})", wname(*w)),
            Op::Poll(w) => format!("poll({})", wname(*w)),
            Op::Unread(n) => format!("unread({n})"),
            Op::UnreadBack(n) => format!("unread_back({n})"),
            Op::DropReader => "drop_reader".into(),
        }
    }
    fn parse(s: &str) -> Option<Op> {
        let (head, arg) = match s.find('(') {
            Some(i) => (&s[..i], s[i + 1..].trim_end_matches(')')),
            None => (s, ""),
        };
        let w = || if arg == "B" { 1u8 } else { 0u8 };
        Some(match head {
            "feed" => Op::Feed(arg.parse().ok()?),
            "feed_eof" => Op::FeedEof,
            "set_error" => Op::SetErr(*KINDS.iter().find(|k| k.name() == arg)?),
            "drop_sender" => Op::DropSender,
            "need_read" => Op::NeedRead(w()),
            "poll" => Op::Poll(w()),
            "unread" => Op::Unread(arg.parse().ok()?),
            "unread_back" => Op::UnreadBack(arg.parse().ok()?),
            "drop_reader" => Op::DropReader,
            _ => return None,
        })
    }
    fn kind(&self) -> &'static str {
        match self {
            Op::Feed(0) => "feed-empty",
            Op::Feed(n) if *n >= LIMIT => "feed>=limit",
            Op::Feed(_) => "feed",
            Op::FeedEof => "feed_eof",
            Op::SetErr(_) => "set_error",
            Op::DropSender => "drop_sender",
            Op::NeedRead(_) => "need_read",
            Op::Poll(_) => "poll",
            Op::Unread(_) => "unread",
            Op::UnreadBack(_) => "unread_back",
            Op::DropReader => "drop_reader",
        }
    }
    fn kind_code(&self) -> u64 {
        match self {
            Op::Feed(0) => 0,
            Op::Feed(n) if *n >= LIMIT => 1,
            Op::Feed(_) => 2,
            Op::FeedEof => 3,
            Op::SetErr(_) => 4,
            Op::DropSender => 5,
            Op::NeedRead(_) => 6,
            Op::Poll(_) => 7,
            Op::Unread(_) => 8,
            Op::UnreadBack(_) => 9,
            Op::DropReader => 10,
        }
    }
}

/// What the real channel answered (abstracted).
#[derive(Clone, Copy, Debug, PartialEq, Eq)]
enum Out {
    Done,
    Skipped,
    Data,
    Pending,
    Err(ErrKind),
    End,
    Read,
    Pause,
    Dropped,
}

impl Out {
    fn name(&self) -> String {
        match self {
            Out::Done => "ok".into(),
            Out::Skipped => "skipped".into(),
            Out::Data => "data".into(),
            Out::Pending => "pending".into(),
            Out::Err(k) => format!("err({})", k.name()),
            Out::End => "end".into(),
            Out::Read => "read".into(),
            Out::Pause => "pause".into(),
            Out::Dropped => "dropped".into(),
        }
    }
    fn code(&self) -> u64 {
        match self {
            Out::Done => 0,
            Out::Skipped => 1,
            Out::Data => 2,
            Out::Pending => 3,
            Out::Err(_) => 4,
            Out::End => 5,
            Out::Read => 6,
            Out::Pause => 7,
            Out::Dropped => 8,
        }
    }
}

// ------------------------------------------------------------------------------------------------
// counting wakers and byte patterns

struct CountWaker(AtomicU64);

impl Wake for CountWaker {
    fn wake(self: Arc<Self>) {
        self.0.fetch_add(1, Relaxed);
    }
    fn wake_by_ref(self: &Arc<Self>) {
        self.0.fetch_add(1, Relaxed);
    }
}

struct W {
    c: Arc<CountWaker>,
    w: Waker,
}

impl W {
    fn new() -> W {
        let c = Arc::new(CountWaker(AtomicU64::new(0)));
        W { w: Waker::from(c.clone()), c }
    }
    fn n(&self) -> u64 {
        self.c.0.load(Relaxed)
    }
}

/// Everything that is shared by all cases of one shard: the wakers (snapshots are relative, so
/// they can be reused) and the byte patterns the numbered bytes take their values from.
struct Env {
    r: [W; 2],
    i: [W; 2],
    fed: Bytes,
    unr: Bytes,
    /// fed-pattern offsets wrap at this modulus (so a slice of MAX_CHUNK always fits)
    fed_mod: usize,
    unr_mod: usize,
}

impl Env {
    fn new(miri: bool) -> Env {
        let fed_len = if miri { 3 * MAX_CHUNK } else { 1 << 20 };
        let unr_len = if miri { 2 * MAX_CHUNK } else { 8 * MAX_CHUNK };
        // Position-dependent content: a pseudo-random 4 KiB block repeated, each repetition
        // stamped with its block number, so that any shift, loss or duplication of a run of bytes
        // changes the content (shifts inside a block hit the random part, whole-block shifts hit
        // the stamp).  Built with block copies because a per-byte loop costs minutes under Miri.
        let gen = |n: usize, salt: u64| -> Bytes {
            const BLOCK: usize = 4096;
            let mut base = [0u8; BLOCK];
            let mut x = salt;
            for (i, b) in base.iter_mut().enumerate() {
                x = x.wrapping_mul(6364136223846793005).wrapping_add(1442695040888963407 ^ i as u64);
                *b = (x >> 33) as u8;
            }
            let mut v = Vec::with_capacity(n + BLOCK);
            let mut j = 0u64;
            while v.len() < n {
                let at = v.len();
                v.extend_from_slice(&base);
                v[at..at + 8].copy_from_slice(&(j.wrapping_mul(0x9E37_79B9_7F4A_7C15) ^ salt).to_le_bytes());
                j += 1;
            }
            v.truncate(n);
            Bytes::from(v)
        };
        Env {
            r: [W::new(), W::new()],
            i: [W::new(), W::new()],
            fed: gen(fed_len, 7),
            unr: gen(unr_len, 99),
            fed_mod: fed_len - MAX_CHUNK,
            unr_mod: unr_len - MAX_CHUNK,
        }
    }
    fn bytes_of(&self, s: &Seg) -> &[u8] {
        let src = if s.src == 0 { &self.fed } else { &self.unr };
        &src[s.off..s.off + s.len]
    }
}

// ------------------------------------------------------------------------------------------------
// the sender cannot be named outside actix-http: hold it inside a closure

enum SCmd<'a> {
    Feed(Bytes),
    Eof,
    Err(PayloadError),
    NeedRead(&'a Waker),
    Drop,
}

type Tx = Box<dyn for<'a> FnMut(SCmd<'a>) -> u8>;

struct First(u8);
impl std::fmt::Write for First {
    fn write_str(&mut self, s: &str) -> std::fmt::Result {
        if self.0 == 0 {
            if let Some(b) = s.bytes().next() {
                self.0 = b;
            }
        }
        Ok(())
    }
}

fn open(eof: bool) -> (Tx, Payload) {
    let (tx, rx) = Payload::create(eof);
    let mut tx = Some(tx);
    let f = move |cmd: SCmd<'_>| -> u8 {
        if let SCmd::Drop = cmd {
            tx.take();
            return 0;
        }
        let Some(s) = tx.as_mut() else { return 0 };
        match cmd {
            SCmd::Feed(b) => s.feed_data(b),
            SCmd::Eof => s.feed_eof(),
            SCmd::Err(e) => s.set_error(e),
            SCmd::NeedRead(w) => {
                let mut cx = Context::from_waker(w);
                // PayloadStatus is not nameable either; its Debug output is Read / Pause / Dropped
                let mut f = First(0);
                let _ = write!(f, "{:?}", s.need_read(&mut cx));
                return f.0;
            }
            SCmd::Drop => {}
        }
        0
    };
    (Box::new(f), rx)
}

fn mk_err(k: ErrKind, alt: bool) -> PayloadError {
    match k {
        ErrKind::Incomplete if alt => {
            PayloadError::Incomplete(Some(std::io::Error::new(std::io::ErrorKind::UnexpectedEof, "cut")))
        }
        ErrKind::Incomplete => PayloadError::Incomplete(None),
        ErrKind::EncodingCorrupted => PayloadError::EncodingCorrupted,
        ErrKind::Overflow => PayloadError::Overflow,
        ErrKind::UnknownLength => PayloadError::UnknownLength,
        ErrKind::Io | ErrKind::Other => PayloadError::Io(std::io::Error::new(std::io::ErrorKind::Other, "io")),
    }
}

fn err_kind(e: &PayloadError) -> ErrKind {
    match e {
        PayloadError::Incomplete(_) => ErrKind::Incomplete,
        PayloadError::EncodingCorrupted => ErrKind::EncodingCorrupted,
        PayloadError::Overflow => ErrKind::Overflow,
        PayloadError::UnknownLength => ErrKind::UnknownLength,
        PayloadError::Io(_) => ErrKind::Io,
        _ => ErrKind::Other,
    }
}

/// The reading half, either bare or inside the `actix_http::Payload` enum handlers receive.
enum Rx {
    Raw(Payload),
    Wrapped(actix_http::Payload),
}

impl Rx {
    fn poll(&mut self, cx: &mut Context<'_>) -> Poll<Option<Result<Bytes, PayloadError>>> {
        match self {
            Rx::Raw(p) => Pin::new(p).poll_next(cx),
            Rx::Wrapped(p) => Pin::new(p).poll_next(cx),
        }
    }
    fn unread(&mut self, b: Bytes) {
        match self {
            Rx::Raw(p) => p.unread_data(b),
            Rx::Wrapped(actix_http::Payload::H1 { payload }) => payload.unread_data(b),
            Rx::Wrapped(_) => unreachable!("constructed from an h1 payload"),
        }
    }
}

// ------------------------------------------------------------------------------------------------
// one channel under observation

struct Failure {
    class: &'static str,
    site: String,
    detail: String,
}

macro_rules! fail {
    ($class:expr, $site:expr, $($arg:tt)*) => {
        return Err(Failure { class: $class, site: $site.to_string(), detail: format!($($arg)*) })
    };
}

#[derive(Default)]
struct Stats {
    ops: [u64; 11],
    outs: [u64; 9],
    err_by_kind: [u64; 6],
    skipped: u64,
    bytes_fed: u64,
    bytes_unread: u64,
    bytes_delivered: u64,
    chunks_delivered: u64,
    boundary_kept: u64,
    boundary_changed: u64,
    empty_chunks_delivered: u64,
    reader_wake_demands: u64,
    feeder_wake_demands: u64,
    reader_rearmed_other_waker: u64,
    feeder_rearmed_other_waker: u64,
    pause_at_or_over_limit: u64,
    pause_below_limit: u64,
    read_over_limit_after_unread: u64,
    read_at_exact_limit: u64,
    read_after_reader_drop: u64,
    dropped_status_with_reader_alive: u64,
    reader_dropped_while_feeder_paused: u64,
    end_clean: u64,
    end_error_then_clean: u64,
    end_incomplete_by_drop: u64,
    end_set_error: u64,
    polls_after_ending: u64,
    max_buffered: u64,
    max_buffered_disciplined: u64,
    epilogues: u64,
    task_cases: u64,
    task_parks_reader: u64,
    task_parks_feeder: u64,
    task_reader_dropped: u64,
    task_feeder_parked_at_reader_drop: u64,
    task_completed: u64,
    task_capped: u64,
    states: HashSet<u64>,
}

struct Sys<'e> {
    env: &'e Env,
    tx: Tx,
    rx: Option<Rx>,
    m: Channel,
    /// (reader waker index, its count when `Pending` was returned)
    reader_waiting: Option<(usize, u64)>,
    /// (feeder waker index, its count when `Pause` was returned)
    feeder_waiting: Option<(usize, u64)>,
    next_fed: u64,
    next_unr: u64,
    last_read: Option<(Bytes, Vec<Seg>)>,
    max_chunk_fed: usize,
    /// the last op was need_read -> Read (used by the disciplined-feeder bound)
    read_granted: bool,
}

impl<'e> Sys<'e> {
    fn new(env: &'e Env, eof: bool, wrapped: bool) -> Sys<'e> {
        let (tx, rx) = open(eof);
        Sys {
            env,
            tx,
            rx: Some(if wrapped { Rx::Wrapped(actix_http::Payload::from(rx)) } else { Rx::Raw(rx) }),
            m: Channel::new(eof),
            reader_waiting: None,
            feeder_waiting: None,
            next_fed: 0,
            next_unr: 0,
            last_read: None,
            max_chunk_fed: 0,
            read_granted: false,
        }
    }

    fn buf_class(&self) -> (u64, &'static str) {
        let b = self.m.buffered();
        if b == 0 {
            (0, "0")
        } else if b < LIMIT {
            (1, "<L")
        } else if b == LIMIT {
            (2, "=L")
        } else {
            (3, ">L")
        }
    }

    /// abstract state: used for evidence signatures and for violation sites
    fn abs_code(&self) -> u64 {
        let mut c = self.buf_class().0;
        c = c * 4 + self.m.chunks().min(3) as u64;
        c = c * 2 + self.m.eof_signalled as u64;
        c = c * 3 + self.m.errs.len().min(2) as u64;
        c = c * 2 + self.m.err_ever_set as u64;
        c = c * 2 + self.m.sender_alive as u64;
        c = c * 2 + self.m.reader_alive as u64;
        c = c * 2 + self.reader_parked() as u64;
        c = c * 2 + self.feeder_parked() as u64;
        c = c * 2 + self.m.tainted as u64;
        c = c * 3
            + match self.m.delivered_end {
                None => 0,
                Some(End::Clean) => 1,
                Some(End::Error(_)) => 2,
            };
        c
    }
    /// the reader's last poll said Pending and the waker of that poll has not fired since
    fn reader_parked(&self) -> bool {
        matches!(self.reader_waiting, Some((w, snap)) if self.env.r[w].n() == snap)
    }
    fn feeder_parked(&self) -> bool {
        matches!(self.feeder_waiting, Some((w, snap)) if self.env.i[w].n() == snap)
    }

    /// Is `op` something a well-behaved user of the API would do in the current state?
    fn valid(&self, op: Op) -> bool {
        match op {
            Op::Feed(_) => self.m.sender_alive && !self.m.eof_signalled && !self.m.err_ever_set,
            Op::FeedEof => self.m.sender_alive && !self.m.eof_signalled,
            Op::SetErr(_) | Op::DropSender | Op::NeedRead(_) => self.m.sender_alive,
            Op::Poll(_) | Op::Unread(_) | Op::DropReader => self.m.reader_alive,
            Op::UnreadBack(_) => self.m.reader_alive && self.last_read.is_some(),
        }
    }

    /// A feeder-side event that a parked reader must be told about has just been applied.
    fn sender_event(&mut self, st: &mut Stats, site: &str, what: &str) -> Result<(), Failure> {
        if let Some((w, snap)) = self.reader_waiting.take() {
            st.reader_wake_demands += 1;
            if self.env.r[w].n() == snap {
                fail!(
                    "wake/lost-reader-wakeup",
                    site,
                    "the reader's last poll (waker {}) returned Pending; then {what} and that waker was not fired",
                    wname(w as u8)
                );
            }
        }
        Ok(())
    }

    fn step(&mut self, op: Op, st: &mut Stats) -> Result<Out, Failure> {
        if !self.valid(op) {
            st.skipped += 1;
            return Ok(Out::Skipped);
        }
        let pre = self.abs_code();
        // the violation site is built from the state *before* the op (string only made on failure)
        let before = SiteCtx { abs: self.abs_snapshot() };
        st.ops[op.kind_code() as usize] += 1;
        let granted = std::mem::replace(&mut self.read_granted, false);

        let out = match op {
            Op::Feed(n) => {
                let n = n.min(MAX_CHUNK);
                let off = (self.next_fed as usize) % self.env.fed_mod;
                let seg = Seg { src: 0, id: self.next_fed, off, len: n, back: false };
                self.next_fed += n as u64;
                (self.tx)(SCmd::Feed(self.env.fed.slice(off..off + n)));
                self.m.feed(seg);
                if self.m.reader_alive {
                    st.bytes_fed += n as u64;
                    self.max_chunk_fed = self.max_chunk_fed.max(n);
                }
                if n > 0 && self.m.reader_alive {
                    self.sender_event(st, &before.site(op, "ok"), "data was fed")?;
                }
                if granted && self.m.reader_alive {
                    // disciplined feeder: this feed was preceded by need_read -> Read
                    let bound = LIMIT + n + self.m.buffered_unread();
                    st.max_buffered_disciplined = st.max_buffered_disciplined.max(self.m.buffered() as u64);
                    if self.m.buffered() > bound {
                        fail!(
                            "backpressure/bound",
                            before.site(op, "ok"),
                            "feeding only after need_read said Read, {} bytes are buffered (> 32 KiB + chunk {} + {} pushed-back bytes)",
                            self.m.buffered(),
                            n,
                            self.m.buffered_unread()
                        );
                    }
                }
                Out::Done
            }
            Op::FeedEof => {
                (self.tx)(SCmd::Eof);
                self.m.feed_eof();
                if self.m.reader_alive {
                    self.sender_event(st, &before.site(op, "ok"), "feed_eof was called")?;
                }
                Out::Done
            }
            Op::SetErr(k) => {
                (self.tx)(SCmd::Err(mk_err(k, self.next_fed % 2 == 1)));
                self.m.set_error(k);
                if self.m.reader_alive {
                    self.sender_event(st, &before.site(op, "ok"), "set_error was called")?;
                }
                Out::Done
            }
            Op::DropSender => {
                (self.tx)(SCmd::Drop);
                let event = self.m.drop_sender();
                self.feeder_waiting = None;
                if event && self.m.reader_alive {
                    self.sender_event(st, &before.site(op, "ok"), "the sender was dropped with neither eof nor error signalled")?;
                }
                Out::Done
            }
            Op::NeedRead(w) => {
                let w = w as usize;
                let fired_before = self.env.i[w].n();
                let status = (self.tx)(SCmd::NeedRead(&self.env.i[w].w));
                match status {
                    b'R' => {
                        self.feeder_waiting = None;
                        if !self.m.reader_alive {
                            st.read_after_reader_drop += 1;
                        } else if self.m.buffered() > LIMIT {
                            if self.m.tainted {
                                st.read_over_limit_after_unread += 1;
                            } else {
                                fail!(
                                    "backpressure/read-over-limit",
                                    before.site(op, "read"),
                                    "need_read said Read with {} bytes buffered, none of the excess due to unread_data",
                                    self.m.buffered()
                                );
                            }
                        } else if self.m.buffered() == LIMIT {
                            st.read_at_exact_limit += 1;
                        }
                        self.read_granted = true;
                        Out::Read
                    }
                    b'P' => {
                        if !self.m.reader_alive {
                            fail!(
                                "stall/pause-after-reader-drop",
                                before.site(op, "pause"),
                                "need_read said Pause although the reader is gone: nobody can ever wake this feeder"
                            );
                        }
                        if self.m.buffered() >= LIMIT {
                            st.pause_at_or_over_limit += 1;
                        } else {
                            // "woken once the reader drains below the limit": the reader already
                            // has, so the wake-up is due now — parking this feeder loses it
                            st.pause_below_limit += 1;
                            if self.m.delivered_end.is_none() && self.env.i[w].n() == fired_before {
                                fail!(
                                    "wake/pause-below-limit",
                                    before.site(op, "pause"),
                                    "need_read said Pause (and did not fire the waker) with only {} bytes buffered (< 32 KiB): the condition for waking this feeder already holds",
                                    self.m.buffered()
                                );
                            }
                        }
                        if let Some((ow, _)) = self.feeder_waiting {
                            if ow != w {
                                st.feeder_rearmed_other_waker += 1;
                            }
                        }
                        if self.m.delivered_end.is_none() {
                            self.feeder_waiting = Some((w, self.env.i[w].n()));
                        }
                        Out::Pause
                    }
                    b'D' => {
                        self.feeder_waiting = None;
                        if self.m.reader_alive {
                            st.dropped_status_with_reader_alive += 1;
                        }
                        Out::Dropped
                    }
                    other => fail!("harness", "need_read", "unrecognised PayloadStatus rendering {:?}", other as char),
                }
            }
            Op::Poll(w) => {
                let w = w as usize;
                let mut cx = Context::from_waker(&self.env.r[w].w);
                let res = self.rx.as_mut().expect("valid() checked").poll(&mut cx);
                if self.m.delivered_end.is_some() {
                    st.polls_after_ending += 1;
                }
                let out = match res {
                    Poll::Ready(Some(Ok(b))) => {
                        let (segs, whole) = match self.m.on_data(b.len()) {
                            Ok(x) => x,
                            Err(f) => fail!(f.class(), before.site(op, "data"), "{:?}", f),
                        };
                        let mut at = 0;
                        for s in &segs {
                            let want = self.env.bytes_of(s);
                            let got = &b[at..at + s.len];
                            if got != want {
                                let j = got.iter().zip(want).position(|(a, b)| a != b).unwrap_or(0);
                                fail!(
                                    "bytes/wrong-content",
                                    before.site(op, "data"),
                                    "chunk of {} bytes: byte {} of the chunk should be {} byte #{} (value {:#04x}) but is {:#04x}",
                                    b.len(),
                                    at + j,
                                    if s.src == 0 { "fed" } else { "pushed-back" },
                                    s.id + j as u64,
                                    want[j],
                                    got[j]
                                );
                            }
                            at += s.len;
                        }
                        st.bytes_delivered += b.len() as u64;
                        st.chunks_delivered += 1;
                        if b.is_empty() {
                            st.empty_chunks_delivered += 1;
                        } else if whole {
                            st.boundary_kept += 1;
                        } else {
                            st.boundary_changed += 1;
                        }
                        self.last_read = Some((b, segs));
                        self.reader_waiting = None;
                        Out::Data
                    }
                    Poll::Ready(Some(Err(e))) => {
                        let k = err_kind(&e);
                        let first = self.m.delivered_end.is_none();
                        let by_drop = !self.m.err_ever_set;
                        if let Err(f) = self.m.on_error(k) {
                            fail!(f.class(), before.site(op, &format!("err({})", k.name())), "{:?}", f);
                        }
                        if first {
                            if by_drop {
                                st.end_incomplete_by_drop += 1;
                            } else {
                                st.end_set_error += 1;
                            }
                        }
                        st.err_by_kind[KINDS.iter().position(|x| *x == k).unwrap_or(5)] += 1;
                        self.reader_waiting = None;
                        self.feeder_waiting = None;
                        Out::Err(k)
                    }
                    Poll::Ready(None) => {
                        let after_err = matches!(self.m.delivered_end, Some(End::Error(_)));
                        let first = self.m.delivered_end.is_none();
                        if let Err(f) = self.m.on_end() {
                            fail!(f.class(), before.site(op, "end"), "{:?}", f);
                        }
                        if first {
                            st.end_clean += 1;
                        } else if after_err {
                            st.end_error_then_clean += 1;
                        }
                        self.reader_waiting = None;
                        self.feeder_waiting = None;
                        Out::End
                    }
                    Poll::Pending => {
                        if let Err(f) = self.m.on_pending() {
                            fail!(f.class(), before.site(op, "pending"), "{:?}", f);
                        }
                        if self.m.delivered_end.is_none() {
                            if let Some((ow, _)) = self.reader_waiting {
                                if ow != w {
                                    st.reader_rearmed_other_waker += 1;
                                }
                            }
                            self.reader_waiting = Some((w, self.env.r[w].n()));
                        }
                        Out::Pending
                    }
                };
                // the reader has just taken its turn: if less than the limit is buffered now, a
                // feeder that was told to pause must have been woken (at or after its Pause)
                if self.m.buffered() < LIMIT {
                    if let Some((fw, snap)) = self.feeder_waiting.take() {
                        st.feeder_wake_demands += 1;
                        if self.env.i[fw].n() == snap {
                            fail!(
                                "wake/lost-feeder-wakeup",
                                before.site(op, &out.name()),
                                "need_read (waker {}) said Pause; the reader has drained the buffer to {} bytes (< 32 KiB) and that waker was never fired",
                                wname(fw as u8),
                                self.m.buffered()
                            );
                        }
                    }
                }
                out
            }
            Op::Unread(n) => {
                let n = n.min(MAX_CHUNK);
                let off = (self.next_unr as usize) % self.env.unr_mod;
                let seg = Seg { src: 1, id: self.next_unr, off, len: n, back: true };
                self.next_unr += n as u64;
                self.rx.as_mut().expect("valid() checked").unread(self.env.unr.slice(off..off + n));
                self.m.unread(seg);
                st.bytes_unread += n as u64;
                Out::Done
            }
            Op::UnreadBack(n) => {
                let (b, segs) = self.last_read.take().expect("valid() checked");
                let k = n.min(b.len());
                self.rx.as_mut().expect("valid() checked").unread(b.slice(b.len() - k..));
                // the last k bytes of `segs`, pushed to the front so that they come out in order
                let mut need = k;
                for s in segs.iter().rev() {
                    if need == 0 {
                        break;
                    }
                    let take = need.min(s.len);
                    let skip = s.len - take;
                    self.m.unread(Seg { src: s.src, id: s.id + skip as u64, off: s.off + skip, len: take, back: true });
                    need -= take;
                }
                st.bytes_unread += k as u64;
                Out::Done
            }
            Op::DropReader => {
                self.rx = None;
                self.m.drop_reader();
                self.reader_waiting = None;
                self.last_read = None;
                if self.feeder_parked() {
                    st.reader_dropped_while_feeder_paused += 1;
                }
                self.feeder_waiting = None;
                Out::Done
            }
        };

        // nobody may be left waiting for the other side while the other side waits for them
        if self.m.sender_alive && self.m.reader_alive && self.reader_parked() && self.feeder_parked() {
            fail!(
                "stall/mutual-wait",
                before.site(op, &out.name()),
                "the reader is parked on Pending and the feeder is parked on Pause at the same time, neither waker fired"
            );
        }

        st.outs[out.code() as usize] += 1;
        st.max_buffered = st.max_buffered.max(self.m.buffered() as u64);
        st.states.insert((pre * 11 + op.kind_code()) * 9 + out.code());
        Ok(out)
    }

    fn abs_snapshot(&self) -> AbsSnap {
        AbsSnap {
            buf: self.buf_class().1,
            chunks: self.m.chunks().min(3),
            eof: self.m.eof_signalled,
            errs: self.m.errs.len().min(2),
            tx: self.m.sender_alive,
            rx: self.m.reader_alive,
            rpark: self.reader_parked(),
            fpark: self.feeder_parked(),
            taint: self.m.tainted,
            end: match self.m.delivered_end {
                None => "-",
                Some(End::Clean) => "clean",
                Some(End::Error(_)) => "err",
            },
        }
    }
}

#[derive(Clone, Copy)]
struct AbsSnap {
    buf: &'static str,
    chunks: usize,
    eof: bool,
    errs: usize,
    tx: bool,
    rx: bool,
    rpark: bool,
    fpark: bool,
    taint: bool,
    end: &'static str,
}

/// Abstract state before the failing operation: the violation signature is
/// "<op kind> -> <result> | <abstract state before>".
struct SiteCtx {
    abs: AbsSnap,
}

impl SiteCtx {
    fn site(&self, op: Op, out: &str) -> String {
        let a = &self.abs;
        format!(
            "{} -> {} | buf{} chunks{} eof{} errs{} tx{} rx{} rpark{} fpark{} taint{} end{}",
            op.kind(),
            out,
            a.buf,
            a.chunks,
            a.eof as u8,
            a.errs,
            a.tx as u8,
            a.rx as u8,
            a.rpark as u8,
            a.fpark as u8,
            a.taint as u8,
            a.end
        )
    }
}

// ------------------------------------------------------------------------------------------------
// running sequences

const EPILOGUE_POLL_CAP: usize = 4096;

/// Settling epilogue appended to every sequence: drain; drop the sender; drain again.  Runs
/// through `step`, so every clause of the oracle applies to it.
fn epilogue(sys: &mut Sys<'_>, st: &mut Stats) -> Result<(), (String, Failure)> {
    st.epilogues += 1;
    for round in 0..2 {
        if sys.m.reader_alive {
            let mut n = 0;
            loop {
                let out = sys.step(Op::Poll(0), st).map_err(|f| (format!("epilogue poll(A) #{n} (round {round})"), f))?;
                if out != Out::Data {
                    break;
                }
                n += 1;
                if n > EPILOGUE_POLL_CAP {
                    return Err((
                        "epilogue".into(),
                        Failure {
                            class: "bytes/phantom",
                            site: "epilogue drain".into(),
                            detail: format!("the reader was still being given data after {EPILOGUE_POLL_CAP} polls with nothing fed"),
                        },
                    ));
                }
            }
        }
        if round == 0 {
            if !sys.m.sender_alive {
                break;
            }
            sys.step(Op::DropSender, st).map_err(|f| ("epilogue drop_sender".to_string(), f))?;
        }
    }
    Ok(())
}

/// Run a fixed sequence (exhaustive phase, replay, shrinking).  Returns where and how it failed.
fn run_fixed(env: &Env, eof: bool, wrapped: bool, ops: &[Op], st: &mut Stats) -> Option<(String, Failure)> {
    let r = guard(|| {
        let mut sys = Sys::new(env, eof, wrapped);
        for (idx, &op) in ops.iter().enumerate() {
            if let Err(f) = sys.step(op, st) {
                return Some((format!("op #{idx} {}", op.name()), f));
            }
        }
        epilogue(&mut sys, st).err()
    });
    match r {
        Ok(x) => x,
        Err(p) => Some((
            "panic".into(),
            Failure { class: "panic", site: panic_site(&p), detail: format!("panic while running the sequence: {p}") },
        )),
    }
}

fn report_failure(env: &Env, rep: &mut Reporter, eof: bool, wrapped: bool, ops: &[Op], at: String, f: Failure, origin: &str) {
    // shrink: drop operations that are not needed for the same (class, site)
    let mut cur: Vec<Op> = ops.to_vec();
    let mut scratch = Stats::default();
    let mut i = 0;
    let mut budget = 3000;
    let (mut at, mut f) = (at, f);
    while i < cur.len() && budget > 0 {
        budget -= 1;
        let mut cand = cur.clone();
        cand.remove(i);
        match run_fixed(env, eof, wrapped, &cand, &mut scratch) {
            Some((a2, g)) if g.class == f.class && g.site == f.site => {
                cur = cand;
                at = a2;
                f = g;
            }
            _ => i += 1,
        }
    }
    // cut everything after the failing op
    if let Some(n) = at.strip_prefix("op #").and_then(|s| s.split(' ').next()).and_then(|s| s.parse::<usize>().ok()) {
        cur.truncate(n + 1);
    }
    let names: Vec<String> = cur.iter().map(|o| o.name()).collect();
    rep.violation(
        f.class,
        &f.site,
        &format!(
            "{} — at {} of create({}){} ; {} (then epilogue: drain, drop sender, drain) [{}]",
            f.detail,
            at,
            eof,
            if wrapped { " read through actix_http::Payload::H1" } else { "" },
            names.join(" ; "),
            origin
        ),
        json!({"eof_init": eof, "wrapped": wrapped, "ops": names}),
    );
}

// ---- exhaustive enumeration --------------------------------------------------------------------

/// cheap validity state for pruning (mirrors `Sys::valid` without running anything)
#[derive(Clone, Copy)]
struct V {
    tx: bool,
    rx: bool,
    eof: bool,
    err: bool,
}

impl V {
    fn valid(&self, op: Op) -> bool {
        match op {
            Op::Feed(_) => self.tx && !self.eof && !self.err,
            Op::FeedEof => self.tx && !self.eof,
            Op::SetErr(_) => self.tx && !self.err,
            Op::DropSender | Op::NeedRead(_) => self.tx,
            Op::Poll(_) | Op::Unread(_) | Op::DropReader => self.rx,
            Op::UnreadBack(_) => false,
        }
    }
    fn apply(&mut self, op: Op) {
        match op {
            Op::FeedEof => self.eof = true,
            Op::SetErr(_) => self.err = true,
            Op::DropSender => self.tx = false,
            Op::DropReader => self.rx = false,
            _ => {}
        }
    }
}

const SMALL: usize = 1;
/// one byte under the limit: alone it leaves room, together with SMALL it hits the limit exactly,
/// two of them exceed it and take two polls to drain below it
const BIG: usize = LIMIT - 1;

fn alphabet() -> Vec<Op> {
    vec![
        Op::Feed(SMALL),
        Op::Feed(BIG),
        Op::FeedEof,
        Op::SetErr(ErrKind::Overflow),
        Op::DropSender,
        Op::NeedRead(0),
        Op::NeedRead(1),
        Op::Poll(0),
        Op::Poll(1),
        Op::Unread(5),
        Op::DropReader,
    ]
}

/// Depth-first walk over every valid sequence; `leaf` is called for every maximal one (full depth,
/// or no valid continuation).  Returns false if `leaf` asked to stop.
fn walk(alpha: &[Op], depth: usize, v: V, seq: &mut Vec<Op>, leaf: &mut dyn FnMut(&[Op]) -> bool) -> bool {
    if seq.len() == depth {
        return leaf(seq);
    }
    let mut any = false;
    for &op in alpha {
        if !v.valid(op) {
            continue;
        }
        any = true;
        let mut v2 = v;
        v2.apply(op);
        seq.push(op);
        let go = walk(alpha, depth, v2, seq, leaf);
        seq.pop();
        if !go {
            return false;
        }
    }
    if !any {
        return leaf(seq);
    }
    true
}

// ---- random sequences --------------------------------------------------------------------------

const SIZES: [usize; 14] = [0, 1, 2, 7, 100, 1500, 4096, 16_384, LIMIT - 2, LIMIT - 1, LIMIT, LIMIT + 1, 33_000, MAX_CHUNK];
const UNREAD_SIZES: [usize; 6] = [1, 5, 100, 4096, LIMIT - 1, 33_000];

#[derive(Clone, Copy, PartialEq, Eq, Debug)]
enum Profile {
    /// any valid op
    Free,
    /// the feeder asks need_read before every feed and feeds only on Read
    Disciplined,
    /// like Free but feeds are mostly large, so the buffer hovers around the limit
    Heavy,
}

fn gen_op(rng: &mut Rng, sys: &Sys<'_>, prof: Profile, last: Option<(Op, Out)>, remaining: usize) -> Op {
    // terminal operations are rare so that sequences stay alive; they become likely near the end
    let near_end = remaining < 12;
    for _ in 0..64 {
        let roll = rng.below(1000);
        let term = if near_end { 120 } else { 12 };
        let op = if roll < term {
            match rng.below(6) {
                0 => Op::FeedEof,
                1 => Op::SetErr(*rng.pick(&KINDS)),
                2 => Op::DropSender,
                3 => Op::DropReader,
                4 => Op::FeedEof,
                _ => Op::SetErr(*rng.pick(&KINDS)),
            }
        } else {
            let feeder_turn = rng.chance(1, 2);
            if feeder_turn {
                let size = match prof {
                    Profile::Heavy if rng.chance(3, 4) => *rng.pick(&SIZES[7..]),
                    _ if rng.chance(1, 8) => rng.range(0, MAX_CHUNK),
                    _ => *rng.pick(&SIZES),
                };
                match prof {
                    Profile::Disciplined => match last {
                        Some((Op::NeedRead(_), Out::Read)) => Op::Feed(size),
                        _ => Op::NeedRead(rng.below(2) as u8),
                    },
                    _ => {
                        if rng.chance(2, 5) {
                            Op::NeedRead(rng.below(2) as u8)
                        } else {
                            Op::Feed(size)
                        }
                    }
                }
            } else {
                match rng.below(20) {
                    0 => Op::Unread(*rng.pick(&UNREAD_SIZES)),
                    1 | 2 => Op::UnreadBack(*rng.pick(&[1usize, 3, 64, 100_000])),
                    _ => Op::Poll(if rng.chance(1, 6) { 1 } else { 0 }),
                }
            }
        };
        if sys.valid(op) {
            return op;
        }
    }
    // nothing valid found by sampling: fall back to whatever is still possible
    for op in [Op::Poll(0), Op::NeedRead(0), Op::DropSender, Op::DropReader] {
        if sys.valid(op) {
            return op;
        }
    }
    Op::DropReader
}

/// One online-generated random case.  Returns the ops executed and the failure, if any.
fn run_random(env: &Env, rng: &mut Rng, len: usize, st: &mut Stats) -> (bool, bool, Vec<Op>, Option<(String, Failure)>) {
    let eof = rng.chance(1, 25);
    let wrapped = rng.chance(1, 2);
    let prof = *rng.pick(&[Profile::Free, Profile::Disciplined, Profile::Heavy, Profile::Disciplined]);
    let mut ops: Vec<Op> = Vec::with_capacity(len);
    let r = guard(|| {
        let mut sys = Sys::new(env, eof, wrapped);
        let mut last = None;
        for k in 0..len {
            if !sys.m.sender_alive && !sys.m.reader_alive {
                break;
            }
            let op = gen_op(rng, &sys, prof, last, len - k);
            ops.push(op);
            match sys.step(op, st) {
                Ok(out) => last = Some((op, out)),
                Err(f) => return Some((format!("op #{k} {}", op.name()), f)),
            }
        }
        epilogue(&mut sys, st).err()
    });
    let fail = match r {
        Ok(x) => x,
        Err(p) => Some((
            "panic".into(),
            Failure { class: "panic", site: panic_site(&p), detail: format!("panic while running the sequence: {p}") },
        )),
    };
    (eof, wrapped, ops, fail)
}

// ---- wake-driven tasks -------------------------------------------------------------------------

#[derive(Clone, Copy, Debug, PartialEq, Eq)]
enum Ending {
    Eof,
    EofThenDrop,
    ErrThenEof(ErrKind),
    Err(ErrKind),
    Drop,
}

/// A feeder task and a reader task, each run only when it has never parked or the waker it parked
/// with has fired.  The feeder parks when `need_read` says Pause, the reader parks on `Pending`.
/// When no task is runnable the case is over: unless the body was delivered to its ending (or the
/// reader walked away), that is a logical stall.  All `step` oracles apply along the way.
fn run_tasks(env: &Env, rng: &mut Rng, miri: bool, st: &mut Stats) -> (bool, Vec<Op>, Option<(String, Failure)>) {
    let wrapped = rng.chance(1, 2);
    let nchunks = if miri { rng.range(1, 8) } else { rng.range(1, 60) };
    let big_bias = rng.below(4);
    let chunks: Vec<usize> = (0..nchunks)
        .map(|_| if rng.below(4) < big_bias { *rng.pick(&SIZES[6..]) } else { *rng.pick(&SIZES[..8]) })
        .collect();
    let ending = match rng.below(8) {
        0 | 1 | 2 => Ending::Eof,
        3 => Ending::EofThenDrop,
        4 => Ending::ErrThenEof(ErrKind::Incomplete),
        5 => Ending::Err(*rng.pick(&KINDS)),
        _ => Ending::Drop,
    };
    let feeder_burst = *rng.pick(&[1usize, 2, 4, 1000]);
    let reader_burst = *rng.pick(&[1usize, 2, 4, 1000]);
    let reader_share = *rng.pick(&[1usize, 2, 3]); // out of 4
    let unread_pct = *rng.pick(&[0usize, 0, 5, 20]);
    let reader_quits_after = if rng.chance(1, 8) { Some(rng.below(nchunks + 1)) } else { None };

    let mut ops: Vec<Op> = vec![];
    let r = guard(|| {
        let mut sys = Sys::new(env, false, wrapped);
        let mut next_chunk = 0usize;
        let mut ending_step = 0u8;
        let mut feeder_done = false;
        let mut reader_done = false; // ending received or walked away
        let mut reader_quit = false;
        let mut chunks_read = 0usize;
        // parked: Some(count of waker A when parking)
        let mut fpark: Option<u64> = None;
        let mut rpark: Option<u64> = None;
        let mut do_op = |sys: &mut Sys<'_>, op: Op, st: &mut Stats| -> Result<Out, (String, Failure)> {
            let k = ops.len();
            ops.push(op);
            sys.step(op, st).map_err(|f| (format!("op #{k} {}", op.name()), f))
        };
        let mut capped = true;
        for _ in 0..20_000 {
            let f_run = !feeder_done && fpark.map_or(true, |s| env.i[0].n() > s);
            let r_run = !reader_done && rpark.map_or(true, |s| env.r[0].n() > s);
            let pick_reader = match (f_run, r_run) {
                (false, false) => {
                    capped = false;
                    break;
                }
                (true, false) => false,
                (false, true) => true,
                (true, true) => rng.below(4) < reader_share,
            };
            if pick_reader {
                rpark = None;
                for _ in 0..reader_burst {
                    if reader_quits_after == Some(chunks_read) {
                        do_op(&mut sys, Op::DropReader, st)?;
                        reader_done = true;
                        reader_quit = true;
                        break;
                    }
                    match do_op(&mut sys, Op::Poll(0), st)? {
                        Out::Data => {
                            chunks_read += 1;
                            if rng.below(100) < unread_pct {
                                do_op(&mut sys, Op::UnreadBack(*rng.pick(&[1usize, 10, 100_000])), st)?;
                            }
                        }
                        Out::Pending => {
                            rpark = Some(env.r[0].n());
                            st.task_parks_reader += 1;
                            break;
                        }
                        Out::Err(_) | Out::End => {
                            // a truncated body is reported as error, then (if eof was fed) end;
                            // the reader stops at the first ending like any consumer would
                            reader_done = true;
                            break;
                        }
                        _ => {}
                    }
                }
            } else {
                fpark = None;
                for _ in 0..feeder_burst {
                    match do_op(&mut sys, Op::NeedRead(0), st)? {
                        Out::Pause => {
                            fpark = Some(env.i[0].n());
                            st.task_parks_feeder += 1;
                            break;
                        }
                        Out::Dropped => {
                            // drain mode: the connection would discard the rest of the body
                            feeder_done = true;
                            break;
                        }
                        _ => {}
                    }
                    if next_chunk < chunks.len() {
                        do_op(&mut sys, Op::Feed(chunks[next_chunk]), st)?;
                        next_chunk += 1;
                        continue;
                    }
                    let op = match (ending, ending_step) {
                        (Ending::Eof, 0) | (Ending::EofThenDrop, 0) => Some(Op::FeedEof),
                        (Ending::EofThenDrop, 1) => Some(Op::DropSender),
                        (Ending::ErrThenEof(k), 0) | (Ending::Err(k), 0) => Some(Op::SetErr(k)),
                        (Ending::ErrThenEof(_), 1) => Some(Op::FeedEof),
                        (Ending::Drop, 0) => Some(Op::DropSender),
                        _ => None,
                    };
                    match op {
                        Some(op) => {
                            do_op(&mut sys, op, st)?;
                            ending_step += 1;
                        }
                        None => {
                            feeder_done = true;
                            break;
                        }
                    }
                    if !sys.m.sender_alive {
                        feeder_done = true;
                        break;
                    }
                }
            }
        }
        let k = ops.len();
        if capped {
            // still runnable after 20 000 scheduling steps: not a verdict the monitor can give
            st.task_capped += 1;
            return Ok(());
        }
        // nobody is runnable any more
        if reader_quit {
            st.task_reader_dropped += 1;
            if !feeder_done {
                // parked on Pause when the reader walked away: Payload has no Drop hook; the
                // property does not promise a wake-up here (the dispatcher is re-polled by the
                // handler's completion), so this is counted, not judged
                st.task_feeder_parked_at_reader_drop += 1;
            }
            return Ok(());
        }
        if !reader_done || !feeder_done {
            let who = match (feeder_done, reader_done) {
                (false, false) => "feeder parked on Pause and reader parked on Pending",
                (true, false) => "feeder finished (ending signalled) but the reader stays parked on Pending",
                _ => "reader got its ending but the feeder stays parked on Pause",
            };
            if !reader_done || sys.m.sender_alive && sys.feeder_parked() && !feeder_done && sys.m.delivered_end.is_none() {
                return Err((
                    format!("after op #{}", k.saturating_sub(1)),
                    Failure {
                        class: "stall/no-runnable-task",
                        site: format!("tasks: {} | {}", if feeder_done { "feeder done" } else { "feeder parked" }, if reader_done { "reader done" } else { "reader parked" }),
                        detail: format!("{who}; fed {}/{} chunks, {} bytes in, {} bytes out", next_chunk, chunks.len(), sys.m.total_in, sys.m.total_out),
                    },
                ));
            }
        }
        // the reader reached an ending: everything that was put in must have come out
        if sys.m.total_in != sys.m.total_out {
            return Err((
                format!("after op #{}", k.saturating_sub(1)),
                Failure {
                    class: "bytes/lost-before-ending",
                    site: "tasks: totals".into(),
                    detail: format!("reader got its ending after {} bytes, {} were put in", sys.m.total_out, sys.m.total_in),
                },
            ));
        }
        st.task_completed += 1;
        Ok(())
    });
    let fail = match r {
        Ok(Ok(())) => None,
        Ok(Err(e)) => Some(e),
        Err(p) => Some((
            "panic".into(),
            Failure { class: "panic", site: panic_site(&p), detail: format!("panic while running the tasks: {p}") },
        )),
    };
    st.task_cases += 1;
    (wrapped, ops, fail)
}

// ------------------------------------------------------------------------------------------------

fn flush_stats(st: &Stats, rep: &mut Reporter) {
    let op_names = ["feed-empty", "feed>=limit", "feed", "feed_eof", "set_error", "drop_sender", "need_read", "poll", "unread", "unread_back", "drop_reader"];
    for (i, n) in op_names.iter().enumerate() {
        rep.count(&format!("op:{n}"), st.ops[i]);
    }
    let out_names = ["ok", "skipped", "poll:data", "poll:pending", "poll:error", "poll:end", "need_read:read", "need_read:pause", "need_read:dropped"];
    for (i, n) in out_names.iter().enumerate() {
        if i != 1 {
            rep.count(&format!("result:{n}"), st.outs[i]);
        }
    }
    for (i, k) in KINDS.iter().enumerate() {
        rep.count(&format!("error_delivered:{}", k.name()), st.err_by_kind[i]);
    }
    rep.count("error_delivered:other", st.err_by_kind[5]);
    rep.count("ops_skipped_invalid", st.skipped);
    rep.count("bytes_fed", st.bytes_fed);
    rep.count("bytes_pushed_back", st.bytes_unread);
    rep.count("bytes_delivered_and_compared", st.bytes_delivered);
    rep.count("chunks_delivered", st.chunks_delivered);
    rep.count("chunk_boundary_kept", st.boundary_kept);
    rep.count("chunk_boundary_changed", st.boundary_changed);
    rep.count("empty_chunks_delivered", st.empty_chunks_delivered);
    rep.count("reader_wakeups_demanded_and_seen", st.reader_wake_demands);
    rep.count("feeder_wakeups_demanded_and_seen", st.feeder_wake_demands);
    rep.count("reader_reparked_with_other_waker", st.reader_rearmed_other_waker);
    rep.count("feeder_reparked_with_other_waker", st.feeder_rearmed_other_waker);
    rep.count("pause_at_or_over_limit", st.pause_at_or_over_limit);
    rep.count("pause_below_limit", st.pause_below_limit);
    rep.count("tolerated:read_over_limit_after_unread", st.read_over_limit_after_unread);
    rep.count("tolerated:read_at_exactly_limit", st.read_at_exact_limit);
    rep.count("tolerated:read_after_reader_drop", st.read_after_reader_drop);
    rep.count("tolerated:dropped_status_with_reader_alive", st.dropped_status_with_reader_alive);
    rep.count("tolerated:reader_dropped_while_feeder_paused", st.reader_dropped_while_feeder_paused);
    rep.count("ending:clean", st.end_clean);
    rep.count("ending:error_then_clean", st.end_error_then_clean);
    rep.count("ending:incomplete_by_sender_drop", st.end_incomplete_by_drop);
    rep.count("ending:set_error", st.end_set_error);
    rep.count("polls_after_ending", st.polls_after_ending);
    rep.max("buffered_bytes", st.max_buffered);
    rep.max("buffered_bytes_disciplined_feeder", st.max_buffered_disciplined);
    rep.count("epilogues", st.epilogues);
    rep.count("task_cases", st.task_cases);
    rep.count("task_cases_delivered_to_ending", st.task_completed);
    rep.count("task_reader_parks", st.task_parks_reader);
    rep.count("task_feeder_parks", st.task_parks_feeder);
    rep.count("task_reader_walked_away", st.task_reader_dropped);
    rep.count("tolerated:task_feeder_parked_when_reader_walked_away", st.task_feeder_parked_at_reader_drop);
    for s in &st.states {
        rep.sig(&format!("{s:x}"));
    }
}

fn ops_json(ops: &[Op], max: usize) -> Value {
    json!(ops.iter().take(max).map(|o| o.name()).collect::<Vec<_>>())
}

pub fn run(ctx: &Ctx, rep: &mut Reporter) {
    let miri = ctx.is_miri();
    let env = Env::new(miri);
    let mut st = Stats::default();

    // ---- replay ---------------------------------------------------------------------------------
    if let Some(rp) = &ctx.replay {
        rep.eval();
        if let Some(t) = rp.get("tasks") {
            let (seed, k) = (t["seed"].as_u64().unwrap_or(0), t["k"].as_u64().unwrap_or(0));
            let mut rng = Rng::derive(seed, 73, k);
            let (_, ops, fail) = run_tasks(&env, &mut rng, t["miri"].as_bool().unwrap_or(false), &mut st);
            if let Some((at, f)) = fail {
                let names: Vec<String> = ops.iter().map(|o| o.name()).collect();
                rep.violation(f.class, &f.site, &format!("{} — at {} of tasks case: {}", f.detail, at, names.join(" ; ")), rp.clone());
            }
        } else {
            let eof = rp["eof_init"].as_bool().unwrap_or(false);
            let wrapped = rp["wrapped"].as_bool().unwrap_or(false);
            let ops: Vec<Op> = rp["ops"].as_array().map(|a| a.iter().filter_map(|v| v.as_str().and_then(Op::parse)).collect()).unwrap_or_default();
            if let Some((at, f)) = run_fixed(&env, eof, wrapped, &ops, &mut st) {
                report_failure(&env, rep, eof, wrapped, &ops, at, f, "replay");
            }
        }
        flush_stats(&st, rep);
        rep.sig("replay");
        rep.sig("replay2");
        return;
    }

    // ---- phase 1: every valid sequence to the depth bound, from both initial states -------------
    let alpha = alphabet();
    let depth: usize = if miri { 4 } else if ctx.thorough() { 10 } else { 7 };
    let mut complete = true;
    let mut leaf_idx = 0u64;
    let mut ran = 0u64;
    for eof in [false, true] {
        let v0 = V { tx: true, rx: true, eof, err: false };
        let mut seq = Vec::with_capacity(depth);
        let mut failures: Vec<(Vec<Op>, String, Failure)> = vec![];
        let mut leaf = |ops: &[Op]| -> bool {
            let idx = leaf_idx;
            leaf_idx += 1;
            if !ctx.mine(idx) {
                return true;
            }
            if ran % 8192 == 0 && ctx.out_of_time() {
                return false;
            }
            ran += 1;
            rep.eval();
            if let Some((at, f)) = run_fixed(&env, eof, false, ops, &mut st) {
                if failures.len() < 64 {
                    failures.push((ops.to_vec(), at, f));
                }
            }
            if ran == 1 || ran == 40_001 {
                rep.sample("exhaustive-sequence", json!({"create_eof": eof, "ops": ops_json(ops, 16)}));
            }
            true
        };
        if !walk(&alpha, depth, v0, &mut seq, &mut leaf) {
            complete = false;
        }
        for (ops, at, f) in failures {
            report_failure(&env, rep, eof, false, &ops, at, f, "exhaustive");
        }
    }
    rep.exhaustive(
        &format!("all valid op sequences of length <= {depth} over {} operation instances, from create(false) and create(true)", alpha.len()),
        complete,
    );
    rep.max("exhaustive_depth", depth as u64);
    rep.max("exhaustive_maximal_sequences", leaf_idx);
    rep.count("exhaustive_sequences_run", ran);

    // ---- phase 2: long random sequences, generated online ---------------------------------------
    let nseq = if miri { 12 } else { ctx.share(640_000, 16_000_000) };
    let len = if miri { 40 } else { 200 };
    for s in 0..nseq {
        if s % 64 == 0 && ctx.out_of_time() {
            rep.inconclusive("random phase cut short by the time budget");
            break;
        }
        let mut rng = Rng::derive(ctx.seed, 7, s * ctx.nshards + ctx.shard);
        rep.eval();
        let (eof, wrapped, ops, fail) = run_random(&env, &mut rng, len, &mut st);
        rep.count("random_ops", ops.len() as u64);
        rep.count(if wrapped { "cases_read_through_actix_http_Payload" } else { "cases_read_bare_h1_Payload" }, 1);
        if let Some((at, f)) = fail {
            report_failure(&env, rep, eof, wrapped, &ops, at, f, "random");
        }
        if s == 0 {
            rep.sample("random-sequence-prefix", json!({"create_eof": eof, "ops": ops_json(&ops, 24)}));
        }
    }

    // ---- phase 3: wake-driven feeder and reader tasks -------------------------------------------
    let ntask = if miri { 8 } else { ctx.share(480_000, 12_000_000) };
    for s in 0..ntask {
        if s % 64 == 0 && ctx.out_of_time() {
            rep.inconclusive("task phase cut short by the time budget");
            break;
        }
        let k = s * ctx.nshards + ctx.shard;
        let mut rng = Rng::derive(ctx.seed, 73, k);
        rep.eval();
        let (wrapped, ops, fail) = run_tasks(&env, &mut rng, miri, &mut st);
        rep.count("task_ops", ops.len() as u64);
        rep.count(if wrapped { "cases_read_through_actix_http_Payload" } else { "cases_read_bare_h1_Payload" }, 1);
        if let Some((at, f)) = fail {
            if f.class == "stall/no-runnable-task" || f.site.starts_with("tasks:") {
                let names: Vec<String> = ops.iter().map(|o| o.name()).collect();
                let tail = names.len().saturating_sub(30);
                rep.violation(
                    f.class,
                    &f.site,
                    &format!("{} — at {}; last ops: {}", f.detail, at, names[tail..].join(" ; ")),
                    json!({"tasks": {"seed": ctx.seed, "k": k, "miri": miri}}),
                );
            } else {
                // a per-operation clause fired: the op list alone reproduces it
                report_failure(&env, rep, false, wrapped, &ops, at, f, "tasks");
            }
        }
        if s == 0 {
            rep.sample("task-schedule-prefix", ops_json(&ops, 24));
        }
    }

    flush_stats(&st, rep);
    if st.reader_wake_demands == 0 || st.feeder_wake_demands == 0 {
        rep.inconclusive("no reader or no feeder wake-up was ever demanded: the wake-up clauses observed nothing");
    }
    if st.end_clean == 0 || st.end_incomplete_by_drop == 0 || st.end_set_error == 0 {
        rep.inconclusive("an ending class (clean / set error / incomplete by sender drop) was never delivered");
    }
    if st.task_capped > 0 {
        rep.inconclusive("a task case was still runnable after 20000 scheduling steps");
    }
    if !miri && (st.pause_at_or_over_limit == 0 || st.task_completed == 0) {
        rep.inconclusive("back-pressure never engaged or no task case ran to its ending");
    }
}
