//! C03 — HTTP/1 reuse discipline: close means close; unread bodies are never reparsed.
//!
//! Obs: handler invocations (target, order), the wire, bytes the server took from the socket.
//! Oracles: (1) after the first response that ends the connection (announces `connection: close`,
//! answers an HTTP/1.0 request without keep-alive, or is a server-generated error response)
//! nothing more is written and no further handler runs — also not for requests that were already
//! pipelined behind it; (2) the sequence of dispatched requests is a prefix of the ground-truth
//! request list: bodies are stuffed with request look-alikes, so body bytes a handler ignored that
//! get interpreted as a request show up as a foreign target or as a spurious 400.

use serde_json::{json, Value};

use crate::{
    gen::h1::{body_bytes, CANARY},
    refmodel::h1_resp::{self, RefResp},
    report::{guard, panic_site, Ctx, Reporter},
    util::{esc_short, Rng},
    world::{
        conn::ConnCfg,
        run::{acts_from_json, acts_to_json, run_scenario, Act, Outcome, Scenario},
        svc::{fill_data, BStep, BodyKind, Conn, Prog, ReadMode},
    },
};

#[derive(Clone, Debug, PartialEq)]
pub struct Req3 {
    pub method: &'static str,
    pub v10: bool,
    /// 0 none, 1 close, 2 keep-alive
    pub conn: u8,
    /// 0 no body, 1 content-length, 2 chunked
    pub framing: u8,
    pub body_len: usize,
    pub body_seed: u64,
}

impl Req3 {
    pub fn body(&self, i: usize) -> Vec<u8> {
        let mut rng = Rng::new(self.body_seed);
        body_bytes(&mut rng, self.body_len, 100 + i)
    }
    pub fn bytes(&self, i: usize) -> Vec<u8> {
        let mut s = format!("{} /r{} HTTP/1.{}\r\nHost: t\r\n", self.method, i, if self.v10 { 0 } else { 1 });
        match self.conn {
            1 => s.push_str("Connection: close\r\n"),
            2 => s.push_str("Connection: keep-alive\r\n"),
            _ => {}
        }
        let body = self.body(i);
        match self.framing {
            1 => s.push_str(&format!("Content-Length: {}\r\n", body.len())),
            2 => s.push_str("Transfer-Encoding: chunked\r\n"),
            _ => {}
        }
        s.push_str("\r\n");
        let mut v = s.into_bytes();
        match self.framing {
            1 => v.extend_from_slice(&body),
            2 => {
                let mut p = 0;
                let mut k = self.body_seed as usize;
                while p < body.len() {
                    k = k.wrapping_mul(31).wrapping_add(7);
                    let n = (body.len() - p).min(1 + k % 3000);
                    v.extend_from_slice(format!("{:x}\r\n", n).as_bytes());
                    v.extend_from_slice(&body[p..p + n]);
                    v.extend_from_slice(b"\r\n");
                    p += n;
                }
                v.extend_from_slice(b"0\r\n\r\n");
            }
            _ => {}
        }
        v
    }
    fn wants_close(&self) -> bool {
        self.conn == 1 || (self.v10 && self.conn != 2)
    }
    pub fn tag(&self) -> String {
        format!("{}{}{}{}", &self.method[..1], if self.v10 { "0" } else { "1" }, ["", "c", "k"][self.conn as usize], ["", "L", "T"][self.framing as usize])
    }
    pub fn to_json(&self) -> Value {
        json!({"method": self.method, "v10": self.v10, "conn": self.conn, "framing": self.framing, "body_len": self.body_len, "body_seed": self.body_seed})
    }
    pub fn from_json(v: &Value) -> Self {
        Req3 {
            method: match v["method"].as_str() {
                Some("POST") => "POST",
                Some("PUT") => "PUT",
                Some("HEAD") => "HEAD",
                _ => "GET",
            },
            v10: v["v10"].as_bool().unwrap_or(false),
            conn: v["conn"].as_u64().unwrap_or(0) as u8,
            framing: v["framing"].as_u64().unwrap_or(0) as u8,
            body_len: v["body_len"].as_u64().unwrap_or(0) as usize,
            body_seed: v["body_seed"].as_u64().unwrap_or(0),
        }
    }
}

#[derive(Clone, Debug)]
pub struct Case {
    pub cfg: ConnCfg,
    pub reqs: Vec<Req3>,
    pub progs: Vec<Prog>,
    pub acts: Vec<Act>,
    /// the peer half-closed somewhere inside the schedule (before all bytes were sent)
    pub early_eof: bool,
}

impl Case {
    fn ngates(&self) -> usize {
        self.reqs.len() * 3
    }
    fn scenario(&self) -> Scenario {
        let mut sc = Scenario::new(self.cfg.clone(), self.progs.clone(), self.ngates());
        sc.acts = self.acts.clone();
        for g in 0..self.ngates() {
            sc.settle.push(Act::Gate(g, 1_000_000));
        }
        sc.settle.push(Act::ReleaseHeld);
        sc.settle.push(Act::Eof);
        // with a disconnect timeout configured the linger / shutdown phase ends by timer
        if self.cfg.disc_timeout_ms > 0 {
            sc.settle.push(Act::Advance(self.cfg.disc_timeout_ms + 1500));
        }
        sc
    }
    pub fn to_json(&self) -> Value {
        json!({"cfg": self.cfg.to_json(), "reqs": self.reqs.iter().map(|r| r.to_json()).collect::<Vec<_>>(), "progs": self.progs.iter().map(|p| p.to_json()).collect::<Vec<_>>(), "acts": acts_to_json(&self.acts), "early_eof": self.early_eof})
    }
    fn from_json(v: &Value) -> Case {
        Case {
            cfg: ConnCfg::from_json(&v["cfg"]),
            reqs: v["reqs"].as_array().map(|a| a.iter().map(Req3::from_json).collect()).unwrap_or_default(),
            progs: v["progs"].as_array().map(|a| a.iter().map(Prog::from_json).collect()).unwrap_or_default(),
            acts: acts_from_json(&v["acts"]),
            early_eof: v["early_eof"].as_bool().unwrap_or(false),
        }
    }
}

fn read_tag(p: &Prog) -> &'static str {
    match p.read {
        ReadMode::Ignore => "ignore",
        ReadMode::All => "all",
        ReadMode::Chunks(_) => "part",
        ReadMode::Hold => "hold",
        ReadMode::AfterRespond => "after",
        ReadMode::DropFirst => "drop",
    }
}

struct Verdict {
    class: &'static str,
    sig: String,
    detail: String,
}

struct Judged {
    verdicts: Vec<Verdict>,
    closing_idx: Option<usize>,
    closing_kind: &'static str,
    kept_alive_after_unread: u64,
    closed_after_unread: u64,
    closed_unannounced: u64,
    drained: u64,
    self_close_checked: u64,
}

/// Is this response one after which the connection must end?
fn closing_kind(r: &RefResp) -> Option<&'static str> {
    if r.req_idx_header().is_none() {
        Some("server-error-response")
    } else if r.has_close() {
        Some("connection-close")
    } else if r.version == 10 && !r.has_keep_alive() {
        Some("http10-no-keep-alive")
    } else {
        None
    }
}

fn judge(case: &Case, oc: &Outcome) -> Judged {
    let mut j = Judged { verdicts: vec![], closing_idx: None, closing_kind: "", kept_alive_after_unread: 0, closed_after_unread: 0, closed_unannounced: 0, drained: 0, self_close_checked: 0 };
    let n = case.reqs.len();
    let cfgsig = format!("ka={} linger={} half={}", case.cfg.keep_alive_s.is_some(), case.cfg.disc_timeout_ms > 0, case.cfg.half_closed);
    if oc.livelock {
        j.verdicts.push(Verdict { class: "livelock", sig: "poll-cap".into(), detail: "connection kept waking itself beyond the poll cap".into() });
        return j;
    }
    // (2) dispatched requests are a prefix of the ground truth
    for (k, r) in oc.reqs.iter().enumerate() {
        let want = format!("/r{k}");
        if k >= n || r.target != want || r.method != case.reqs[k].method {
            let prev = k.checked_sub(1).map(|p| format!("{} read={}", case.reqs[p].tag(), read_tag(&case.progs[p]))).unwrap_or_else(|| "start".into());
            j.verdicts.push(Verdict {
                class: if r.target.contains(CANARY) { "body-bytes-dispatched-as-request" } else { "foreign-request-dispatched" },
                sig: format!("after {prev} {cfgsig}"),
                detail: format!("handler invocation #{k} is {} {} but the {}-request ground truth has {} there", r.method, r.target, n, if k < n { want } else { "nothing".into() }),
            });
            return j;
        }
    }
    let methods: Vec<String> = case.reqs.iter().map(|r| r.method.to_string()).collect();
    let rp = h1_resp::parse_responses(&oc.out, &|i| methods.get(i).cloned(), true);
    // (1) first closing response
    let mut finals = 0usize;
    for r in &rp.resps {
        if r.is_interim() {
            continue;
        }
        let pos = finals;
        finals += 1;
        if let Some(kind) = closing_kind(r) {
            j.closing_idx = Some(pos);
            j.closing_kind = kind;
            // Was the next request already delivered to the server when the closing response had
            // been written completely?  (action indices; `acts` then `settle`)
            let a_end = oc.snaps.iter().position(|sn| sn.out_len >= r.end && r.complete).unwrap_or(usize::MAX);
            let next = r.req_idx_header().unwrap_or(pos) + 1;
            let arrival = if next < n {
                // offset of the end of request `next`'s head in the concatenated stream
                let mut off = 0usize;
                for (k, rq) in case.reqs.iter().enumerate().take(next + 1) {
                    let b = rq.bytes(k);
                    if k == next {
                        off += b.windows(4).position(|w| w == b"\r\n\r\n").map(|p| p + 4).unwrap_or(b.len());
                    } else {
                        off += b.len();
                    }
                }
                let mut pushed = 0usize;
                let mut a_push = usize::MAX;
                for (ai, a) in case.acts.iter().enumerate() {
                    if let Act::Push(d) = a {
                        pushed += d.len();
                        if pushed >= off {
                            a_push = ai;
                            break;
                        }
                    }
                }
                if a_push <= a_end { "pipelined-before-closing-response-complete" } else { "arrived-after-closing-response-complete" }
            } else {
                "no-next-request"
            };
            let ci = r.req_idx_header().unwrap_or(pos);
            let reason = if ci >= n {
                "none"
            } else if case.reqs[ci].wants_close() {
                "request-asked-close"
            } else if case.cfg.keep_alive_s.is_none() {
                "keep-alive-disabled"
            } else if case.progs[ci].conn == Conn::Close {
                "handler-forced-close"
            } else if case.reqs[ci].v10 && !matches!(case.progs[ci].kind, BodyKind::Bytes) {
                "http10-stream-body"
            } else if oc.reqs.get(ci).map(|x| x.body.len() < case.reqs[ci].body_len).unwrap_or(false) {
                "unread-request-body"
            } else {
                "unexplained"
            };
            let arrival = format!("{reason} {arrival}");
            if r.complete && r.end < oc.out.len() {
                j.verdicts.push(Verdict {
                    class: "bytes-after-closing-response",
                    sig: kind.to_string(),
                    detail: format!("[{arrival}] {} bytes were written after response #{pos} ({} {}), which ends the connection: …{}", oc.out.len() - r.end, r.status, kind, esc_short(&oc.out[r.end..(r.end + 80).min(oc.out.len())], 120)),
                });
            }
            // a handler beyond the closing response's request ran
            let idx = r.req_idx_header().unwrap_or(pos);
            if oc.reqs.len() > idx + 1 && r.req_idx_header().is_some() {
                j.verdicts.push(Verdict {
                    class: "dispatch-after-closing-response",
                    sig: kind.to_string(),
                    detail: format!("[{arrival}] response #{idx} ends the connection ({kind}) but {} further handler(s) ran, first {}", oc.reqs.len() - idx - 1, oc.reqs[idx + 1].target),
                });
            }
            if kind == "server-error-response" {
                // every generated stream is well-formed: an error response means bytes were
                // interpreted that were never meant to be a request head (or a well-formed request
                // was refused)
                if !(case.early_eof && matches!(r.status, 400 | 408)) {
                    let prev = pos.checked_sub(1).filter(|p| *p < n).map(|p| format!("{} read={}", case.reqs[p].tag(), read_tag(&case.progs[p]))).unwrap_or_else(|| "start".into());
                    j.verdicts.push(Verdict {
                        class: "spurious-error-response",
                        sig: format!("status={} after {prev} {cfgsig}", r.status),
                        detail: format!("the server answered {} by itself at response position {pos} although every request sent was well-formed ({} handlers ran): unread body bytes parsed as a request?", r.status, oc.reqs.len()),
                    });
                }
            }
            break;
        }
    }
    // (1b) close means close, also when nothing follows: once a closing response has been written
    // completely, every byte sent has been taken and nothing is left to do, the server must start
    // closing by itself — it must not sit there waiting for the peer's FIN.  (Not demanded while
    // it lingers on an unread body, which by design waits for the peer or the disconnect timeout.)
    if let (Some(ci), false) = (j.closing_idx, case.early_eof) {
        let n_acts = case.acts.len();
        let eof_at = n_acts + case.ngates() + 1; // settle: gates, ReleaseHeld, then Eof
        let finals: Vec<&RefResp> = rp.resps.iter().filter(|r| !r.is_interim()).collect();
        if let (Some(r), Some(before)) = (finals.get(ci), eof_at.checked_sub(1).and_then(|k| oc.snaps.get(k))) {
            let sent: usize = case.acts.iter().map(|a| if let Act::Push(d) = a { d.len() } else { 0 }).sum();
            let lingering = case.cfg.disc_timeout_ms > 0;
            let last_is_closing = finals.len() == ci + 1 && oc.reqs.len() <= ci + 1;
            if r.complete && before.out_len >= r.end && before.bytes_read as usize >= sent && !lingering && last_is_closing {
                j.self_close_checked += 1;
            }
            if r.complete && before.out_len >= r.end && before.bytes_read as usize >= sent && !lingering && last_is_closing && !(before.done || before.closed || before.shutdown_calls > 0) {
                j.verdicts.push(Verdict {
                    class: "connection-kept-open-after-closing-response",
                    sig: format!("{} {cfgsig}", j.closing_kind),
                    detail: format!("response #{ci} ({}) ends the connection and was written completely, all {sent} bytes sent were taken, yet the server had not started closing before the peer's FIN", j.closing_kind),
                });
            }
        }
    }
    if let Some((at, why)) = rp.malformed_at {
        if j.closing_idx.is_none() {
            j.verdicts.push(Verdict { class: "stream-malformed", sig: why.to_string(), detail: format!("response stream not well-formed at {at} ({why})") });
        }
    }
    // (3) classification of what happened around unread bodies (observations + consistency)
    for (i, rec) in oc.reqs.iter().enumerate() {
        let body = case.reqs[i].body(i);
        let unread = rec.body.len() < body.len();
        if !unread || case.reqs[i].framing == 0 {
            continue;
        }
        let next_ran = oc.reqs.len() > i + 1;
        if next_ran {
            // (the ground-truth check above already established the next request is the right one)
            j.kept_alive_after_unread += 1;
            j.drained += 1;
        } else {
            j.closed_after_unread += 1;
            let announced = rp.resps.iter().filter(|r| !r.is_interim()).nth(i).map(|r| r.has_close() || (r.version == 10 && !r.has_keep_alive())).unwrap_or(true);
            if !announced {
                j.closed_unannounced += 1;
            }
        }
    }
    j
}

fn eval_case(case: &Case, rep: &mut Reporter) {
    rep.eval();
    let sc = case.scenario();
    let oc = match guard(|| run_scenario(&sc)) {
        Ok(o) => o,
        Err(p) => {
            rep.violation("panic", &panic_site(&p), &format!("panic while serving: {p}"), case.to_json());
            return;
        }
    };
    let j = judge(case, &oc);
    if std::env::var("AVMON_DEBUG").is_ok() {
        for (i, a) in sc.acts.iter().chain(sc.settle.iter()).enumerate() {
            let sn = &oc.snaps[i];
            let what = match a {
                Act::Push(d) => format!("push {} bytes: {}", d.len(), esc_short(d, 70)),
                other => format!("{other:?}"),
            };
            eprintln!("act {i:2} {what}\n        -> out={} reqs={} read={} done={} closed={} polls={} t={}ms", sn.out_len, sn.n_reqs, sn.bytes_read, sn.done, sn.closed, sn.polls, sn.t_ms);
        }
        eprintln!("result={:?} stalled={} pending_in={}", oc.result, oc.stalled, oc.pending_in);
        for r in &oc.reqs {
            eprintln!("req {} {} {} body={} end={:?} out_at_invoke={}", r.idx, r.method, r.target, r.body.len(), r.body_end, r.out_len_at_invoke);
        }
        eprintln!("wire: {}", esc_short(&oc.out, 1500));
    }
    rep.count("handler_invocations", oc.reqs.len() as u64);
    rep.count("closing_response_last:server_closed_by_itself_checked", j.self_close_checked);
    rep.count("unread_body_then_next_request_served(drained)", j.kept_alive_after_unread);
    rep.count("unread_body_then_connection_ended", j.closed_after_unread);
    rep.count("unread_body_connection_ended_without_announcement(tolerated)", j.closed_unannounced);
    if j.closing_idx.is_some() {
        rep.count(&format!("closing:{}", j.closing_kind), 1);
        if oc.pending_in > 0 || (oc.bytes_read as usize) < sc.acts.iter().map(|a| if let Act::Push(d) = a { d.len() } else { 0 }).sum::<usize>() {
            rep.count("closing_with_pipelined_bytes_behind", 1);
        }
    }
    if !oc.done {
        rep.count("connection_still_open_at_end", 1);
    }
    for v in &j.verdicts {
        let detail = format!(
            "{} | reqs=[{}] reads=[{}] cfg ka={:?} disc={}ms half_closed={} early_eof={}",
            v.detail,
            case.reqs.iter().map(|r| r.tag()).collect::<Vec<_>>().join(","),
            case.progs.iter().map(read_tag).collect::<Vec<_>>().join(","),
            case.cfg.keep_alive_s,
            case.cfg.disc_timeout_ms,
            case.cfg.half_closed,
            case.early_eof
        );
        rep.violation(v.class, &v.sig, &detail, case.to_json());
    }
    // abstract signature: (read-mode, response timing class, framing, config, outcome) per request
    for (i, rec) in oc.reqs.iter().enumerate() {
        let body_len = case.reqs[i].body_len;
        let timing = if case.reqs[i].framing == 0 {
            "nobody"
        } else if rec.body.len() >= body_len {
            "after-body"
        } else if rec.body.is_empty() {
            "before-body"
        } else {
            "during-body"
        };
        let outcome = if oc.reqs.len() > i + 1 { "continued" } else { "ended" };
        rep.sig(&format!(
            "{}|{}|{}|ka={} linger={} half={}|{}|{}",
            read_tag(&case.progs[i]),
            timing,
            case.reqs[i].tag(),
            case.cfg.keep_alive_s.is_some(),
            case.cfg.disc_timeout_ms > 0,
            case.cfg.half_closed,
            outcome,
            match case.progs[i].kind {
                BodyKind::Bytes => "bytes",
                _ => "stream",
            }
        ));
    }
}

// ------------------------------------------------------------------------------------ generator

fn gen_case(rng: &mut Rng) -> Case {
    let n = match rng.below(8) {
        0 => 1,
        1..=4 => 2,
        5 | 6 => 3,
        _ => 5,
    };
    let mut cfg = ConnCfg::persistent();
    if rng.chance(1, 8) {
        cfg.keep_alive_s = None;
    }
    if rng.chance(1, 2) {
        cfg.disc_timeout_ms = *rng.pick(&[1000u64, 5000]);
    }
    cfg.half_closed = rng.chance(1, 2);
    let mut reqs = vec![];
    let mut progs = vec![];
    for i in 0..n {
        let has_body = rng.chance(3, 4);
        let v10 = rng.chance(1, 6);
        let framing = if !has_body {
            0
        } else if v10 || rng.chance(1, 2) {
            1
        } else {
            2
        };
        let conn = if rng.chance(1, 7) {
            1
        } else if v10 {
            if rng.chance(1, 4) {
                0
            } else {
                2
            }
        } else if rng.chance(1, 8) {
            2
        } else {
            0
        };
        let body_len = if framing == 0 { 0 } else { *rng.pick(&[1usize, 40, 300, 3000, 20_000, 50_000, 140_000]) };
        reqs.push(Req3 { method: if framing == 0 { "GET" } else { "POST" }, v10, conn, framing, body_len, body_seed: rng.next() });
        let read = match rng.below(9) {
            0 | 1 => ReadMode::Ignore,
            2 | 3 => ReadMode::All,
            4 => ReadMode::Chunks(rng.range(1, 3)),
            5 => ReadMode::Hold,
            6 => ReadMode::AfterRespond,
            7 => ReadMode::DropFirst,
            _ => ReadMode::All,
        };
        let mut p = Prog { read, ..Default::default() };
        // gates: 3i pre (before reading), 3i+1 post (before responding), 3i+2 body waits / read gate
        if rng.chance(1, 3) {
            p.pre_gate = Some(3 * i);
        }
        if rng.chance(1, 2) {
            p.post_gate = Some(3 * i + 1);
        }
        if rng.chance(1, 5) {
            p.read_gate = Some(3 * i + 2);
        }
        if rng.chance(1, 3) {
            p.kind = if rng.chance(1, 2) { BodyKind::BodyStream } else { BodyKind::SizedStream(9) };
            p.steps = vec![BStep::Data(fill_data(4, 1)), BStep::Wait(3 * i + 2), BStep::Data(fill_data(5, 9))];
        }
        if rng.chance(1, 10) {
            p.conn = Conn::Close;
        }
        // responses with an empty body take a different arm of send_response, and responses
        // handed over through the service's Err path a different copy of the sending code
        if rng.chance(1, 6) {
            p.kind = BodyKind::Bytes;
            p.steps = vec![];
        }
        if rng.chance(1, 6) {
            p.fail = true;
            p.status = 500;
        }
        progs.push(p);
    }
    // the byte stream, cut into read segments (cuts inside bodies included)
    let mut stream = vec![];
    let mut ends = vec![];
    for (i, r) in reqs.iter().enumerate() {
        stream.extend_from_slice(&r.bytes(i));
        ends.push(stream.len());
    }
    let mut cuts = rng.cuts(stream.len(), 8);
    if rng.chance(1, 2) {
        // one segment per request: classic pipelining
        cuts = ends[..ends.len() - 1].to_vec();
    }
    cuts.sort_unstable();
    cuts.dedup();
    let segs = crate::util::split_at_cuts(&stream, &cuts);
    let mut lists: Vec<Vec<Act>> = vec![segs.into_iter().map(Act::Push).collect()];
    for (i, p) in progs.iter().enumerate() {
        if p.pre_gate.is_some() {
            lists.push(vec![Act::Gate(3 * i, 1)]);
        }
        if p.post_gate.is_some() {
            lists.push(vec![Act::Gate(3 * i + 1, 1)]);
        }
        let waits = p.steps.iter().filter(|s| matches!(s, BStep::Wait(_))).count() + if p.read_gate.is_some() { 6 } else { 0 };
        if waits > 0 {
            lists.push((0..waits).map(|_| Act::Gate(3 * i + 2, 1)).collect());
        }
        if p.read == ReadMode::Hold && rng.chance(1, 2) {
            lists.push(vec![Act::ReleaseHeld]);
        }
    }
    let mut acts = vec![];
    let mut pos = vec![0usize; lists.len()];
    let all_first = rng.chance(1, 3);
    if all_first {
        acts.extend(lists[0].iter().cloned());
        pos[0] = lists[0].len();
    }
    loop {
        let avail: Vec<usize> = (0..lists.len()).filter(|&k| pos[k] < lists[k].len()).collect();
        if avail.is_empty() {
            break;
        }
        let k = *rng.pick(&avail);
        acts.push(lists[k][pos[k]].clone());
        pos[k] += 1;
    }
    // peer half-close at a random point of the schedule (after which no more pushes make sense)
    let mut early_eof = false;
    if rng.chance(1, 6) {
        let at = rng.below(acts.len() + 1);
        let pushes_after = acts[at..].iter().any(|a| matches!(a, Act::Push(_)));
        acts.retain({
            let mut idx = 0;
            move |a| {
                let keep = idx < at || !matches!(a, Act::Push(_));
                idx += 1;
                keep
            }
        });
        acts.insert(at.min(acts.len()), Act::Eof);
        early_eof = pushes_after;
    }
    Case { cfg, reqs, progs, acts, early_eof }
}

/// hand-written cases around the recorded defect and the anchored branches
fn directed() -> Vec<Case> {
    let mut v = vec![];
    let get = |conn: u8, v10: bool| Req3 { method: "GET", v10, conn, framing: 0, body_len: 0, body_seed: 1 };
    let post = |framing: u8, len: usize| Req3 { method: "POST", v10: false, conn: 0, framing, body_len: len, body_seed: 7 };
    for cfg in [ConnCfg::persistent(), ConnCfg { disc_timeout_ms: 1000, ..ConnCfg::persistent() }, ConnCfg { half_closed: false, ..ConnCfg::persistent() }] {
        // close requested by request 0, request 1 already pipelined behind it
        for first in [get(1, false), get(0, true)] {
            let reqs = vec![first.clone(), get(0, false)];
            let mut all = reqs[0].bytes(0);
            all.extend_from_slice(&reqs[1].bytes(1));
            v.push(Case { cfg: cfg.clone(), reqs: reqs.clone(), progs: vec![Prog::default(), Prog::default()], acts: vec![Act::Push(all.clone())], early_eof: false });
            // same with the first handler gated so that request 1 is decoded and queued first
            v.push(Case { cfg: cfg.clone(), reqs, progs: vec![Prog { post_gate: Some(1), ..Default::default() }, Prog::default()], acts: vec![Act::Push(all), Act::Gate(1, 1)], early_eof: false });
        }
        // handler-announced close with a queued request behind
        {
            let reqs = vec![get(0, false), get(0, false)];
            let mut all = reqs[0].bytes(0);
            all.extend_from_slice(&reqs[1].bytes(1));
            v.push(Case { cfg: cfg.clone(), reqs, progs: vec![Prog { post_gate: Some(1), conn: Conn::Close, ..Default::default() }, Prog::default()], acts: vec![Act::Push(all), Act::Gate(1, 1)], early_eof: false });
        }
        // unread bodies of both framings, answered before / during / after arrival
        for framing in [1u8, 2] {
            for read in [ReadMode::Ignore, ReadMode::DropFirst, ReadMode::Chunks(1), ReadMode::Hold, ReadMode::AfterRespond] {
                for split in [0usize, 1, 2, 3] {
                    let reqs = vec![post(framing, 6000), get(0, false)];
                    let a = reqs[0].bytes(0);
                    let b = reqs[1].bytes(1);
                    let head_end = a.windows(4).position(|w| w == b"\r\n\r\n").unwrap() + 4;
                    let acts = match split {
                        0 => vec![Act::Push([a.clone(), b.clone()].concat())],
                        1 => vec![Act::Push(a[..head_end + 100].to_vec()), Act::Push([a[head_end + 100..].to_vec(), b.clone()].concat())],
                        2 => vec![Act::Push(a[..head_end].to_vec()), Act::Push(a[head_end..].to_vec()), Act::Push(b.clone())],
                        // the rest of the body never arrives and nothing follows
                        _ => vec![Act::Push(a[..head_end + 100].to_vec())],
                    };
                    v.push(Case { cfg: cfg.clone(), reqs: reqs.clone(), progs: vec![Prog { read: read.clone(), ..Default::default() }, Prog::default()], acts: acts.clone(), early_eof: false });
                    // the same with an empty response body, and with an error response carrying a
                    // streamed body (other arms / the other copy of the response-sending code)
                    v.push(Case { cfg: cfg.clone(), reqs: reqs.clone(), progs: vec![Prog { read: read.clone(), steps: vec![], ..Default::default() }, Prog::default()], acts: acts.clone(), early_eof: false });
                    v.push(Case {
                        cfg: cfg.clone(),
                        reqs,
                        progs: vec![Prog { read: read.clone(), fail: true, status: 500, kind: BodyKind::BodyStream, steps: vec![BStep::Data(fill_data(4, 1)), BStep::Data(fill_data(5, 9))], ..Default::default() }, Prog::default()],
                        acts,
                        early_eof: false,
                    });
                }
            }
        }
    }
    v
}


// ---------------------------------------------------------------- a refused `Expect: 100-continue`

/// A request announcing a body with `Expect: 100-continue` is refused by the expect service (417)
/// before any of its body was read.  The body was neither consumed nor drained, so the declared
/// length still stands: whatever follows on the wire is, byte for byte, that body.  The connection
/// may only go on to another request at the body's exact end, and otherwise nothing further may be
/// written or dispatched.
#[derive(Clone, Debug)]
struct RefusedCase {
    cfg: ConnCfg,
    declared: usize,
    chunked: bool,
    /// 0: nothing of the body is sent, a request-shaped text shorter than the body follows;
    /// 1: the whole body is sent (request-shaped), then a real request;
    /// 2: nothing follows at all
    follow: u8,
    /// head and what follows arrive in one segment
    one_segment: bool,
}

impl RefusedCase {
    fn to_json(&self) -> Value {
        json!({"refused_expectation": {"cfg": self.cfg.to_json(), "declared": self.declared, "chunked": self.chunked, "follow": self.follow, "one_segment": self.one_segment}})
    }
    fn from_json(v: &Value) -> Self {
        RefusedCase {
            cfg: ConnCfg::from_json(&v["cfg"]),
            declared: v["declared"].as_u64().unwrap_or(100) as usize,
            chunked: v["chunked"].as_bool().unwrap_or(false),
            follow: v["follow"].as_u64().unwrap_or(0) as u8,
            one_segment: v["one_segment"].as_bool().unwrap_or(false),
        }
    }
}

fn eval_refused(c: &RefusedCase, rep: &mut Reporter) {
    rep.eval();
    let mut cfg = c.cfg.clone();
    cfg.expect_refuse = true;
    let mut sc = Scenario::new(cfg, vec![], 1);
    sc.default_prog = Some(Prog::default());
    let head = if c.chunked {
        "POST /refuse HTTP/1.1\r\nHost: t\r\nExpect: 100-continue\r\nTransfer-Encoding: chunked\r\n\r\n".to_string()
    } else {
        format!("POST /refuse HTTP/1.1\r\nHost: t\r\nExpect: 100-continue\r\nContent-Length: {}\r\n\r\n", c.declared)
    };
    let lookalike = b"GET /inside-refused-body HTTP/1.1\r\nHost: t\r\n\r\n".to_vec();
    let real = b"GET /after-refused-body HTTP/1.1\r\nHost: t\r\n\r\n".to_vec();
    let follow: Vec<u8> = match c.follow {
        0 => lookalike.clone(),
        1 => {
            // the whole body, request-shaped, padded to the declared length; then a real request
            let mut b = lookalike.clone();
            while b.len() < c.declared {
                b.push(b'x');
            }
            b.truncate(c.declared);
            let mut w = if c.chunked { [format!("{:x}\r\n", b.len()).into_bytes(), b, b"\r\n0\r\n\r\n".to_vec()].concat() } else { b };
            w.extend_from_slice(&real);
            w
        }
        _ => vec![],
    };
    if c.one_segment {
        sc.acts.push(Act::Push([head.clone().into_bytes(), follow].concat()));
    } else {
        sc.acts.push(Act::Push(head.clone().into_bytes()));
        if !follow.is_empty() {
            sc.acts.push(Act::Push(follow));
        }
    }
    let oc = match guard(|| run_scenario(&sc)) {
        Ok(o) => o,
        Err(p) => {
            rep.violation("panic", &panic_site(&p), &format!("panic: {p}"), c.to_json());
            return;
        }
    };
    if std::env::var("AVMON_DEBUG").is_ok() {
        crate::world::run::debug_dump(&sc, &oc);
    }
    let sig = format!("refused-expectation {} follow={} one-segment={} half_closed={} disc={}", if c.chunked { "chunked" } else { "cl" }, c.follow, c.one_segment, c.cfg.half_closed, c.cfg.disc_timeout_ms);
    rep.sig(&sig);
    rep.count("refused_expectation_cases", 1);
    let rp = h1_resp::parse_responses(&oc.out, &|_| Some("GET".to_string()), true);
    let finals: Vec<&RefResp> = rp.resps.iter().filter(|r| !r.is_interim()).collect();
    rep.count(&format!("refused_expectation_first_status:{}", finals.first().map(|r| r.status).unwrap_or(0)), 1);
    // the request-shaped text inside the refused request's body is never a request
    if let Some(r) = oc.reqs.iter().find(|r| r.target.contains("inside-refused-body")) {
        rep.violation("dispatch-inside-unread-body", &sig, &format!("handler ran for {} which lies inside the body of the refused request", r.target), c.to_json());
        return;
    }
    let after_ok = c.follow == 1;
    // beyond the answer to the refused request, only the request at the body's exact end may be answered
    if finals.len() > 1 || rp.malformed_at.is_some() {
        let legit = after_ok && finals.len() == 2 && rp.malformed_at.is_none() && oc.reqs.len() == 1 && oc.reqs[0].target.contains("after-refused-body") && finals[1].req_idx_header() == Some(0);
        // A chunked body that the server set out to drain and that turns out not to be chunk
        // framing at all is a malformed request in its own right: one 400 for it, then silence, is
        // the statement's "error response to a malformed request".  Counted.
        let malformed_drain = c.chunked && c.follow == 0 && finals.len() == 2 && finals[1].status == 400 && rp.malformed_at.is_none() && oc.reqs.is_empty();
        if malformed_drain {
            rep.count("refused_expectation_then_400_for_malformed_chunk_framing(tolerated)", 1);
        } else if !legit {
            rep.violation(
                "bytes-after-unread-body-response",
                &sig,
                &format!("the refused request's body ({}) was {}; output after its answer: {}", if c.chunked { "chunked".to_string() } else { format!("{} bytes declared", c.declared) }, if after_ok { "sent in full" } else { "not sent" }, esc_short(&oc.out[finals[0].end.min(oc.out.len())..], 200)),
                c.to_json(),
            );
            return;
        } else {
            rep.count("refused_expectation_then_next_request_served", 1);
        }
    } else {
        rep.count("refused_expectation_then_silence", 1);
    }
    if !after_ok && !oc.reqs.is_empty() {
        rep.violation("dispatch-inside-unread-body", &sig, &format!("handler ran for {} although nothing beyond the refused request's unread body was sent", oc.reqs[0].target), c.to_json());
    }
}

fn refused_cases(ctx: &Ctx, rep: &mut Reporter) {
    let mut k = 0u64;
    for cfg in [ConnCfg::persistent(), ConnCfg { disc_timeout_ms: 1000, ..ConnCfg::persistent() }, ConnCfg { half_closed: false, ..ConnCfg::persistent() }] {
        for chunked in [false, true] {
            for declared in [100usize, 6000, 200_000] {
                for follow in 0..3u8 {
                    for one_segment in [false, true] {
                        k += 1;
                        if ctx.mine(k) {
                            eval_refused(&RefusedCase { cfg: cfg.clone(), declared, chunked, follow, one_segment }, rep);
                        }
                    }
                }
            }
        }
    }
}

pub fn run(ctx: &Ctx, rep: &mut Reporter) {
    if let Some(r) = &ctx.replay {
        if !r["refused_expectation"].is_null() {
            eval_refused(&RefusedCase::from_json(&r["refused_expectation"]), rep);
            rep.sig("replay-a");
            rep.sig("replay-b");
            return;
        }
        eval_case(&Case::from_json(r), rep);
        rep.sig("replay-a");
        rep.sig("replay-b");
        return;
    }
    for (k, c) in directed().iter().enumerate() {
        if ctx.mine(k as u64) {
            eval_case(c, rep);
        }
    }
    rep.max("directed_cases", directed().len() as u64);
    if !ctx.is_miri() {
        refused_cases(ctx, rep);
    }
    let n = ctx.share(48_000, 2_400_000);
    for k in 0..n {
        if ctx.out_of_time() {
            break;
        }
        let mut rng = Rng::derive(ctx.seed, 3, k * ctx.nshards + ctx.shard);
        let case = gen_case(&mut rng);
        eval_case(&case, rep);
        if k == 5 {
            let mut s = case.to_json();
            // keep the sample readable: segment contents shortened
            if let Some(a) = s["acts"].as_array_mut() {
                for x in a.iter_mut() {
                    if let Some(p) = x.get("push").and_then(|p| p.as_str()).map(|p| p.to_string()) {
                        x["push"] = json!(format!("{}…({} chars)", &p[..p.len().min(80)], p.len()));
                    }
                }
            }
            rep.sample("random-case", s);
        }
    }
}
