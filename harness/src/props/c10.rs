//! C10 — path patterns match exactly their language and capture exactly the matched text.
//!
//! Observed through the public `actix_router` API only (`ResourceDef`, `Path`, `Router`, `Quoter`,
//! `Url`).  Oracles:
//!
//! * **three-way agreement**: `is_match` ⇔ `find_match().is_some()` ⇔ `capture_match_info`;
//! * **language**: all three equal `refmodel::seg_match` (a backtracking interpreter of the
//!   documented pattern language that does not use `regex`): same verdict, same matched length,
//!   same captures (names in order, values, and the *byte offsets* of the values inside the path,
//!   observed through the address of the returned `&str`), same unprocessed remainder; a failed
//!   match or a rejecting check function leaves the `Path` untouched;
//! * **skip arithmetic**: the same with a `Path` that already has a matched part (a prefix
//!   definition followed by a second definition on the remainder);
//! * **router**: `Router::recognize` returns the first registered definition that matches;
//! * **round trip**: `resource_path_from_iter` / `_from_map` build the concatenation of the pieces,
//!   the built path matches, and the values come back (demanded exactly when the model finds the
//!   decomposition unique; otherwise the model's leftmost-first decomposition is demanded);
//! * **long paths** up to 65 534 bytes with captures next to the 16-bit offset limit;
//! * **percent-decoder**: `Quoter::requote` equals `refmodel::pct_decode` (every valid
//!   non-protected escape decoded, nothing else, `None` ⇔ nothing decoded); `Url::new` applies it
//!   with the protected set `% / +`; the path deserializer fully decodes each captured value.

use std::collections::HashMap;

use actix_router::{Path, Quoter, ResourceDef, Router, Url};
use serde_json::{json, Value};

use crate::{
    refmodel::{
        pct_decode,
        seg_match::{Class, Def, Elem, Pattern, CLASSES, SEG},
    },
    report::{guard, panic_site, Ctx, Reporter},
    util::{esc, esc_short, unesc, Rng},
};

// ------------------------------------------------------------------------------------------------
// pattern grammar

const LITS: [&str; 8] = ["a", "b", "ab", "1", "-", "a-b", "a1", "b-"];

struct NameGen(usize);
impl NameGen {
    fn next(&mut self) -> String {
        self.0 += 1;
        format!("x{}", self.0 - 1)
    }
}

fn pick_class(rng: &mut Rng) -> Class {
    if rng.chance(1, 3) {
        SEG
    } else {
        *rng.pick(CLASSES)
    }
}

fn push_lit(elems: &mut Vec<Elem>, s: &str) {
    if s.is_empty() {
        return;
    }
    if let Some(Elem::Lit(l)) = elems.last_mut() {
        l.push_str(s);
    } else {
        elems.push(Elem::Lit(s.to_string()));
    }
}

/// One pattern from the grammar: up to three `/`-introduced segments, each empty, static,
/// dynamic, custom-class, or a mix of static text and one or two dynamic parts; optionally a tail.
fn gen_pattern(rng: &mut Rng, allow_tail: bool) -> Pattern {
    let mut elems = vec![];
    let mut names = NameGen(0);
    let nseg = rng.range(0, 3);
    for si in 0..nseg {
        // a pattern may (rarely) not start with a slash
        if !(si == 0 && rng.chance(1, 12)) {
            push_lit(&mut elems, "/");
        }
        match rng.below(10) {
            0 => {}                                     // empty segment
            1 | 2 => push_lit(&mut elems, *rng.pick(&LITS)), // static
            3 | 4 => elems.push(Elem::Var { name: names.next(), class: pick_class(rng) }),
            5 => {
                push_lit(&mut elems, *rng.pick(&LITS));
                elems.push(Elem::Var { name: names.next(), class: pick_class(rng) });
            }
            6 => {
                elems.push(Elem::Var { name: names.next(), class: pick_class(rng) });
                push_lit(&mut elems, *rng.pick(&LITS));
            }
            7 => {
                elems.push(Elem::Var { name: names.next(), class: pick_class(rng) });
                push_lit(&mut elems, *rng.pick(&["-", "a", "1"]));
                elems.push(Elem::Var { name: names.next(), class: pick_class(rng) });
            }
            8 => {
                elems.push(Elem::Var { name: names.next(), class: pick_class(rng) });
                elems.push(Elem::Var { name: names.next(), class: pick_class(rng) });
            }
            _ => {
                push_lit(&mut elems, *rng.pick(&LITS));
                elems.push(Elem::Var { name: names.next(), class: pick_class(rng) });
                push_lit(&mut elems, *rng.pick(&LITS));
            }
        }
    }
    if allow_tail && rng.chance(1, 5) {
        if rng.chance(3, 4) {
            push_lit(&mut elems, "/");
        }
        elems.push(Elem::Tail { name: "tail".into() });
    }
    Pattern { elems }
}

const HAND: [&str; 40] = [
    "",
    "/",
    "//",
    "/a",
    "/a/",
    "/a/b",
    "/ab",
    "a",
    "/{x}",
    "/{x}/",
    "{x}",
    "/a/{x}",
    "/{x}/{y}",
    "/{x}/a/{y}",
    "/{x}-{y}",
    "/{x}{y}",
    "/a{x}",
    "/{x}b",
    r"/{x:\d+}",
    r"/{x:\d*}",
    r"/{x:[a-z]+}",
    r"/{x:[^/]*}",
    r"/{x:[^/]*}/{y:[^/]*}",
    r"/{x:.*}",
    r"/{x:.*}/b",
    r"/{x:.+}/{y}",
    r"/{x:[ab1]{2}}",
    r"/{x:[ab1]{2}}{y}",
    r"/{x:[^/]+?}{y}",
    r"/{x:[^/]+?}-{y:.*}",
    r"/{x:a|ab}",
    r"/{x:a|ab}b",
    r"/{x:ab|a|}b",
    r"/{x:[ab-]{1,3}}-{y}",
    "/{tail}*",
    "{tail}*",
    "/a/{tail}*",
    "/a{tail}*",
    "/{x}/{tail}*",
    r"/{x:\d+}{tail}*",
];

/// The definitions of the exhaustive phase: a fixed part (hand-written corner cases and a
/// fixed-seed sample of the grammar, each as full and — without tail — as prefix definition, plus
/// pattern lists) and `extra` seed-dependent ones.
fn build_defs(seed: u64, extra: usize, fixed_random: usize) -> Vec<Def> {
    let mut singles: Vec<Pattern> = HAND.iter().map(|s| Pattern::parse(s).expect("hand pattern in grammar")).collect();
    let mut rng = Rng::derive(0xC10, 1, 1);
    let mut guard_n = 0;
    while singles.len() < HAND.len() + fixed_random && guard_n < 100_000 {
        guard_n += 1;
        let p = gen_pattern(&mut rng, true);
        if !singles.contains(&p) {
            singles.push(p);
        }
    }
    let mut defs = vec![];
    for p in &singles {
        defs.push(Def::one(p.clone(), false));
        if !p.has_tail() {
            defs.push(Def::one(p.clone(), true));
        }
    }
    // pattern lists (2–4 members), full and prefix; also the degenerate empty list
    defs.push(Def { pats: vec![], prefix: false });
    defs.push(Def { pats: vec![], prefix: true });
    let nlists = fixed_random / 3 + 10;
    for _ in 0..nlists {
        defs.push(gen_list(&mut rng, &singles));
    }
    // seed-dependent part
    let mut rng = Rng::derive(seed, 0xC10, 2);
    for k in 0..extra {
        if k % 4 == 3 {
            let pool: Vec<Pattern> = (0..6).map(|_| gen_pattern(&mut rng, true)).collect();
            defs.push(gen_list(&mut rng, &pool));
        } else {
            let prefix = rng.chance(1, 2);
            let p = gen_pattern(&mut rng, !prefix);
            defs.push(Def::one(p, prefix));
        }
    }
    defs
}

fn gen_list(rng: &mut Rng, pool: &[Pattern]) -> Def {
    let prefix = rng.chance(1, 2);
    let n = rng.range(2, 4);
    let mut pats = vec![];
    let mut tries = 0;
    while pats.len() < n && tries < 100 {
        tries += 1;
        let p = rng.pick(pool).clone();
        if prefix && p.has_tail() {
            continue;
        }
        pats.push(p);
    }
    if pats.len() < 2 {
        pats = vec![Pattern::lit("/a"), Pattern::lit("/b")];
    }
    Def { pats, prefix }
}

fn make_rdef(def: &Def) -> ResourceDef {
    let srcs = def.sources();
    match (srcs.len(), def.prefix) {
        // a Vec of length 1 becomes Patterns::Single; use the &str constructor for that case
        (1, false) => ResourceDef::new(srcs[0].as_str()),
        (1, true) => ResourceDef::prefix(srcs[0].as_str()),
        (_, false) => ResourceDef::new(actix_router::Patterns::List(srcs)),
        (_, true) => ResourceDef::prefix(actix_router::Patterns::List(srcs)),
    }
}

fn def_sig(def: &Def) -> String {
    format!("{}[{}]", if def.prefix { "prefix" } else { "new" }, def.sources().join(" | "))
}

fn def_json(def: &Def) -> Value {
    json!({"patterns": def.sources(), "prefix": def.prefix})
}

fn def_from_json(v: &Value) -> Option<Def> {
    let srcs: Vec<String> = v["patterns"].as_array()?.iter().filter_map(|s| s.as_str().map(|s| s.to_string())).collect();
    Def::parse(&srcs, v["prefix"].as_bool().unwrap_or(false))
}

// ------------------------------------------------------------------------------------------------
// one (definition, path) case

struct Failure {
    class: &'static str,
    detail: String,
}

macro_rules! fail {
    ($class:expr, $($arg:tt)*) => {
        return Err(Failure { class: $class, detail: format!($($arg)*) })
    };
}

#[derive(Clone, Copy, PartialEq, Eq, Debug)]
enum Outcome {
    NoMatch,
    /// matched; (captures, any empty capture, matched whole path, index in list)
    Match { ncaps: usize, empty_cap: bool, whole: bool, idx: usize },
}

/// Compare everything observable about the segments of `p` from index `from` on with `caps`
/// shifted by `base`.
fn check_caps(p: &Path<&str>, from: usize, caps: &[(String, usize, usize)], base: usize, what: &str) -> Result<(), Failure> {
    let full = p.as_str();
    if p.segment_count() != from + caps.len() {
        fail!("captures", "{what}: segment_count()={} expected {}", p.segment_count(), from + caps.len());
    }
    for (k, ((name, val), (en, a, b))) in p.iter().skip(from).zip(caps.iter()).enumerate() {
        let (a, b) = (a + base, b + base);
        if name != en {
            fail!("captures", "{what}: capture #{k} is named {name:?}, expected {en:?}");
        }
        let want = &full[a..b];
        if val != want {
            fail!("capture-value", "{what}: {name}={:?}, expected {:?} (bytes {a}..{b})", esc_short(val.as_bytes(), 60), esc_short(want.as_bytes(), 60));
        }
        let off = (val.as_ptr() as usize).wrapping_sub(full.as_ptr() as usize);
        if off != a {
            fail!("capture-offset", "{what}: {name} is the right text but taken from byte offset {off}, expected {a}");
        }
        // Index by position agrees with iter()
        if &p[from + k] != want {
            fail!("capture-value", "{what}: path[{}]={:?} expected {:?}", from + k, esc_short(p[from + k].as_bytes(), 60), esc_short(want.as_bytes(), 60));
        }
    }
    Ok(())
}

fn check_case(def: &Def, rdef: &ResourceDef, path: &str) -> Result<Outcome, Failure> {
    let exp = def.find(path);
    let im = rdef.is_match(path);
    let fm = rdef.find_match(path);
    let mut p = Path::new(path);
    let cm = rdef.capture_match_info(&mut p);
    if im != fm.is_some() || im != cm {
        fail!("api-disagree", "is_match={im} find_match={fm:?} capture_match_info={cm} (model: {:?})", exp.as_ref().map(|m| m.1.len));
    }
    match &exp {
        None => {
            if im {
                fail!("language", "matches (find_match={fm:?}) but the pattern language does not contain this path");
            }
            if p.unprocessed() != path || p.segment_count() != 0 {
                fail!("untouched", "failed capture left unprocessed={:?} segments={}", p.unprocessed(), p.segment_count());
            }
            Ok(Outcome::NoMatch)
        }
        Some((idx, m)) => {
            if !im {
                fail!("language", "does not match, but the pattern language contains this path (member {idx}, length {})", m.len);
            }
            if fm != Some(m.len) {
                fail!("match-len", "find_match={fm:?}, expected {} (member {idx})", m.len);
            }
            if p.unprocessed() != &path[m.len..] {
                fail!("match-len", "unprocessed()={:?} after capture, expected {:?}", esc_short(p.unprocessed().as_bytes(), 60), esc_short(path[m.len..].as_bytes(), 60));
            }
            check_caps(&p, 0, &m.caps, 0, "capture_match_info")?;
            for (n, a, b) in &m.caps {
                // names are distinct inside a pattern, so get() must find the same value
                if p.get(n) != Some(&path[*a..*b]) {
                    fail!("capture-value", "get({n:?})={:?}, expected {:?}", p.get(n), &path[*a..*b]);
                }
            }
            Ok(Outcome::Match {
                ncaps: m.caps.len(),
                empty_cap: m.caps.iter().any(|c| c.1 == c.2),
                whole: m.len == path.len(),
                idx: *idx,
            })
        }
    }
}

/// The same definition applied to a `Path` whose first `junk.len()` bytes are already matched.
fn check_skipped(def: &Def, rdef: &ResourceDef, junk: &str, path: &str) -> Result<(), Failure> {
    let full = format!("{junk}{path}");
    let mut p = Path::new(full.as_str());
    p.skip(junk.len() as u16);
    if p.unprocessed() != path {
        fail!("skip", "after skip({}) unprocessed()={:?}", junk.len(), p.unprocessed());
    }
    let exp = def.find(path);
    let cm = rdef.capture_match_info(&mut p);
    match exp {
        None => {
            if cm || p.unprocessed() != path || p.segment_count() != 0 {
                fail!("skip", "after skip({}): capture={cm} but the remainder does not match", junk.len());
            }
        }
        Some((_, m)) => {
            if !cm {
                fail!("skip", "after skip({}): no match, but the remainder matches with length {}", junk.len(), m.len);
            }
            if p.unprocessed() != &path[m.len..] {
                fail!("skip", "after skip({}) and capture: unprocessed()={:?}, expected {:?}", junk.len(), p.unprocessed(), &path[m.len..]);
            }
            check_caps(&p, 0, &m.caps, junk.len(), "capture after skip")?;
        }
    }
    Ok(())
}

/// Prefix definition `d1` followed by `d2` on the remainder, with a rejecting check function tried
/// first.  Returns (first matched, second matched).
fn check_chain(d1: &Def, r1: &ResourceDef, d2: &Def, r2: &ResourceDef, path: &str) -> Result<(bool, bool), Failure> {
    let mut p = Path::new(path);
    let m1 = d1.find(path);
    let c1 = r1.capture_match_info(&mut p);
    if c1 != m1.is_some() {
        fail!("language", "chain: first definition capture={c1}, model {:?}", m1.as_ref().map(|m| m.1.len));
    }
    let (_, m1) = match m1 {
        Some(m) => m,
        None => return Ok((false, false)),
    };
    check_caps(&p, 0, &m1.caps, 0, "chain first")?;
    let rest = &path[m1.len..];
    if p.unprocessed() != rest {
        fail!("match-len", "chain: unprocessed()={:?} after the prefix, expected {:?}", p.unprocessed(), rest);
    }
    let m2 = d2.find(rest);
    // a rejecting check function: called iff the pattern matches, and the path is left untouched
    // (what the function itself sees of the path while it runs is not specified, so not compared)
    let mut seen: Option<()> = None;
    let rej = r2.capture_match_info_fn(&mut p, |_| {
        seen = Some(());
        false
    });
    if rej {
        fail!("check-fn", "chain: capture_match_info_fn returned true although the check function said no");
    }
    if seen.is_some() != m2.is_some() {
        fail!("check-fn", "chain: check function called={} but model match={}", seen.is_some(), m2.is_some());
    }
    if p.unprocessed() != rest {
        fail!("untouched", "chain: rejected capture moved the path to {:?}", p.unprocessed());
    }
    check_caps(&p, 0, &m1.caps, 0, "chain after rejected capture")?;
    // now for real
    let c2 = r2.capture_match_info(&mut p);
    if c2 != m2.is_some() {
        fail!("skip", "chain: second definition on remainder {rest:?}: capture={c2}, model {:?}", m2.as_ref().map(|m| m.1.len));
    }
    match m2 {
        None => {
            if p.unprocessed() != rest {
                fail!("untouched", "chain: failed second capture moved the path to {:?}", p.unprocessed());
            }
            check_caps(&p, 0, &m1.caps, 0, "chain after failed capture")?;
            Ok((true, false))
        }
        Some((_, m2)) => {
            if p.unprocessed() != &rest[m2.len..] {
                fail!("skip", "chain: unprocessed()={:?} after both, expected {:?}", p.unprocessed(), &rest[m2.len..]);
            }
            // all captures, the second definition's shifted by the length the first one consumed
            let mut all = m1.caps.clone();
            all.extend(m2.caps.iter().map(|(n, a, b)| (n.clone(), a + m1.len, b + m1.len)));
            check_caps(&p, 0, &all, 0, "chain, after both captures")?;
            Ok((true, true))
        }
    }
}

// ------------------------------------------------------------------------------------------------
// path enumeration

const SIGMA: [u8; 5] = [b'/', b'a', b'b', b'1', b'-'];

fn all_paths(max_len: usize) -> Vec<String> {
    all_paths_over(&SIGMA, max_len)
}

/// literal text made of regex metacharacters must match itself and nothing else
const SIGMA_META: [u8; 7] = [b'/', b'a', b'.', b'+', b'(', b'$', b'1'];
const HAND_META: [&str; 12] = [
    "/a.a",
    "/.",
    "/a+",
    "/(a",
    "/$",
    "/a.{x}",
    "/{x}.{y}",
    "/a+{x}",
    "/({x}",
    "/${x}",
    r"/{x:\d+}.{y:\d+}",
    "/a./{tail}*",
];

/// Second alphabet for the metacharacter definitions: one metacharacter (`.`) and "wildcard
/// victims" (`X`, `1`, `a`) that an un-escaped `.`, `+`, `?`, `*`, `|`, group or class would accept.
const SIGMA_VICTIM: [u8; 5] = [b'/', b'a', b'.', b'X', b'1'];

/// Literal pieces containing regex metacharacters (no braces, none ends with `*`, which would be
/// tail syntax).  Every one of `. + * ? | ( ) [ ] ^ $ \` occurs, alone and next to ordinary text
/// that an un-escaped operator would act on.
const META_LITS: [&str; 30] = [
    ".", "a.X", "a.", ".a", "1.1", "..", "a+X", "a+", "+", "a*X", "*a", "a?X", "a?", "?", "a|X", "|", "(a)", "(a", ")", "a)", "[a1]", "[a1]X", "[", "]a", "^a", "a^", "a$", "$a",
    "a\\X", "\\",
];

fn lit(s: &str) -> Elem {
    Elem::Lit(s.to_string())
}
fn var(n: &str) -> Elem {
    Elem::Var { name: n.to_string(), class: SEG }
}

/// Definitions that put each metacharacter literal into EVERY literal position of the grammar:
/// leading (before the first dynamic segment), between two dynamic segments, trailing (after the
/// last dynamic segment, glued to it and as a segment of its own), before a tail, whole static
/// pattern (alone and as a member of a pattern list, first and later member) — each as full and
/// as prefix definition.
fn meta_defs() -> Vec<Def> {
    let mut out = vec![];
    let both = |elems: Vec<Elem>, out: &mut Vec<Def>| {
        let p = Pattern { elems };
        out.push(Def::one(p.clone(), false));
        out.push(Def::one(p, true));
    };
    for l in META_LITS {
        let sl = format!("/{l}");
        // leading
        both(vec![lit(&sl), var("x")], &mut out);
        both(vec![lit(&sl), lit("/"), var("x")], &mut out);
        // between two dynamic segments
        both(vec![lit("/"), var("x"), lit(l), var("y")], &mut out);
        // trailing, glued to the last dynamic segment / as its own segment / in the middle of text
        both(vec![lit("/"), var("x"), lit(l)], &mut out);
        both(vec![lit("/"), var("x"), lit(&sl)], &mut out);
        both(vec![lit("/"), var("x"), lit(&format!("{l}a"))], &mut out);
        both(vec![lit("/"), var("x"), lit("/"), var("y"), lit(&format!("-{l}"))], &mut out);
        // before a tail (full only)
        out.push(Def::one(Pattern { elems: vec![lit(&sl), lit("/"), Elem::Tail { name: "tail".into() }] }, false));
        // whole static pattern
        both(vec![lit(&sl)], &mut out);
        // static member of a list: first, later, both
        for prefix in [false, true] {
            out.push(Def { pats: vec![Pattern { elems: vec![lit(&sl)] }, Pattern { elems: vec![lit("/"), var("x"), lit(&sl)] }], prefix });
            out.push(Def { pats: vec![Pattern { elems: vec![lit("/1/"), var("x")] }, Pattern { elems: vec![lit(&sl)] }], prefix });
            out.push(Def { pats: vec![Pattern { elems: vec![lit(&sl)] }, Pattern { elems: vec![lit(&format!("/a{l}"))] }], prefix });
        }
    }
    // normalise through the pattern syntax (adjacent literals merge) and drop what the restricted
    // grammar cannot express
    out.into_iter()
        .filter_map(|d| {
            let srcs = d.sources();
            if srcs.iter().any(|s| s.ends_with('*') && !s.ends_with("}*")) {
                return None;
            }
            Def::parse(&srcs, d.prefix)
        })
        .collect()
}

/// For every member pattern of every metacharacter definition: the paths built from values of
/// the dynamic parts (they contain the literal exactly: must match), and every one-byte variant of
/// such a path — each byte replaced by `X`, `a`, `1`, `.`, `/`, deleted, or preceded by an inserted
/// `a` — which covers "differs exactly at the metacharacter position by another byte, by a `/`,
/// or by nothing" (must not match unless the variant is in the language for another reason; the
/// reference matcher decides).
fn phase_meta_positions(ctx: &Ctx, rep: &mut Reporter, defs: &[Def]) {
    const VALS: [&str; 4] = ["a", "1X", "a.1", "X"];
    let mut loc = Local::new();
    for (di, def) in defs.iter().enumerate() {
        if !ctx.mine(di as u64) {
            continue;
        }
        if ctx.out_of_time() {
            rep.inconclusive("metacharacter position phase cut by the time budget");
            break;
        }
        let rdef = match build_rdef(rep, def) {
            Some(r) => r,
            None => continue,
        };
        let mut outs = vec![];
        let mut bad = 0;
        for pat in &def.pats {
            let nvars = pat.names().len();
            let combos = VALS.len().pow(nvars.min(3) as u32);
            for code in 0..combos {
                let mut c = code;
                let mut exact = String::new();
                for e in &pat.elems {
                    match e {
                        Elem::Lit(l) => exact.push_str(l),
                        Elem::Var { .. } => {
                            exact.push_str(VALS[c % VALS.len()]);
                            c /= VALS.len();
                        }
                        Elem::Tail { .. } => exact.push_str(["", "a/b", "."][code % 3]),
                    }
                }
                // (a) the literal exactly: the pattern language contains this path by construction
                loc.bump("meta:exact-literal-paths");
                match run_case(rep, &mut loc, "meta-exact", def, &rdef, &exact, &mut outs) {
                    Some(Outcome::NoMatch) => {
                        rep.violation(
                            "model-gap",
                            &format!("{} exact", def_sig(def)),
                            &format!("path {:?} built from the pattern's own pieces is rejected by model and router alike", exact),
                            json!({"phase": "match", "def": def_json(def), "path": esc(exact.as_bytes())}),
                        );
                    }
                    Some(_) => {}
                    None => bad += 1,
                }
                // (b) every one-byte variant
                let b = exact.as_bytes();
                let mut variants: Vec<Vec<u8>> = vec![];
                for i in 0..b.len() {
                    for r in [b'X', b'a', b'1', b'.', b'/'] {
                        if b[i] != r {
                            let mut v = b.to_vec();
                            v[i] = r;
                            variants.push(v);
                        }
                    }
                    let mut v = b.to_vec();
                    v.remove(i);
                    variants.push(v);
                    let mut v = b.to_vec();
                    v.insert(i, b'a');
                    variants.push(v);
                }
                for v in variants {
                    if bad >= 3 {
                        break;
                    }
                    let v = match String::from_utf8(v) {
                        Ok(v) => v,
                        Err(_) => continue,
                    };
                    loc.bump("meta:one-byte-variants");
                    match run_case(rep, &mut loc, "meta-variant", def, &rdef, &v, &mut outs) {
                        Some(Outcome::NoMatch) => loc.bump("meta:one-byte-variants-rejected"),
                        Some(_) => {}
                        None => bad += 1,
                    }
                }
            }
        }
        let shape = def.shape();
        for o in outs {
            rep.sig(&format!("M|{}|{}|{}", shape, def.pats.len(), outcome_tag(o)));
        }
        loc.flush(rep);
    }
    loc.flush(rep);
}

fn all_paths_over(sigma: &[u8], max_len: usize) -> Vec<String> {
    let mut out = vec![String::new()];
    let mut start = 0;
    for _ in 0..max_len {
        let end = out.len();
        for i in start..end {
            for &c in sigma {
                let mut s = out[i].clone();
                s.push(c as char);
                out.push(s);
            }
        }
        start = end;
    }
    out
}

// ------------------------------------------------------------------------------------------------
// reporting helpers

struct Local {
    evals: u64,
    counts: HashMap<&'static str, u64>,
}
impl Local {
    fn new() -> Self {
        Local { evals: 0, counts: HashMap::new() }
    }
    fn bump(&mut self, k: &'static str) {
        *self.counts.entry(k).or_insert(0) += 1;
    }
    fn flush(&mut self, rep: &mut Reporter) {
        rep.count("evaluations", self.evals);
        self.evals = 0;
        for (k, v) in self.counts.drain() {
            rep.count(k, v);
        }
    }
}

fn report(rep: &mut Reporter, phase: &str, f: Failure, sig: String, replay: Value) {
    rep.violation(f.class, &sig, &format!("[{phase}] {} — {}", sig, f.detail), replay);
}

fn outcome_tag(o: Outcome) -> String {
    match o {
        Outcome::NoMatch => "no".into(),
        Outcome::Match { ncaps, empty_cap, whole, idx } => {
            format!("m{}c{}{}{}", idx, ncaps, if empty_cap { "e" } else { "" }, if whole { "w" } else { "p" })
        }
    }
}

/// run one (def, path) case with panic capture; returns None when a violation was reported
fn run_case(rep: &mut Reporter, loc: &mut Local, phase: &'static str, def: &Def, rdef: &ResourceDef, path: &str, seen_out: &mut Vec<Outcome>) -> Option<Outcome> {
    loc.evals += 1;
    match guard(|| check_case(def, rdef, path)) {
        Ok(Ok(o)) => {
            match o {
                Outcome::NoMatch => loc.bump("cases:no-match"),
                Outcome::Match { whole, empty_cap, ncaps, idx } => {
                    loc.bump("cases:match");
                    if !whole {
                        loc.bump("cases:match-at-segment-boundary");
                    }
                    if empty_cap {
                        loc.bump("cases:match-with-empty-capture");
                    }
                    if ncaps >= 2 {
                        loc.bump("cases:match-with-2+-captures");
                    }
                    if idx > 0 {
                        loc.bump("cases:match-by-later-list-member");
                    }
                }
            }
            if !seen_out.contains(&o) {
                seen_out.push(o);
            }
            Some(o)
        }
        Ok(Err(mut f)) => {
            let kind = if def.find(path).is_some() { "model-match" } else { "model-nomatch" };
            f.detail = format!("path {:?}: {}", esc_short(path.as_bytes(), 80), f.detail);
            report(rep, phase, f, format!("{} {}", def_sig(def), kind), json!({"phase": "match", "def": def_json(def), "path": esc(path.as_bytes())}));
            None
        }
        Err(p) => {
            rep.violation(
                "panic",
                &format!("{} in {}", def_sig(def), panic_site(&p)),
                &format!("[{phase}] {} on path {:?}: {p}", def_sig(def), esc_short(path.as_bytes(), 80)),
                json!({"phase": "match", "def": def_json(def), "path": esc(path.as_bytes())}),
            );
            None
        }
    }
}

fn build_rdef(rep: &mut Reporter, def: &Def) -> Option<ResourceDef> {
    match guard(|| make_rdef(def)) {
        Ok(r) => Some(r),
        Err(p) => {
            rep.violation(
                "panic",
                &format!("construct {} in {}", def_sig(def), panic_site(&p)),
                &format!("constructing {} panicked: {p}", def_sig(def)),
                json!({"phase": "match", "def": def_json(def), "path": ""}),
            );
            None
        }
    }
}

// ------------------------------------------------------------------------------------------------
// phases

/// A: every definition × every path over SIGMA up to `max_len`.
fn phase_exhaustive(ctx: &Ctx, rep: &mut Reporter, defs: &[Def], paths: &[String]) {
    let mut loc = Local::new();
    let mut complete = true;
    'outer: for (di, def) in defs.iter().enumerate() {
        let rdef = match build_rdef(rep, def) {
            Some(r) => r,
            None => {
                complete = false;
                continue;
            }
        };
        let mut outs = vec![];
        let mut bad = 0;
        for (pi, path) in paths.iter().enumerate() {
            if !ctx.mine((pi + di) as u64) {
                continue;
            }
            if loc.evals % 8192 == 8191 {
                loc.flush(rep);
                if ctx.out_of_time() {
                    complete = false;
                    break 'outer;
                }
            }
            let o = match run_case(rep, &mut loc, "exhaustive", def, &rdef, path, &mut outs) {
                Some(o) => o,
                None => {
                    bad += 1;
                    if bad >= 3 {
                        break; // one broken definition must not flood the log
                    }
                    continue;
                }
            };
            // every 3rd matching case (and a few others) again behind an already-matched part
            if (o != Outcome::NoMatch && pi % 3 == 0) || pi % 61 == 0 {
                loc.evals += 1;
                loc.bump("cases:after-skip");
                let junk = if pi % 2 == 0 { "/zz" } else { "/q/€" };
                match guard(|| check_skipped(def, &rdef, junk, path)) {
                    Ok(Ok(())) => {}
                    Ok(Err(mut f)) => {
                        f.detail = format!("path {:?} behind {:?}: {}", esc_short(path.as_bytes(), 80), junk, f.detail);
                        report(rep, "skip", f, def_sig(def), json!({"phase": "skip", "def": def_json(def), "junk": junk, "path": esc(path.as_bytes())}))
                    }
                    Err(p) => rep.violation("panic", &format!("skip {} in {}", def_sig(def), panic_site(&p)), &p, json!({"phase": "skip", "def": def_json(def), "junk": junk, "path": esc(path.as_bytes())})),
                }
            }
        }
        let shape = def.shape();
        for o in outs {
            rep.sig(&format!("A|{}|{}", shape, outcome_tag(o)));
        }
    }
    loc.flush(rep);
    rep.count("defs:exhaustive-phase", if ctx.shard == 0 { defs.len() as u64 } else { 0 });
    rep.exhaustive("all paths over {/,a,b,1,-} up to the length bound x all definitions of the phase", complete);
}

/// B: prefix definition followed by a second definition on the remainder.
fn phase_chain(ctx: &Ctx, rep: &mut Reporter, defs: &[Def], paths: &[String], npairs: u64) {
    let prefixes: Vec<&Def> = defs.iter().filter(|d| d.prefix && !d.pats.is_empty()).collect();
    let mut loc = Local::new();
    let mut rng = Rng::derive(ctx.seed, 0xC10B, 0);
    for k in 0..npairs {
        let d1 = (*rng.pick(&prefixes)).clone();
        let d2 = rng.pick(defs).clone();
        if !ctx.mine(k) {
            continue;
        }
        if ctx.out_of_time() {
            break;
        }
        let (r1, r2) = match (build_rdef(rep, &d1), build_rdef(rep, &d2)) {
            (Some(a), Some(b)) => (a, b),
            _ => continue,
        };
        let mut both = false;
        let mut first_only = false;
        for path in paths {
            loc.evals += 1;
            match guard(|| check_chain(&d1, &r1, &d2, &r2, path)) {
                Ok(Ok((a, b))) => {
                    if a && b {
                        loc.bump("chain:both-matched");
                        both = true;
                    } else if a {
                        loc.bump("chain:first-only");
                        first_only = true;
                    } else {
                        loc.bump("chain:none");
                    }
                }
                Ok(Err(mut f)) => {
                    let rp = json!({"phase": "chain", "d1": def_json(&d1), "d2": def_json(&d2), "path": esc(path.as_bytes())});
                    f.detail = format!("path {:?}: {}", esc_short(path.as_bytes(), 80), f.detail);
                    report(rep, "chain", f, format!("{} then {}", def_sig(&d1), def_sig(&d2)), rp);
                    break;
                }
                Err(p) => {
                    let rp = json!({"phase": "chain", "d1": def_json(&d1), "d2": def_json(&d2), "path": esc(path.as_bytes())});
                    rep.violation("panic", &format!("chain {} then {} in {}", def_sig(&d1), def_sig(&d2), panic_site(&p)), &p, rp);
                    break;
                }
            }
        }
        rep.sig(&format!("B|{}>{}|{}{}", d1.shape(), d2.shape(), both, first_only));
        loc.flush(rep);
    }
}

/// C: `Router::recognize` = first registered definition that matches.
fn phase_router(ctx: &Ctx, rep: &mut Reporter, defs: &[Def], paths: &[String], nrouters: u64) {
    let usable: Vec<&Def> = defs.iter().filter(|d| !d.pats.is_empty()).collect();
    let mut loc = Local::new();
    let mut rng = Rng::derive(ctx.seed, 0xC10C, 0);
    for k in 0..nrouters {
        let n = rng.range(2, 6);
        let table: Vec<Def> = (0..n).map(|_| (*rng.pick(&usable)).clone()).collect();
        if !ctx.mine(k) {
            continue;
        }
        if ctx.out_of_time() {
            break;
        }
        let built = guard(|| {
            let mut b = Router::<usize>::build();
            for (i, d) in table.iter().enumerate() {
                let mut rd = make_rdef(d);
                rd.set_id(100 + i as u16);
                b.rdef(rd, i);
            }
            b.finish()
        });
        let router = match built {
            Ok(r) => r,
            Err(p) => {
                rep.violation("panic", &format!("router build in {}", panic_site(&p)), &p, json!({"phase": "router", "table": table.iter().map(def_json).collect::<Vec<_>>(), "path": ""}));
                continue;
            }
        };
        let mut winners = vec![false; n + 1];
        for path in paths {
            loc.evals += 1;
            let want = table.iter().enumerate().find_map(|(i, d)| d.find(path).map(|(_, m)| (i, m)));
            let res = guard(|| {
                let mut p = Path::new(path.as_str());
                let got = router.recognize(&mut p).map(|(v, id)| (*v, id.0));
                (got, p.unprocessed().to_string(), p.iter().map(|(a, b)| (a.to_string(), b.to_string())).collect::<Vec<_>>())
            });
            let rp = || json!({"phase": "router", "table": table.iter().map(def_json).collect::<Vec<_>>(), "path": esc(path.as_bytes())});
            let sigs = || table.iter().map(def_sig).collect::<Vec<_>>().join(" ; ");
            match res {
                Err(p) => {
                    rep.violation("panic", &format!("router {} in {}", sigs(), panic_site(&p)), &p, rp());
                    break;
                }
                Ok((got, unproc, segs)) => {
                    let want_id = want.as_ref().map(|(i, _)| (*i, 100 + *i as u16));
                    if got != want_id {
                        rep.violation(
                            "router-first-match",
                            &format!("router {}", sigs()),
                            &format!("router [{}] on {:?}: recognized {:?}, the first registered match is {:?}", sigs(), path, got, want_id),
                            rp(),
                        );
                        break;
                    }
                    match &want {
                        None => {
                            winners[n] = true;
                            loc.bump("router:no-route");
                            if unproc != *path || !segs.is_empty() {
                                rep.violation("untouched", &format!("router {}", sigs()), &format!("no route matched {:?} but the path was modified", path), rp());
                                break;
                            }
                        }
                        Some((i, m)) => {
                            winners[*i] = true;
                            if *i > 0 {
                                loc.bump("router:matched-later-route");
                            } else {
                                loc.bump("router:matched-first-route");
                            }
                            let want_segs: Vec<(String, String)> = m.caps.iter().map(|(n, a, b)| (n.clone(), path[*a..*b].to_string())).collect();
                            if unproc != path[m.len..] || segs != want_segs {
                                rep.violation(
                                    "capture-value",
                                    &format!("router {}", sigs()),
                                    &format!("router route {i} on {:?}: unprocessed={:?} segments={:?}, expected {:?} / {:?}", path, unproc, segs, &path[m.len..], want_segs),
                                    rp(),
                                );
                                break;
                            }
                        }
                    }
                }
            }
        }
        rep.sig(&format!("C|{}|{:?}", table.iter().map(|d| d.shape()).collect::<Vec<_>>().join(";"), winners));
        loc.flush(rep);
    }
}

/// sample members of a class's language
fn class_values(c: &Class) -> &'static [&'static str] {
    match c.tag {
        "seg" => &["a", "ab", "1", "a-b", "-", "é", "b1"],
        "d+" => &["1", "11", "7"],
        "d*" => &["", "1", "11"],
        "az+" => &["a", "ab", "ba"],
        "ns*" => &["", "a", "a-1"],
        ".*" => &["", "a", "a/b", "/", "a\nb"],
        ".+" => &["a", "a/b", "/", "1/"],
        "ab1{2}" => &["ab", "11", "ba"],
        "ns+?" => &["a", "ab", "1-"],
        "a|ab" => &["a", "ab"],
        "ab|a|" => &["ab", "a", ""],
        "ab-{1,3}" => &["a", "ab-", "-", "a-b"],
        _ => &[],
    }
}

const TAIL_VALUES: [&str; 5] = ["", "a", "a/b", "/", "a/b/€\n"];

/// D: resource_path_from_iter / _from_map round trip.
fn phase_roundtrip(ctx: &Ctx, rep: &mut Reporter, defs: &[Def], combos_per_def: usize) {
    let mut loc = Local::new();
    for (di, def) in defs.iter().enumerate() {
        if !ctx.mine(di as u64) || def.pats.is_empty() {
            continue;
        }
        if ctx.out_of_time() {
            break;
        }
        let rdef = match build_rdef(rep, def) {
            Some(r) => r,
            None => continue,
        };
        let p0 = &def.pats[0];
        let slots: Vec<&'static [&'static str]> = p0
            .elems
            .iter()
            .filter_map(|e| match e {
                Elem::Var { class, .. } => Some(class_values(class)),
                Elem::Tail { .. } => Some(&TAIL_VALUES[..]),
                Elem::Lit(_) => None,
            })
            .collect();
        let total: usize = slots.iter().map(|s| s.len()).product::<usize>().max(1);
        let mut rng = Rng::derive(ctx.seed, 0xC10D, di as u64);
        let n = total.min(combos_per_def);
        let (mut unique, mut ambiguous) = (0u64, 0u64);
        for k in 0..n {
            // enumerate completely when the product is small, sample otherwise
            let mut code = if total <= combos_per_def { k } else { rng.below(total) };
            let values: Vec<&str> = slots
                .iter()
                .map(|s| {
                    let v = s[code % s.len()];
                    code /= s.len();
                    v
                })
                .collect();
            loc.evals += 1;
            let r = guard(|| roundtrip_case(def, &rdef, &values));
            let rp = json!({"phase": "roundtrip", "def": def_json(def), "values": values});
            match r {
                Ok(Ok(true)) => unique += 1,
                Ok(Ok(false)) => ambiguous += 1,
                Ok(Err(f)) => {
                    report(rep, "roundtrip", f, def_sig(def), rp);
                    break;
                }
                Err(p) => {
                    rep.violation("panic", &format!("roundtrip {} in {}", def_sig(def), panic_site(&p)), &p, rp);
                    break;
                }
            }
        }
        loc.counts.entry("roundtrip:unique-decomposition").and_modify(|v| *v += unique).or_insert(unique);
        loc.counts.entry("roundtrip:ambiguous-decomposition").and_modify(|v| *v += ambiguous).or_insert(ambiguous);
        rep.sig(&format!("D|{}|{}|{}", def.shape(), unique > 0, ambiguous > 0));
        loc.flush(rep);
    }
}

/// Ok(true): decomposition unique and values came back; Ok(false): ambiguous, model's result held.
fn roundtrip_case(def: &Def, rdef: &ResourceDef, values: &[&str]) -> Result<bool, Failure> {
    let p0 = &def.pats[0];
    // expected text: literal pieces and values in order
    let mut want = String::new();
    let mut vi = 0;
    for e in &p0.elems {
        match e {
            Elem::Lit(l) => want.push_str(l),
            _ => {
                want.push_str(values[vi]);
                vi += 1;
            }
        }
    }
    let mut built = String::new();
    if !rdef.resource_path_from_iter(&mut built, values.iter()) {
        fail!("roundtrip-build", "resource_path_from_iter returned false with {} values for {} dynamic parts", values.len(), vi);
    }
    if built != want {
        fail!("roundtrip-build", "resource_path_from_iter built {:?}, expected {:?}", built, want);
    }
    let names = p0.names();
    let map: HashMap<&str, &str> = names.iter().copied().zip(values.iter().copied()).collect();
    let mut built2 = String::new();
    if !rdef.resource_path_from_map(&mut built2, &map) || built2 != want {
        fail!("roundtrip-build", "resource_path_from_map built {:?}, expected {:?}", built2, want);
    }
    if !values.is_empty() {
        let mut s = String::new();
        if rdef.resource_path_from_iter(&mut s, values[..values.len() - 1].iter()) {
            fail!("roundtrip-build", "resource_path_from_iter returned true with one value missing (built {:?})", s);
        }
    }
    // the built path is in the language of pattern 0 by construction
    let mut p = Path::new(want.as_str());
    if !rdef.capture_match_info(&mut p) || !rdef.is_match(&want) || rdef.find_match(&want).is_none() {
        fail!("roundtrip-nomatch", "path {:?} built from values {:?} does not match its own pattern", want, values);
    }
    let (idx, m) = match def.find(&want) {
        Some(x) => x,
        None => fail!("model-gap", "model does not accept {:?} built from values {:?}", want, values),
    };
    check_caps(&p, 0, &m.caps, 0, "roundtrip")?;
    let unique = idx == 0 && p0.count(&want, def.prefix, 2) == 1;
    if unique {
        let got: Vec<&str> = p.iter().map(|(_, v)| v).collect();
        if got != values || p.unprocessed() != "" {
            fail!("roundtrip-values", "values {:?} built {:?}, which captures {:?} (rest {:?}) although the decomposition is unique", values, want, got, p.unprocessed());
        }
    }
    Ok(unique)
}

// ---- E: long paths ------------------------------------------------------------------------------

const LONG_DEFS: [(&str, bool); 12] = [
    ("/{a}/{b}", false),
    ("/{a}/{b}/{c}", false),
    ("/{a}/{t}*", false),
    ("/{t}*", false),
    ("/{a}", true),
    ("/{a}/{b}", true),
    (r"/x{a:[^/]*}/{b:\d+}", false),
    (r"/{a:[a-z]+}{b:\d*}/{c}", true),
    (r"/{a}/{b:.*}", false),
    (r"/{a:[^/]+?}/{b}", true),
    ("/{a}-{b}/{c}", false),
    ("", true),
];

const LONG_LENS: [usize; 10] = [65534, 65533, 65532, 65000, 49152, 32769, 32768, 32767, 16384, 300];

fn fill(rng: &mut Rng, out: &mut String, mut n: usize, kind: usize) {
    // runs made of one class so that custom classes have long matches too
    while n > 0 {
        let c = match kind {
            0 => *rng.pick(&['a', 'b', 'z', 'q']),
            1 => *rng.pick(&['0', '1', '9']),
            2 => *rng.pick(&['a', '1', '-', '.', '_', '~']),
            _ => *rng.pick(&['a', 'é', '€', '1', '\n', '😀', '-']),
        };
        if c.len_utf8() > n {
            out.push('a');
            n -= 1;
        } else {
            out.push(c);
            n -= c.len_utf8();
        }
    }
}

/// A path of exactly `total` bytes made of `/`-separated segments whose boundaries sit where the
/// offsets are interesting: a very long first or middle segment and short ones at the far end.
fn long_path(rng: &mut Rng, total: usize, pat: &Pattern) -> String {
    let mut s = String::with_capacity(total + 8);
    let nseg = rng.range(1, 4);
    // lengths of the last segments are tiny so that captures start/end near `total`
    let mut tails: Vec<usize> = (1..nseg).map(|_| rng.range(0, 6)).collect();
    if rng.chance(1, 3) && !tails.is_empty() {
        let i = rng.below(tails.len());
        tails[i] = rng.range(0, total / 3);
    }
    let used: usize = tails.iter().sum::<usize>() + nseg;
    let first = total.saturating_sub(used);
    let mut lens = vec![first];
    lens.extend(tails);
    // literal text the pattern expects right after a slash, now and then
    let lead: Option<&str> = pat.elems.iter().find_map(|e| match e {
        Elem::Lit(l) if l.len() > 1 => Some(l.trim_start_matches('/')),
        _ => None,
    });
    for (i, &l) in lens.iter().enumerate() {
        s.push('/');
        let mut l = l;
        if i == 0 {
            if let Some(ld) = lead {
                if l >= ld.len() && rng.chance(3, 4) {
                    s.push_str(ld);
                    l -= ld.len();
                }
            }
        }
        let kind = rng.below(4);
        if kind == 0 && l > 4 && rng.chance(1, 2) {
            // letters then digits: exercises `[a-z]+\d*`
            let d = rng.range(0, l.min(5));
            fill(rng, &mut s, l - d, 0);
            fill(rng, &mut s, d, 1);
        } else {
            fill(rng, &mut s, l, kind);
        }
        if i == 0 && l > 10 && rng.chance(1, 4) {
            // a dash somewhere for `{a}-{b}`
            let pos = rng.range(1, s.len() - 1);
            if s.is_char_boundary(pos) && s.is_char_boundary(pos + 1) && s.as_bytes()[pos] != b'/' {
                s.replace_range(pos..pos + 1, "-");
            }
        }
    }
    // exact length
    while s.len() > total {
        s.pop();
    }
    while s.len() < total {
        s.push('a');
    }
    s
}

fn phase_long(ctx: &Ctx, rep: &mut Reporter, n: u64) {
    let defs: Vec<Def> = LONG_DEFS.iter().map(|(s, p)| Def::one(Pattern::parse(s).unwrap(), *p)).collect();
    let rdefs: Vec<Option<ResourceDef>> = defs.iter().map(|d| build_rdef(rep, d)).collect();
    let mut loc = Local::new();
    for k in 0..n {
        if ctx.out_of_time() {
            break;
        }
        let case = k * ctx.nshards + ctx.shard;
        let tgen = std::time::Instant::now();
        let (path, di, di2) = long_case(ctx.seed, case);
        let (def, rdef) = match &rdefs[di] {
            Some(r) => (&defs[di], r),
            None => continue,
        };
        let mut outs = vec![];
        let seed = ctx.seed;
        let ok = run_case_long(rep, &mut loc, def, rdef, &path, &mut outs, case, seed);
        if !ok {
            continue;
        }
        rep.max("long:path-bytes", path.len() as u64);
        if let Some((_, m)) = def.find(&path) {
            for c in &m.caps {
                rep.max("long:capture-end-offset", c.2 as u64);
                rep.max("long:capture-start-offset", c.1 as u64);
            }
            rep.max("long:matched-len", m.len as u64);
        }
        // prefix definitions: continue with a second definition on the remainder
        if def.prefix {
            if let Some(r2) = &rdefs[di2] {
                loc.evals += 1;
                match guard(|| check_chain(def, rdef, &defs[di2], r2, &path)) {
                    Ok(Ok((a, b))) => {
                        if a && b {
                            loc.bump("long:chain-both-matched");
                        }
                    }
                    Ok(Err(f)) => report(rep, "long-chain", f, format!("long: {} then {}", def_sig(def), def_sig(&defs[di2])), json!({"phase": "long", "case": case, "seed": seed})),
                    Err(p) => rep.violation("panic", &format!("long chain {} in {}", def_sig(def), panic_site(&p)), &p, json!({"phase": "long", "case": case, "seed": seed})),
                }
            }
        }
        if std::env::var("AVMON_TIMING").is_ok() && tgen.elapsed().as_millis() > 100 {
            let t0 = std::time::Instant::now();
            let m = def.find(&path).is_some();
            let t1 = t0.elapsed();
            let _ = rdef.find_match(&path);
            let t2 = t0.elapsed() - t1;
            let _ = rdef.is_match(&path);
            let t3 = t0.elapsed() - t1 - t2;
            eprintln!("[c10-long] slow case {case}: {} on {} bytes took {:?} (model {:?} -> {m}, find_match {:?}, is_match {:?}) dashes={}", def_sig(def), path.len(), tgen.elapsed(), t1, t2, t3, path.matches('-').count());
        }
        let lenclass = match path.len() {
            65532..=65534 => "max",
            32767..=32769 => "i16",
            300 => "short",
            _ => "mid",
        };
        for o in outs {
            rep.sig(&format!("E|{}|{}|{}", def.shape(), lenclass, outcome_tag(o)));
        }
        if k % 16 == 15 {
            loc.flush(rep);
        }
    }
    loc.flush(rep);
}

/// deterministic long case number `case` of seed `seed`: (path, definition index, second index)
fn long_case(seed: u64, case: u64) -> (String, usize, usize) {
    let mut rng = Rng::derive(seed, 0xC10E, case);
    let di = rng.below(LONG_DEFS.len());
    let di2 = rng.below(LONG_DEFS.len());
    let total = if rng.chance(3, 4) { *rng.pick(&LONG_LENS) } else { rng.range(1, 65534) };
    let pat = Pattern::parse(LONG_DEFS[di].0).unwrap();
    (long_path(&mut rng, total, &pat), di, di2)
}

fn run_case_long(rep: &mut Reporter, loc: &mut Local, def: &Def, rdef: &ResourceDef, path: &str, outs: &mut Vec<Outcome>, case: u64, seed: u64) -> bool {
    loc.evals += 1;
    match guard(|| check_case(def, rdef, path)) {
        Ok(Ok(o)) => {
            match o {
                Outcome::NoMatch => loc.bump("long:no-match"),
                Outcome::Match { .. } => loc.bump("long:match"),
            }
            outs.push(o);
            true
        }
        Ok(Err(f)) => {
            report(rep, "long", f, format!("long: {} len-class {}", def_sig(def), path.len() / 8192), json!({"phase": "long", "case": case, "seed": seed}));
            false
        }
        Err(p) => {
            rep.violation("panic", &format!("long: {} in {}", def_sig(def), panic_site(&p)), &format!("path of {} bytes: {p}", path.len()), json!({"phase": "long", "case": case, "seed": seed}));
            false
        }
    }
}

// ---- F: percent-decoder ---------------------------------------------------------------------------

const QSIGMA: [u8; 10] = [b'%', b'2', b'F', b'f', b'4', b'1', b'G', b'/', b'a', 0xFF];
const PROTECTED_SETS: [&[u8]; 5] = [b"%/+", b"", b"/", b"+%", b"A/"];

fn quoter_case(q: &Quoter, protected: &[u8], input: &[u8]) -> Result<pct_decode::Decoded, Failure> {
    let got = q.requote(input);
    let d = pct_decode::decode(input, protected);
    let want = if d.decoded == 0 { None } else { Some(d.out.clone()) };
    if got != want {
        let class = match (&got, &want) {
            (Some(_), None) => "quoter-none",
            (None, Some(_)) => "quoter-none",
            _ => {
                if d.kept_protected > 0 {
                    "quoter-protected"
                } else {
                    "quoter-decode"
                }
            }
        };
        fail!(class, "requote({:?}) with protected {:?} = {:?}, expected {:?}", esc_short(input, 80), esc(protected), got.as_ref().map(|g| esc_short(g, 80)), want.as_ref().map(|g| esc_short(g, 80)));
    }
    Ok(d)
}

fn quoter_sig(d: &pct_decode::Decoded) -> String {
    format!("d{}p{}i{}", d.decoded.min(3), d.kept_protected.min(2), d.invalid.min(2))
}

fn phase_quoter(ctx: &Ctx, rep: &mut Reporter, max_len: usize, nrandom: u64) {
    let quoters: Vec<Quoter> = PROTECTED_SETS.iter().map(|p| Quoter::new(b"", p)).collect();
    let mut loc = Local::new();
    let mut complete = true;
    let mut idx = 0u64;
    let mut buf: Vec<u8> = Vec::with_capacity(max_len);
    'outer: for len in 0..=max_len {
        let total = (QSIGMA.len() as u64).pow(len as u32);
        for code in 0..total {
            idx += 1;
            if !ctx.mine(idx) {
                continue;
            }
            if idx % 65536 < ctx.nshards && ctx.out_of_time() {
                complete = false;
                break 'outer;
            }
            buf.clear();
            let mut c = code;
            for _ in 0..len {
                buf.push(QSIGMA[(c % 10) as usize]);
                c /= 10;
            }
            for (qi, q) in quoters.iter().enumerate() {
                loc.evals += 1;
                match guard(|| quoter_case(q, PROTECTED_SETS[qi], &buf)) {
                    Ok(Ok(d)) => {
                        if d.decoded > 0 {
                            loc.bump("quoter:inputs-with-decoded-escape");
                        }
                        if d.kept_protected > 0 {
                            loc.bump("quoter:inputs-with-protected-escape-kept");
                        }
                        if d.invalid > 0 {
                            loc.bump("quoter:inputs-with-invalid-escape");
                        }
                        if d.decoded + d.kept_protected + d.invalid > 0 && code % 97 == 0 {
                            rep.sig(&format!("F|{}|{}", qi, quoter_sig(&d)));
                        }
                    }
                    Ok(Err(f)) => {
                        let sig = format!("protected={:?} {}", esc(PROTECTED_SETS[qi]), f.class);
                        report(rep, "quoter", f, sig, json!({"phase": "quoter", "protected": esc(PROTECTED_SETS[qi]), "input": esc(&buf)}));
                    }
                    Err(p) => rep.violation("panic", &format!("quoter in {}", panic_site(&p)), &p, json!({"phase": "quoter", "protected": esc(PROTECTED_SETS[qi]), "input": esc(&buf)})),
                }
            }
        }
    }
    rep.exhaustive("all byte strings over {%,2,F,f,4,1,G,/,a,0xFF} up to the length bound x 5 protected sets (Quoter)", complete);

    // random: long inputs, all 256 escape values in both hex cases, random protected sets
    for k in 0..nrandom {
        if ctx.out_of_time() {
            break;
        }
        let case = k * ctx.nshards + ctx.shard;
        let (protected, input) = quoter_random_case(ctx.seed, case);
        loc.evals += 1;
        let r = guard(|| {
            let q = Quoter::new(b"", &protected);
            quoter_case(&q, &protected, &input)
        });
        match r {
            Ok(Ok(d)) => {
                loc.bump("quoter:random-inputs");
                rep.max("quoter:input-bytes", input.len() as u64);
                rep.sig(&format!("Fr|{}|{}", protected.len().min(3), quoter_sig(&d)));
            }
            Ok(Err(f)) => {
                let sig = format!("random {}", f.class);
                report(rep, "quoter", f, sig, json!({"phase": "quoter", "protected": esc(&protected), "input": esc(&input)}));
            }
            Err(p) => rep.violation("panic", &format!("quoter in {}", panic_site(&p)), &p, json!({"phase": "quoter", "protected": esc(&protected), "input": esc(&input)})),
        }
    }
    loc.flush(rep);
}

fn quoter_random_case(seed: u64, case: u64) -> (Vec<u8>, Vec<u8>) {
    let mut rng = Rng::derive(seed, 0xC10F, case);
    let np = rng.below(6);
    let mut protected: Vec<u8> = (0..np).map(|_| *rng.pick(b"%/+ aA-.~:?#[]@!$&'()*,;=\x00\x7f")).collect();
    protected.dedup();
    let len = if rng.chance(1, 20) { rng.range(1000, 70000) } else { rng.range(0, 120) };
    let mut input = Vec::with_capacity(len + 3);
    while input.len() < len {
        match rng.below(10) {
            0..=3 => {
                // a valid escape, often of a protected byte or of its neighbour
                let b = if !protected.is_empty() && rng.chance(1, 2) {
                    let p = *rng.pick(&protected);
                    if rng.chance(1, 4) {
                        p.wrapping_add(1)
                    } else if rng.chance(1, 8) {
                        p | 0x80
                    } else {
                        p
                    }
                } else {
                    rng.next() as u8
                };
                let s = if rng.chance(1, 2) { format!("%{:02X}", b) } else { format!("%{:02x}", b) };
                input.extend_from_slice(s.as_bytes());
            }
            4 => {
                const BAD: [&[u8]; 9] = [b"%", b"%%", b"%2", b"%G1", b"%1G", b"%+1", b"% 1", b"%-1", b"%\xff\xff"];
                input.extend_from_slice(*rng.pick(&BAD));
            }
            5 => input.push(rng.next() as u8),
            _ => input.push(*rng.pick(b"abc/+%25")),
        }
    }
    (protected, input)
}

/// G: `Url` + `Path<Url>`: routing sees the partially decoded path; the deserializer decodes fully.
fn phase_url(ctx: &Ctx, rep: &mut Reporter, defs: &[Def], n: u64) {
    const TOK: [&str; 16] = ["/", "a", "b", "1", "-", "%41", "%61", "%2F", "%2f", "%25", "%2B", "%31", "%C3%A9", "%FF", "%2", "%zz"];
    let usable: Vec<&Def> = defs.iter().filter(|d| !d.pats.is_empty()).collect();
    let mut loc = Local::new();
    let mut rdefs: HashMap<usize, ResourceDef> = HashMap::new();
    for k in 0..n {
        if ctx.out_of_time() {
            break;
        }
        let case = k * ctx.nshards + ctx.shard;
        let mut rng = Rng::derive(ctx.seed, 0xC106, case);
        let di = rng.below(usable.len());
        let def = usable[di].clone();
        let ntok = rng.range(0, 7);
        let mut raw = String::from("/");
        for _ in 0..ntok {
            raw.push_str(*rng.pick(&TOK));
        }
        let rp = json!({"phase": "url", "def": def_json(&def), "raw": raw});
        loc.evals += 1;
        let res = guard(|| {
            if !rdefs.contains_key(&di) {
                rdefs.insert(di, make_rdef(&def));
            }
            url_case(&def, &rdefs[&di], &raw)
        });
        match res {
            Ok(Ok(Some(tag))) => {
                loc.bump("url:cases");
                rep.sig(&format!("G|{}|{}", def.shape(), tag));
            }
            Ok(Ok(None)) => loc.bump("url:uri-rejected-by-http-crate"),
            Ok(Err(f)) => report(rep, "url", f, format!("url {}", def_sig(&def)), rp),
            Err(p) => rep.violation("panic", &format!("url {} in {}", def_sig(&def), panic_site(&p)), &p, rp),
        }
    }
    loc.flush(rep);
}

fn url_case(def: &Def, rdef: &ResourceDef, raw: &str) -> Result<Option<String>, Failure> {
    let uri: http::Uri = match raw.parse() {
        Ok(u) => u,
        Err(_) => return Ok(None),
    };
    if uri.path() != raw {
        return Ok(None);
    }
    let view = pct_decode::path_view(raw);
    let url = Url::new(uri);
    if url.path() != view {
        fail!("url-view", "Url::new({raw:?}).path()={:?}, expected {:?}", url.path(), view);
    }
    let mut p = Path::new(url);
    let cm = rdef.capture_match_info(&mut p);
    let exp = def.find(&view);
    if cm != exp.is_some() {
        fail!("language", "Path<Url> of {raw:?} (view {view:?}): capture={cm}, model {:?}", exp.as_ref().map(|m| m.1.len));
    }
    let (_, m) = match exp {
        Some(m) => m,
        None => return Ok(Some("no".into())),
    };
    let got: Vec<(String, String)> = p.iter().map(|(a, b)| (a.to_string(), b.to_string())).collect();
    let want: Vec<(String, String)> = m.caps.iter().map(|(n, a, b)| (n.clone(), view[*a..*b].to_string())).collect();
    if got != want || p.unprocessed() != &view[m.len..] {
        fail!("capture-value", "Path<Url> of {raw:?}: segments {:?} rest {:?}, expected {:?} rest {:?}", got, p.unprocessed(), want, &view[m.len..]);
    }
    // the deserializer decodes each value completely (protected escapes included)
    let mut tag = format!("m{}", want.len());
    if !want.is_empty() {
        let loaded: Result<Vec<String>, _> = p.load();
        let full: Vec<String> = want.iter().map(|(_, v)| pct_decode::full_view(v)).collect();
        match loaded {
            Ok(l) if l == full => {
                if full.iter().zip(want.iter()).any(|(f, w)| *f != w.1) {
                    tag.push_str("+deser-decoded");
                }
            }
            other => fail!("deserialize", "Path<Url> of {raw:?}: load::<Vec<String>>()={:?}, expected {:?}", other, full),
        }
    }
    Ok(Some(tag))
}

// ------------------------------------------------------------------------------------------------
// replay

fn replay(rep: &mut Reporter, rp: &Value) {
    rep.eval();
    rep.sig("replay");
    rep.sig("replay2");
    let path = String::from_utf8_lossy(&unesc(rp["path"].as_str().unwrap_or(""))).into_owned();
    let mut loc = Local::new();
    match rp["phase"].as_str().unwrap_or("") {
        "match" => {
            if let Some(def) = def_from_json(&rp["def"]) {
                if let Some(rdef) = build_rdef(rep, &def) {
                    run_case(rep, &mut loc, "replay", &def, &rdef, &path, &mut vec![]);
                }
            }
        }
        "skip" => {
            if let Some(def) = def_from_json(&rp["def"]) {
                if let Some(rdef) = build_rdef(rep, &def) {
                    let junk = rp["junk"].as_str().unwrap_or("/zz");
                    match guard(|| check_skipped(&def, &rdef, junk, &path)) {
                        Ok(Ok(())) => {}
                        Ok(Err(f)) => report(rep, "skip", f, def_sig(&def), rp.clone()),
                        Err(p) => rep.violation("panic", &format!("skip {} in {}", def_sig(&def), panic_site(&p)), &p, rp.clone()),
                    }
                }
            }
        }
        "chain" => {
            if let (Some(d1), Some(d2)) = (def_from_json(&rp["d1"]), def_from_json(&rp["d2"])) {
                if let (Some(r1), Some(r2)) = (build_rdef(rep, &d1), build_rdef(rep, &d2)) {
                    match guard(|| check_chain(&d1, &r1, &d2, &r2, &path)) {
                        Ok(Ok(_)) => {}
                        Ok(Err(f)) => report(rep, "chain", f, format!("{} then {}", def_sig(&d1), def_sig(&d2)), rp.clone()),
                        Err(p) => rep.violation("panic", &format!("chain {} then {} in {}", def_sig(&d1), def_sig(&d2), panic_site(&p)), &p, rp.clone()),
                    }
                }
            }
        }
        "router" => {
            let table: Vec<Def> = rp["table"].as_array().map(|a| a.iter().filter_map(def_from_json).collect()).unwrap_or_default();
            let want = table.iter().enumerate().find_map(|(i, d)| d.find(&path).map(|_| (i, 100 + i as u16)));
            let got = guard(|| {
                let mut b = Router::<usize>::build();
                for (i, d) in table.iter().enumerate() {
                    let mut rd = make_rdef(d);
                    rd.set_id(100 + i as u16);
                    b.rdef(rd, i);
                }
                let r = b.finish();
                let mut p = Path::new(path.as_str());
                r.recognize(&mut p).map(|(v, id)| (*v, id.0))
            });
            let sigs = table.iter().map(def_sig).collect::<Vec<_>>().join(" ; ");
            match got {
                Ok(g) if g == want => {}
                Ok(g) => rep.violation("router-first-match", &format!("router {sigs}"), &format!("recognized {:?}, expected {:?}", g, want), rp.clone()),
                Err(p) => rep.violation("panic", &format!("router {sigs} in {}", panic_site(&p)), &p, rp.clone()),
            }
        }
        "roundtrip" => {
            if let Some(def) = def_from_json(&rp["def"]) {
                if let Some(rdef) = build_rdef(rep, &def) {
                    let vals: Vec<String> = rp["values"].as_array().map(|a| a.iter().map(|v| v.as_str().unwrap_or("").to_string()).collect()).unwrap_or_default();
                    let refs: Vec<&str> = vals.iter().map(|s| s.as_str()).collect();
                    match guard(|| roundtrip_case(&def, &rdef, &refs)) {
                        Ok(Ok(_)) => {}
                        Ok(Err(f)) => report(rep, "roundtrip", f, def_sig(&def), rp.clone()),
                        Err(p) => rep.violation("panic", &format!("roundtrip {} in {}", def_sig(&def), panic_site(&p)), &p, rp.clone()),
                    }
                }
            }
        }
        "quoter" => {
            let protected = unesc(rp["protected"].as_str().unwrap_or(""));
            let input = unesc(rp["input"].as_str().unwrap_or(""));
            let r = guard(|| {
                let q = Quoter::new(b"", &protected);
                quoter_case(&q, &protected, &input)
            });
            match r {
                Ok(Ok(_)) => {}
                Ok(Err(f)) => {
                    let sig = format!("protected={:?} {}", esc(&protected), f.class);
                    report(rep, "quoter", f, sig, rp.clone());
                }
                Err(p) => rep.violation("panic", &format!("quoter in {}", panic_site(&p)), &p, rp.clone()),
            }
        }
        "url" => {
            if let Some(def) = def_from_json(&rp["def"]) {
                let raw = rp["raw"].as_str().unwrap_or("/").to_string();
                match guard(|| url_case(&def, &make_rdef(&def), &raw)) {
                    Ok(Ok(_)) => {}
                    Ok(Err(f)) => report(rep, "url", f, format!("url {}", def_sig(&def)), rp.clone()),
                    Err(p) => rep.violation("panic", &format!("url {} in {}", def_sig(&def), panic_site(&p)), &p, rp.clone()),
                }
            }
        }
        _ => rep.inconclusive("replay file has no known phase"),
    }
    loc.flush(rep);
}

pub fn run(ctx: &Ctx, rep: &mut Reporter) {
    if let Some(rp) = &ctx.replay {
        if rp["phase"] == "long" {
            replay_long(ctx, rep, rp);
        } else {
            replay(rep, rp);
        }
        return;
    }
    let miri = ctx.is_miri();
    let monrel = ctx.layer == "monrel";

    // definitions
    let (fixed_random, extra) = if miri { (0, 2) } else if ctx.thorough() { (260, 2500) } else { (180, 250) };
    let defs = build_defs(ctx.seed, extra, fixed_random);

    if miri {
        // a few hundred operations per shard: hand patterns × paths up to length 3, tiny quoter space
        let paths = all_paths(3);
        let mine: Vec<Def> = defs.iter().enumerate().filter(|(i, _)| ctx.mine(*i as u64)).map(|(_, d)| d.clone()).take(6).collect();
        let one = Ctx { shard: 0, nshards: 1, ..clone_ctx(ctx) };
        phase_exhaustive(&one, rep, &mine, &paths[..paths.len().min(60)]);
        phase_quoter(ctx, rep, 3, 2);
        // (no 64 KiB paths here: one regex search over such a path takes minutes under Miri)
        return;
    }

    if monrel {
        // release arithmetic: the offset-heavy phases only
        phase_long(ctx, rep, ctx.share(24_000, 400_000));
        let paths = all_paths(5);
        phase_chain(ctx, rep, &defs, &paths, ctx.n(2000, 30_000));
        phase_quoter(ctx, rep, 5, ctx.share(20000, 200000));
        return;
    }

    let max_len = if ctx.thorough() { 8 } else { 7 };
    let paths = all_paths(max_len);
    let t = std::time::Instant::now();
    let mut lap = |rep: &mut Reporter, name: &str| {
        if std::env::var("AVMON_TIMING").is_ok() {
            eprintln!("[c10] {name}: {:.2}s", t.elapsed().as_secs_f64());
        }
        let _ = rep;
    };
    // long paths first: they are the part a time budget must never cut
    // first, because it is small and must never be cut by the budget
    let mdefs = meta_defs();
    phase_meta_positions(ctx, rep, &mdefs);
    lap(rep, "phase_meta_positions");
    phase_long(ctx, rep, ctx.share(12_000, 400_000));
    lap(rep, "phase_long");
    phase_quoter(ctx, rep, if ctx.thorough() { 7 } else { 6 }, ctx.share(400_000, 6_000_000));
    lap(rep, "phase_quoter");
    phase_roundtrip(ctx, rep, &defs, if ctx.thorough() { 400 } else { 120 });
    lap(rep, "phase_roundtrip");
    phase_url(ctx, rep, &defs, ctx.share(160_000, 5_000_000));
    lap(rep, "phase_url");
    let short: Vec<String> = paths.iter().filter(|p| p.len() <= 6).cloned().collect();
    phase_chain(ctx, rep, &defs, &short, ctx.n(2000, 40_000));
    lap(rep, "phase_chain");
    let shorter: Vec<String> = paths.iter().filter(|p| p.len() <= 5).cloned().collect();
    phase_router(ctx, rep, &defs, &shorter, ctx.n(2000, 60_000));
    lap(rep, "phase_router");
    phase_exhaustive(ctx, rep, &defs, &paths);
    lap(rep, "phase_exhaustive");
    {
        let mut meta = vec![];
        for src in HAND_META {
            let p = Pattern::parse(src).expect("meta pattern in grammar");
            meta.push(Def::one(p.clone(), false));
            if !p.has_tail() {
                meta.push(Def::one(p, true));
            }
        }
        let mpaths = all_paths_over(&SIGMA_META, if ctx.thorough() { 7 } else { 6 });
        phase_exhaustive(ctx, rep, &meta, &mpaths);
        lap(rep, "phase_exhaustive(meta)");
        // metacharacter literals in every literal position
        if ctx.shard == 0 {
            rep.count("defs:metacharacter-literal-positions", mdefs.len() as u64);
            rep.sample("metachar-definition", json!({"patterns": mdefs[mdefs.len() / 3].sources(), "prefix": mdefs[mdefs.len() / 3].prefix}));
        }
        phase_roundtrip(ctx, rep, &mdefs, 60);
        let vpaths = all_paths_over(&SIGMA_VICTIM, if ctx.thorough() { 8 } else { 7 });
        phase_exhaustive(ctx, rep, &mdefs, &vpaths);
        lap(rep, "phase_exhaustive(meta positions)");
    }

    if ctx.shard == 0 {
        let d = &defs[HAND.len()];
        rep.sample("definition", json!({"patterns": d.sources(), "prefix": d.prefix, "shape": d.shape()}));
        let (p, di, _) = long_case(ctx.seed, 0);
        rep.sample("long-path", json!({"pattern": LONG_DEFS[di].0, "prefix": LONG_DEFS[di].1, "bytes": p.len(), "head": esc_short(p.as_bytes(), 40)}));
        let (pr, inp) = quoter_random_case(ctx.seed, 3);
        rep.sample("quoter", json!({"protected": esc(&pr), "input": esc_short(&inp, 80), "expected": pct_decode::requote(&inp, &pr).map(|v| esc_short(&v, 80))}));
    }
}

fn clone_ctx(c: &Ctx) -> Ctx {
    Ctx {
        tier: c.tier,
        seed: c.seed,
        shard: c.shard,
        nshards: c.nshards,
        replay: None,
        budget_s: c.budget_s,
        start: c.start,
        scale_pct: c.scale_pct,
        layer: c.layer.clone(),
    }
}

fn replay_long(ctx: &Ctx, rep: &mut Reporter, rp: &Value) {
    rep.eval();
    rep.sig("replay");
    rep.sig("replay2");
    let case = rp["case"].as_u64().unwrap_or(0);
    let seed = rp["seed"].as_u64().unwrap_or(ctx.seed);
    let (path, di, di2) = long_case(seed, case);
    let defs: Vec<Def> = LONG_DEFS.iter().map(|(s, p)| Def::one(Pattern::parse(s).unwrap(), *p)).collect();
    let mut loc = Local::new();
    if let Some(rdef) = build_rdef(rep, &defs[di]) {
        run_case_long(rep, &mut loc, &defs[di], &rdef, &path, &mut vec![], case, seed);
        if defs[di].prefix {
            if let Some(r2) = build_rdef(rep, &defs[di2]) {
                match guard(|| check_chain(&defs[di], &rdef, &defs[di2], &r2, &path)) {
                    Ok(Ok(_)) => {}
                    Ok(Err(f)) => report(rep, "long-chain", f, format!("long: {} then {}", def_sig(&defs[di]), def_sig(&defs[di2])), rp.clone()),
                    Err(p) => rep.violation("panic", &format!("long chain {} in {}", def_sig(&defs[di]), panic_site(&p)), &p, rp.clone()),
                }
            }
        }
    }
    loc.flush(rep);
}
