//! C04 — HTTP/1 connections always progress: no lost wake-ups, all bytes flushed exactly once.
//!
//! Liveness restated as bounded progress, judged logically (never by wall clock): the connection
//! future is polled only when its waker fired; after the adversarial schedule a settling phase
//! enables everything that is still disabled, one item at a time in a random order; then
//! * `stall`   — future pending and no wake-up outstanding                              ⇒ violation
//! * `spin`    — more polls than the bound while nothing observable changes             ⇒ violation
//! * `output`  — bytes accepted across partial writes differ from the same scenario on an
//!               always-ready socket (for scenarios whose output is timing independent)  ⇒ violation
//!               or do not parse / do not carry the bodies the handlers produced         ⇒ violation

use serde_json::{json, Value};

use super::c03::Req3;
use crate::{
    refmodel::h1_resp,
    report::{guard, panic_site, Ctx, Reporter},
    util::{esc_short, split_at_cuts, Rng},
    world::{
        conn::ConnCfg,
        run::{acts_from_json, acts_to_json, run_scenario, Act, Outcome, Scenario},
        svc::{fill_data, BStep, BodyKind, Prog, ReadMode},
    },
};

#[derive(Clone, Debug)]
pub struct Case {
    pub cfg: ConnCfg,
    pub reqs: Vec<Req3>,
    pub progs: Vec<Prog>,
    pub acts: Vec<Act>,
    pub settle: Vec<Act>,
    pub initial_credit: Option<usize>,
    /// output does not depend on relative timing (every handler reads its whole body before
    /// answering, nothing is cut, reset or failed)
    pub deterministic_output: bool,
    pub fault: &'static str,
}

impl Case {
    fn ngates(&self) -> usize {
        self.reqs.len() * 3
    }
    fn scenario(&self) -> Scenario {
        let mut sc = Scenario::new(self.cfg.clone(), self.progs.clone(), self.ngates());
        sc.acts = self.acts.clone();
        sc.settle = self.settle.clone();
        sc.initial_credit = self.initial_credit;
        sc.poll_cap = 200_000;
        sc
    }
    /// the same scenario on a socket that is always ready and with every gate open from the start
    fn reference(&self) -> Scenario {
        let mut sc = Scenario::new(self.cfg.clone(), self.progs.clone(), self.ngates());
        for g in 0..self.ngates() {
            sc.acts.push(Act::Gate(g, 1_000_000));
        }
        for a in self.acts.iter().chain(self.settle.iter()) {
            if matches!(a, Act::Push(_) | Act::Eof | Act::ReleaseHeld) {
                sc.acts.push(a.clone());
            }
        }
        sc
    }
    fn to_json(&self) -> Value {
        json!({"cfg": self.cfg.to_json(), "reqs": self.reqs.iter().map(|r| r.to_json()).collect::<Vec<_>>(), "progs": self.progs.iter().map(|p| p.to_json()).collect::<Vec<_>>(),
            "acts": acts_to_json(&self.acts), "settle": acts_to_json(&self.settle), "initial_credit": self.initial_credit, "deterministic_output": self.deterministic_output, "fault": self.fault})
    }
    fn from_json(v: &Value) -> Case {
        Case {
            cfg: ConnCfg::from_json(&v["cfg"]),
            reqs: v["reqs"].as_array().map(|a| a.iter().map(Req3::from_json).collect()).unwrap_or_default(),
            progs: v["progs"].as_array().map(|a| a.iter().map(Prog::from_json).collect()).unwrap_or_default(),
            acts: acts_from_json(&v["acts"]),
            settle: acts_from_json(&v["settle"]),
            initial_credit: v["initial_credit"].as_u64().map(|x| x as usize),
            deterministic_output: v["deterministic_output"].as_bool().unwrap_or(false),
            fault: match v["fault"].as_str() {
                Some("reset") => "reset",
                Some("fail-writes") => "fail-writes",
                Some("early-eof") => "early-eof",
                Some("eof-abort") => "eof-abort",
                _ => "none",
            },
        }
    }
    fn shape(&self) -> String {
        let mut s = String::new();
        let mut last = String::new();
        for a in self.acts.iter().chain(std::iter::once(&Act::Advance(0))).chain(self.settle.iter()) {
            let t = match a {
                Act::Advance(0) => "|".to_string(),
                Act::Gate(g, _) => ["r", "h", "b"][g % 3].to_string(),
                other => other.tag(),
            };
            if t != last || t == "P" {
                s.push_str(&t);
            }
            last = t;
        }
        s
    }
}

fn strip_dates(out: &[u8]) -> Vec<u8> {
    let mut v = Vec::with_capacity(out.len());
    for line in out.split_inclusive(|&b| b == b'\n') {
        if line.len() >= 5 && line[..5].eq_ignore_ascii_case(b"date:") {
            continue;
        }
        v.extend_from_slice(line);
    }
    v
}

struct Verdict {
    class: &'static str,
    sig: String,
    detail: String,
}

fn stuck_where(case: &Case, oc: &Outcome) -> String {
    // abstract description of where the connection is stuck: what was in flight
    let sent: usize = case.acts.iter().chain(case.settle.iter()).map(|a| if let Act::Push(d) = a { d.len() } else { 0 }).sum();
    let unread_input = sent as u64 > oc.bytes_read;
    let last = oc.reqs.last();
    let in_handler = last.map(|r| r.responded_seq == 0).unwrap_or(false);
    let body_open = last.map(|r| r.resp_end == crate::world::svc::RespEnd::Open && r.responded_seq != 0).unwrap_or(false);
    format!(
        "input-left={} handler-pending={} response-body-open={} read-mode={}",
        unread_input,
        in_handler,
        body_open,
        last.map(|r| match case.progs.get(r.idx).map(|p| &p.read) {
            Some(ReadMode::All) => "all",
            Some(ReadMode::Ignore) => "ignore",
            Some(ReadMode::Chunks(_)) => "part",
            Some(ReadMode::Hold) => "hold",
            Some(ReadMode::AfterRespond) => "after",
            Some(ReadMode::DropFirst) => "drop",
            None => "default",
        })
        .unwrap_or("none")
    )
}

fn judge(case: &Case, oc: &Outcome, reference: Option<&Outcome>) -> Vec<Verdict> {
    let mut v = vec![];
    let events = (case.acts.len() + case.settle.len()) as u64;
    if oc.livelock {
        v.push(Verdict {
            class: "self-wake-livelock",
            sig: stuck_where(case, oc),
            detail: format!("the connection task kept waking itself for more than {} polls after one environment event without finishing ({} bytes written, {} handlers ran)", 200_000, oc.out.len(), oc.reqs.len()),
        });
        return v;
    }
    if oc.stalled && case.fault == "eof-abort" && !oc.eof_delivered {
        // one handler never answers by construction; the connection can only end on the peer's FIN,
        // and a server that has stopped reading (back-pressure, full buffer) has not seen it yet
        return v;
    }
    if oc.stalled {
        v.push(Verdict {
            class: "stall-no-wakeup",
            sig: stuck_where(case, oc),
            detail: format!(
                "everything is enabled (unlimited write credit, flush/shutdown unblocked, all gates open, all input delivered, peer closed) but the connection task is Pending and no wake-up is outstanding; a forced poll {} | written={} read={} of input, handlers={} polls={} wakes={}",
                if oc.stall_forced_poll_progress { "makes progress (lost wake-up)" } else { "makes no progress either" },
                oc.out.len(),
                oc.bytes_read,
                oc.reqs.len(),
                oc.polls,
                oc.wakes
            ),
        });
        return v;
    }
    if !oc.done && case.fault == "eof-abort" && !oc.eof_delivered {
        return v;
    }
    if !oc.done {
        v.push(Verdict { class: "not-terminated", sig: stuck_where(case, oc), detail: "connection task neither finished nor stalled nor spinning at the end of the settling phase".into() });
        return v;
    }
    // bounded progress: polls are bounded by the work there was to do.  Every poll needs a wake;
    // wakes come from environment events, from bytes moved and from self-wakes.  A generous,
    // load-independent bound: 64 + 8·events + one poll per 512 bytes moved in either direction.
    let moved = oc.bytes_read + oc.out.len() as u64;
    let bound = 64 + 8 * events + moved / 256 + 4 * oc.reqs.len() as u64;
    // (self-wake spinning behind a pending handler with a full read buffer is a known, counted
    // behaviour of the unchanged tree — DESIGN.md section 11 — and not what this clause is about)
    if oc.polls > bound * 4 && oc.spins == 0 {
        v.push(Verdict { class: "poll-amplification", sig: stuck_where(case, oc), detail: format!("{} polls for {} events and {} bytes moved (bound {})", oc.polls, events, moved, bound * 4) });
    }
    // output integrity
    if case.fault == "none" || case.fault == "early-eof" || case.fault == "eof-abort" {
        let methods: Vec<String> = case.reqs.iter().map(|r| r.method.to_string()).collect();
        let rp = h1_resp::parse_responses(&oc.out, &|i| methods.get(i).cloned(), true);
        if let Some((at, why)) = rp.malformed_at {
            v.push(Verdict {
                class: "output-malformed",
                sig: why.to_string(),
                detail: format!("bytes accepted by the socket do not form a response stream at offset {at} ({why}): …{}", esc_short(&oc.out[at.saturating_sub(50)..(at + 50).min(oc.out.len())], 160)),
            });
            return v;
        }
        let mut k = 0;
        for r in rp.resps.iter().filter(|r| !r.is_interim()) {
            if let (Some(i), Some(rec)) = (r.req_idx_header(), oc.reqs.get(k)) {
                if i != k {
                    v.push(Verdict { class: "output-order", sig: "x-req-idx".into(), detail: format!("response at position {k} answers request {i}") });
                    return v;
                }
                // (a request beyond the generated list is the malformed tail, whose head may be valid)
                let bodiless = case.reqs.get(i).map(|q| q.method == "HEAD").unwrap_or(false) || r.status == 204 || r.status == 304;
                if !bodiless {
                    let mut want = rec.resp_yielded.clone();
                    if let Some(p) = case.progs.get(i) {
                        if let BodyKind::SizedStream(n) | BodyKind::CustomSized(n) = p.kind {
                            want.truncate(n as usize);
                        }
                    }
                    let ok = if r.complete { r.body == want } else { want.starts_with(&r.body) || r.framing == h1_resp::RespFraming::Chunked };
                    if !ok {
                        let at = r.body.iter().zip(&want).position(|(a, b)| a != b).unwrap_or(r.body.len().min(want.len()));
                        v.push(Verdict {
                            class: "output-bytes-differ",
                            sig: format!("complete={}", r.complete),
                            detail: format!("response #{i}: body on the wire ({} bytes) differs from what the handler's body produced ({} bytes) at {at} — bytes lost, duplicated or reordered across partial writes", r.body.len(), want.len()),
                        });
                        return v;
                    }
                }
            }
            k += 1;
        }
        if case.fault == "none" && k < oc.reqs.len() && !rp.incomplete_tail {
            // a handler answered but its response never reached the socket, although the peer
            // read everything and nothing failed — unless the connection was closed before
            // (close semantics are C03's business: only flagged when no response closed)
            let any_close = rp.resps.iter().any(|r| r.has_close() || (r.version == 10 && !r.has_keep_alive()));
            let answered = oc.reqs.iter().filter(|r| r.responded_seq != 0).count();
            if !any_close && k < answered {
                v.push(Verdict { class: "response-never-written", sig: "no-fault".into(), detail: format!("{answered} handlers answered but only {k} responses reached the socket") });
            }
        }
    }
    if let (true, Some(rf)) = (case.deterministic_output && case.fault == "none", reference) {
        let (a, b) = (strip_dates(&oc.out), strip_dates(&rf.out));
        if a != b {
            let at = a.iter().zip(&b).position(|(x, y)| x != y).unwrap_or(a.len().min(b.len()));
            v.push(Verdict {
                class: "output-differs-from-ready-socket-run",
                sig: "deterministic-scenario".into(),
                detail: format!(
                    "bytes accepted under the fault schedule ({}) differ from the always-ready run ({}) at offset {at}: …{}… vs …{}…",
                    a.len(),
                    b.len(),
                    esc_short(&a[at.saturating_sub(30)..(at + 40).min(a.len())], 120),
                    esc_short(&b[at.saturating_sub(30)..(at + 40).min(b.len())], 120)
                ),
            });
        }
    }
    v
}

fn eval_case(case: &Case, rep: &mut Reporter) {
    rep.eval();
    let sc = case.scenario();
    let oc = match guard(|| run_scenario(&sc)) {
        Ok(o) => o,
        Err(p) => {
            rep.violation("panic", &panic_site(&p), &format!("panic: {p}"), case.to_json());
            return;
        }
    };
    if std::env::var("AVMON_DEBUG").is_ok() {
        crate::world::run::debug_dump(&sc, &oc);
    }
    let reference = if case.deterministic_output && case.fault == "none" {
        rep.count("reference_runs", 1);
        guard(|| run_scenario(&case.reference())).ok()
    } else {
        None
    };
    rep.count("polls", oc.polls);
    rep.count("wakes_delivered_to_connection", oc.wakes);
    rep.count("read_pendings", oc.read_pendings);
    rep.count("write_pendings", oc.write_pendings);
    rep.count("partial_writes", oc.partial_writes);
    rep.count("flush_pendings", oc.flush_pendings);
    rep.count("handler_invocations", oc.reqs.len() as u64);
    rep.count(&format!("fault:{}", case.fault), 1);
    if case.fault == "eof-abort" {
        rep.count(if oc.eof_delivered { "eof-abort:fin_observed_by_server" } else { "eof-abort:fin_not_observed(server not reading)" }, 1);
    }
    rep.count(if oc.done { "terminated" } else { "not_terminated" }, 1);
    match &oc.result {
        Some(Ok(())) => rep.count("result:ok", 1),
        Some(Err(_)) => rep.count("result:err", 1),
        None => {}
    }
    rep.max("polls_in_one_case", oc.polls);
    if oc.spins > 0 {
        rep.count("cases_with_self_wake_spinning(observed, not judged)", 1);
    }
    if oc.bytes_read > 131_072 {
        rep.count("cases_reading_beyond_read_buffer_limit", 1);
    }
    for vd in judge(case, &oc, reference.as_ref()) {
        let detail = format!(
            "{} | reqs=[{}] cfg write_buf={:?} half_closed={} fault={} schedule={}",
            vd.detail,
            case.reqs.iter().map(|r| format!("{}:{}", r.tag(), r.body_len)).collect::<Vec<_>>().join(","),
            case.cfg.write_buf,
            case.cfg.half_closed,
            case.fault,
            case.shape()
        );
        rep.violation(vd.class, &vd.sig, &detail, case.to_json());
    }
    if oc.read_pendings > 0 && oc.write_pendings + oc.flush_pendings > 0 {
        rep.sig(&case.shape());
    } else {
        rep.count("schedules_without_both_side_pendings", 1);
    }
}

// ------------------------------------------------------------------------------------ generator

pub fn gen_case(rng: &mut Rng) -> Case {
    let n = match rng.below(6) {
        0 | 1 => 1,
        2 | 3 => 2,
        4 => 3,
        _ => 4,
    };
    let mut cfg = ConnCfg::persistent();
    cfg.half_closed = rng.chance(2, 3);
    if rng.chance(1, 3) {
        cfg.write_buf = Some(*rng.pick(&[1usize, 512, 4096, 100_000]));
    }
    let all_read_all = rng.chance(1, 2);
    let mut reqs = vec![];
    let mut progs = vec![];
    for i in 0..n {
        let has_body = rng.chance(3, 4);
        let framing = if !has_body {
            0
        } else if rng.chance(1, 2) {
            1
        } else {
            2
        };
        let body_len = if framing == 0 { 0 } else { *rng.pick(&[5usize, 300, 9000, 33_000, 70_000, 150_000, 300_000]) };
        reqs.push(Req3 { method: if framing == 0 { *rng.pick(&["GET", "GET", "HEAD"]) } else { "POST" }, v10: false, conn: 0, framing, body_len, body_seed: rng.next() });
        let read = if all_read_all {
            ReadMode::All
        } else {
            match rng.below(8) {
                0 => ReadMode::Ignore,
                1 => ReadMode::Chunks(rng.range(1, 3)),
                2 => ReadMode::Hold,
                3 => ReadMode::AfterRespond,
                4 => ReadMode::DropFirst,
                _ => ReadMode::All,
            }
        };
        let mut p = Prog { read, ..Default::default() };
        if rng.chance(1, 3) {
            p.pre_gate = Some(3 * i);
        }
        if rng.chance(1, 2) {
            p.post_gate = Some(3 * i + 1);
        }
        if rng.chance(1, 3) {
            p.read_gate = Some(3 * i + 2);
        }
        match rng.below(4) {
            0 => {
                p.kind = BodyKind::BodyStream;
                p.steps = vec![BStep::Data(fill_data(*rng.pick(&[3usize, 5000, 40_000]), 1)), BStep::Wait(3 * i + 2), BStep::Data(fill_data(*rng.pick(&[1usize, 70_000]), 9))];
            }
            1 => {
                let (a, b) = (*rng.pick(&[10usize, 33_000]), *rng.pick(&[7usize, 100_000]));
                p.kind = BodyKind::SizedStream((a + b) as u64);
                p.steps = vec![BStep::Data(fill_data(a, 3)), BStep::Wait(3 * i + 2), BStep::Data(fill_data(b, 4))];
            }
            2 => {
                p.steps = vec![BStep::Data(fill_data(*rng.pick(&[2usize, 50_000, 200_000]), 7))];
            }
            _ => {}
        }
        progs.push(p);
    }
    let mut stream = vec![];
    for (i, r) in reqs.iter().enumerate() {
        stream.extend_from_slice(&r.bytes(i));
    }
    // sometimes the pipeline ends in a malformed request: the 4xx the server produces for it (and
    // everything queued before it) must still reach a socket that accepts bytes only in pieces
    // (only with half-close allowed: with `h1_allow_half_closed(false)` a parse error is handled
    // like a peer EOF and aborts whatever is in flight — see DESIGN.md section 11)
    if cfg.half_closed && rng.chance(1, 4) {
        stream.extend_from_slice(*rng.pick(&[
            &b"GET /bad HTTP/1\r\nHost: t\r\n\r\n"[..],
            &b"POST /bad HTTP/1.1\r\nHost: t\r\nContent-Length: 3\r\nTransfer-Encoding: chunked\r\n\r\n0\r\n\r\n"[..],
            &b"POST /bad HTTP/1.1\r\nHost: t\r\nTransfer-Encoding: chunked\r\n\r\nzz\r\n"[..],
            &b"GET /bad HTTP/1.1\r\nHost: t\r\nContent-Length: 1\r\nContent-Length: 2\r\n\r\nab"[..],
        ]));
    }
    let cuts = rng.cuts(stream.len(), 10);
    let segs = split_at_cuts(&stream, &cuts);
    // event lists
    let mut lists: Vec<Vec<Act>> = vec![segs.into_iter().map(Act::Push).collect()];
    let mut gate_need: Vec<(usize, usize)> = vec![];
    for (i, p) in progs.iter().enumerate() {
        if p.pre_gate.is_some() {
            gate_need.push((3 * i, 1));
        }
        if p.post_gate.is_some() {
            gate_need.push((3 * i + 1, 1));
        }
        let waits = p.steps.iter().filter(|s| matches!(s, BStep::Wait(_))).count() + if p.read_gate.is_some() { rng.range(1, 12) } else { 0 };
        if waits > 0 {
            gate_need.push((3 * i + 2, waits));
        }
    }
    for (g, k) in &gate_need {
        lists.push((0..*k).map(|_| Act::Gate(*g, 1)).collect());
    }
    // write-side faults
    let limited = rng.chance(2, 3);
    let mut writes = vec![];
    if limited {
        for _ in 0..rng.range(1, 10) {
            writes.push(match rng.below(8) {
                0 => Act::SetCredit(0),
                1 => Act::MaxWrite(*rng.pick(&[1usize, 3, 100, 4096])),
                2 => Act::BlockFlush(true),
                3 => Act::BlockFlush(false),
                4 => Act::BlockShutdown(true),
                _ => Act::Credit(*rng.pick(&[1usize, 2, 50, 1000, 9000, 40_000, 500_000])),
            });
        }
        lists.push(writes);
    }
    let mut acts = vec![];
    let mut pos = vec![0usize; lists.len()];
    loop {
        let avail: Vec<usize> = (0..lists.len()).filter(|&k| pos[k] < lists[k].len()).collect();
        if avail.is_empty() {
            break;
        }
        let k = *rng.pick(&avail);
        acts.push(lists[k][pos[k]].clone());
        pos[k] += 1;
    }
    // every prefix of a schedule is a schedule: cut it somewhere; what was not delivered moves to
    // the settling phase
    let cut_at = if rng.chance(1, 2) { acts.len() } else { rng.below(acts.len() + 1) };
    let rest: Vec<Act> = acts.split_off(cut_at);
    let mut fault = "none";
    let mut tail_pushes: Vec<Act> = rest.iter().filter(|a| matches!(a, Act::Push(_))).cloned().collect();
    match rng.below(12) {
        0 => {
            fault = "reset";
            tail_pushes.clear();
        }
        1 => {
            fault = "fail-writes";
        }
        2 if !tail_pushes.is_empty() => {
            fault = "early-eof";
            tail_pushes.truncate(rng.below(tail_pushes.len()));
        }
        _ => {}
    }
    // settling items, one at a time, in a random order (pushes keep their relative order and the
    // end-of-input marker comes after them)
    let mut items: Vec<Vec<Act>> = vec![];
    items.push(vec![Act::MaxWrite(usize::MAX), Act::SetCredit(usize::MAX)]);
    items.push(vec![Act::BlockFlush(false)]);
    items.push(vec![Act::BlockShutdown(false)]);
    for g in 0..(n * 3) {
        items.push(vec![Act::Gate(g, 1_000_000)]);
    }
    items.push(vec![Act::ReleaseHeld]);
    if fault == "fail-writes" {
        items.push(vec![Act::FailWrites]);
    }
    let mut input = tail_pushes;
    input.push(if fault == "reset" { Act::Reset } else { Act::Eof });
    items.push(input);
    // shuffle item order; inside the input item the order is kept but its elements are spread out
    let mut settle = vec![];
    let mut order: Vec<usize> = (0..items.len()).collect();
    for i in (1..order.len()).rev() {
        order.swap(i, rng.below(i + 1));
    }
    let mut cursors = vec![0usize; items.len()];
    let mut live: Vec<usize> = order.clone();
    while !live.is_empty() {
        // mostly finish items in the shuffled order, sometimes interleave
        let pick = if rng.chance(3, 4) { 0 } else { rng.below(live.len()) };
        let it = live[pick];
        settle.push(items[it][cursors[it]].clone());
        cursors[it] += 1;
        if cursors[it] == items[it].len() {
            live.remove(pick);
        }
    }
    // With half-close disallowed the server aborts as soon as it sees the peer's FIN, whatever is
    // in flight: leave one handler pending for ever and demand that the connection still ends.
    let gated: Vec<usize> = (0..n).filter(|&i| progs[i].post_gate.is_some()).collect();
    if !cfg.half_closed && fault == "none" && !gated.is_empty() && rng.chance(1, 3) {
        fault = "eof-abort";
        let g = 3 * *rng.pick(&gated) + 1;
        acts.retain(|a| !matches!(a, Act::Gate(x, _) if *x == g));
        settle.retain(|a| !matches!(a, Act::Gate(x, _) if *x == g));
    }
    let deterministic_output = all_read_all && fault == "none";
    if deterministic_output {
        // Byte identity with the always-ready run is only demanded when the peer half-closes
        // after everything else is enabled: a FIN that overtakes buffered, not yet decoded
        // requests (decoding paused by back-pressure) makes the server drop them, which changes
        // the set of dispatched requests — outside this property's statement (noted in DESIGN.md).
        settle.retain(|a| !matches!(a, Act::Eof));
        settle.push(Act::Eof);
    }
    Case { cfg, reqs, progs, acts, settle, initial_credit: if limited { Some(*rng.pick(&[0usize, 0, 1, 100, 10_000])) } else { None }, deterministic_output, fault }
}

/// small scenarios whose schedules (and all their prefixes) are enumerated completely
fn enumerated(ctx: &Ctx, rep: &mut Reporter) {
    // one POST with a body larger than the payload back-pressure limit, a slow consumer, a
    // streamed response, and a socket granting credit in pieces
    let req = Req3 { method: "POST", v10: false, conn: 0, framing: 1, body_len: 70_000, body_seed: 5 };
    let bytes = req.bytes(0);
    let segs = split_at_cuts(&bytes, &[40, 20_000, 50_000]);
    let prog = Prog {
        read: ReadMode::All,
        read_gate: Some(2),
        kind: BodyKind::BodyStream,
        steps: vec![BStep::Data(fill_data(40_000, 1)), BStep::Wait(1), BStep::Data(fill_data(10, 2))],
        ..Default::default()
    };
    let alphabet: Vec<Act> = vec![Act::Gate(2, 1), Act::Gate(2, 3), Act::Gate(1, 1), Act::Credit(10_000), Act::Credit(60_000), Act::SetCredit(0)];
    let depth = if ctx.thorough() { 5 } else { 4 };
    let mut idx = 0u64;
    let mut complete = true;
    let mut stack: Vec<Vec<usize>> = vec![vec![]];
    while let Some(seq) = stack.pop() {
        if seq.len() < depth {
            for a in 0..alphabet.len() + 1 {
                let mut s = seq.clone();
                s.push(a);
                stack.push(s);
            }
        }
        idx += 1;
        if !ctx.mine(idx) {
            continue;
        }
        if ctx.out_of_time() {
            complete = false;
            break;
        }
        // symbol `alphabet.len()` = "deliver the next input segment"
        let mut acts = vec![];
        let mut next_seg = 0;
        for &a in &seq {
            if a == alphabet.len() {
                if next_seg < segs.len() {
                    acts.push(Act::Push(segs[next_seg].clone()));
                    next_seg += 1;
                }
            } else {
                acts.push(alphabet[a].clone());
            }
        }
        // settling: three fixed orders rotate with the index
        let mut tail: Vec<Act> = segs[next_seg..].iter().cloned().map(Act::Push).collect();
        tail.push(Act::Eof);
        let open = vec![Act::Gate(0, 1_000_000), Act::Gate(1, 1_000_000), Act::Gate(2, 1_000_000)];
        let credit = vec![Act::SetCredit(usize::MAX)];
        let mut settle: Vec<Act> = match idx % 3 {
            0 => [credit, open, tail].concat(),
            1 => [tail, open, credit].concat(),
            _ => [open, tail, credit].concat(),
        };
        settle.retain(|a| !matches!(a, Act::Eof));
        settle.push(Act::Eof);
        let case = Case { cfg: ConnCfg::persistent(), reqs: vec![req.clone()], progs: vec![prog.clone()], acts, settle, initial_credit: Some(0), deterministic_output: true, fault: "none" };
        eval_case(&case, rep);
    }
    rep.exhaustive(&format!("all schedules up to length {depth} over 7 symbols (consumer permits, body gate, credit grants/withdrawal, next input segment) of the back-pressure scenario"), complete);
}

pub fn run(ctx: &Ctx, rep: &mut Reporter) {
    if let Some(r) = &ctx.replay {
        eval_case(&Case::from_json(r), rep);
        rep.sig("replay-a");
        rep.sig("replay-b");
        return;
    }
    enumerated(ctx, rep);
    let n = ctx.share(24_000, 1_200_000);
    for k in 0..n {
        if ctx.out_of_time() {
            break;
        }
        let mut rng = Rng::derive(ctx.seed, 4, k * ctx.nshards + ctx.shard);
        let case = gen_case(&mut rng);
        eval_case(&case, rep);
        if k == 2 {
            rep.sample("random-schedule", json!({"reqs": case.reqs.iter().map(|r| format!("{}:{}", r.tag(), r.body_len)).collect::<Vec<_>>(), "schedule_shape": case.shape(), "fault": case.fault, "initial_credit": case.initial_credit, "write_buf": case.cfg.write_buf}));
        }
    }
}
