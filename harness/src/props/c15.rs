//! C15 — actix-multipart parsing is exact, segmentation-independent and always terminates;
//! malformed / truncated bodies produce an error rather than a hang or a silently merged field;
//! bounded buffering.
//!
//! Obs: the real `Multipart` (through `Multipart::new`, and through the `FromRequest` extractor
//! with `MultipartConfig::buffer_limit` for the small limits) fed by a *scripted chunk stream* —
//! exactly the scheduled chunks, `Pending` + explicit wake between them where the schedule says so,
//! then `None` (or `Err(Incomplete)`).  The consumer future (reads every field to its end, or skips /
//! drops fields per the case's mode vector; stops at the first error; every loop capped) is driven by
//! `world::exec::Driven`, i.e. polled only when its waker fired.  A **hang** is therefore a logical
//! fact: the consumer is `Pending`, its waker has not fired, and the stream has nobody to wake
//! (it already returned `None`, or it was never asked).
//!
//! Oracle: ground truth by construction (`refmodel::multipart_gen` *encodes* a field list).  A case
//! carries one or more acceptable alternatives (field list + expectation Complete / MustError /
//! Either); the observation must satisfy one of them.  In every alternative the observed fields
//! must be a prefix of the true field list (headers as a multiset, name, content type), a field that
//! ended cleanly must have exactly the true content, an unfinished field a prefix of it.  Universal
//! clauses: no hang, no livelock (poll cap), no panic, pulled − delivered-offset ≤ limit + largest
//! chunk + syntax gap.

use std::{
    cell::RefCell,
    collections::VecDeque,
    pin::Pin,
    rc::Rc,
    task::{Context, Poll, Waker},
};

use actix_multipart::{Multipart, MultipartConfig, MultipartError};
use actix_web::{
    dev::Payload,
    error::PayloadError,
    http::header::{HeaderMap, HeaderValue, CONTENT_TYPE},
    test::TestRequest,
    FromRequest,
};
use bytes::Bytes;
use futures_core::Stream;
use futures_util::StreamExt as _;
use serde_json::{json, Value};

use crate::{
    refmodel::multipart_gen::{self as mg, Body, Encoded, Part, PartOpts, Span},
    report::{guard, panic_site, Ctx, Reporter},
    util::{esc_short, hex, unhex, Rng},
    world::exec::Driven,
};

const DEFAULT_LIMIT: usize = 65_536;
const MAX_FIELDS: usize = 64;

// ------------------------------------------------------------------------------------------------
// scripted chunk stream + observation log (one shared cell; single-threaded)

#[derive(Clone, Debug)]
enum Item {
    Chunk(Bytes),
    Eof,
    Err,
}

#[derive(Clone, Debug, Default, PartialEq, Eq)]
struct ObsField {
    headers: Vec<(String, Vec<u8>)>,
    name: Option<String>,
    ctype: Option<String>,
    content: Vec<u8>,
    ended: bool,
    /// consumer mode for this field: 0 read to the end, 1 drop at once, 2 read one chunk then drop
    mode: u8,
    chunks: u64,
    empty_chunks: u64,
}

#[derive(Clone, Debug, PartialEq, Eq)]
enum End {
    /// consumer future has not finished
    Open,
    Clean,
    Error { kind: String, in_field: bool },
    /// a consumer-side cap was hit (fields or chunks): the parser keeps producing
    Cap(&'static str),
}

struct Shared {
    items: VecDeque<(Item, bool)>,
    armed: bool,
    waker: Option<Waker>,
    want_wake: bool,
    pulled: usize,
    max_chunk: usize,
    ended: bool,
    polls_after_end: u64,
    stream_polls: u64,
    // observation
    fields: Vec<ObsField>,
    end: End,
    delivered_off: usize,
    max_buffered: usize,
    spans: Vec<Span>,
    close_end: usize,
    content_cap: usize,
}

struct ScriptStream(Rc<RefCell<Shared>>);

impl Stream for ScriptStream {
    type Item = Result<Bytes, PayloadError>;
    fn poll_next(self: Pin<&mut Self>, cx: &mut Context<'_>) -> Poll<Option<Self::Item>> {
        let mut s = self.0.borrow_mut();
        s.stream_polls += 1;
        if s.ended {
            s.polls_after_end += 1;
            return Poll::Ready(None);
        }
        let Some((_, pend)) = s.items.front() else {
            s.ended = true;
            return Poll::Ready(None);
        };
        if *pend && !s.armed {
            s.waker = Some(cx.waker().clone());
            s.want_wake = true;
            return Poll::Pending;
        }
        s.armed = false;
        s.want_wake = false;
        let (it, _) = s.items.pop_front().unwrap();
        match it {
            Item::Chunk(b) => {
                s.pulled += b.len();
                s.max_chunk = s.max_chunk.max(b.len());
                let buffered = s.pulled.saturating_sub(s.delivered_off);
                s.max_buffered = s.max_buffered.max(buffered);
                Poll::Ready(Some(Ok(b)))
            }
            Item::Eof => {
                s.ended = true;
                Poll::Ready(None)
            }
            Item::Err => {
                s.ended = true;
                Poll::Ready(Some(Err(PayloadError::Incomplete(None))))
            }
        }
    }
}

fn err_kind(e: &MultipartError) -> String {
    match e {
        MultipartError::ContentTypeMissing => "ContentTypeMissing".into(),
        MultipartError::ContentTypeParse => "ContentTypeParse".into(),
        MultipartError::ContentTypeIncompatible => "ContentTypeIncompatible".into(),
        MultipartError::BoundaryMissing => "BoundaryMissing".into(),
        MultipartError::ContentDispositionMissing => "ContentDispositionMissing".into(),
        MultipartError::ContentDispositionNameMissing => "ContentDispositionNameMissing".into(),
        MultipartError::Nested => "Nested".into(),
        MultipartError::Incomplete => "Incomplete".into(),
        MultipartError::Parse(_) => "Parse".into(),
        MultipartError::Payload(PayloadError::Overflow) => "Overflow".into(),
        MultipartError::Payload(PayloadError::Incomplete(_)) => "PayloadIncomplete".into(),
        MultipartError::Payload(_) => "Payload".into(),
        MultipartError::NotConsumed => "NotConsumed".into(),
        other => format!("{other:?}").split(['(', ' ', '{']).next().unwrap_or("other").to_string(),
    }
}

async fn consume(mut mp: Multipart, sh: Rc<RefCell<Shared>>, modes: Vec<u8>, chunk_cap: u64) {
    let mut total_chunks = 0u64;
    loop {
        let nf = sh.borrow().fields.len();
        if nf >= MAX_FIELDS {
            sh.borrow_mut().end = End::Cap("fields");
            return;
        }
        match mp.next().await {
            None => {
                let mut s = sh.borrow_mut();
                s.end = End::Clean;
                let ce = s.close_end;
                s.delivered_off = s.delivered_off.max(ce);
                return;
            }
            Some(Err(e)) => {
                sh.borrow_mut().end = End::Error { kind: err_kind(&e), in_field: false };
                return;
            }
            Some(Ok(mut field)) => {
                let mode = modes.get(nf).copied().unwrap_or(0);
                {
                    let mut headers: Vec<(String, Vec<u8>)> =
                        field.headers().iter().map(|(n, v)| (n.as_str().to_ascii_lowercase(), v.as_bytes().to_vec())).collect();
                    headers.sort();
                    let of = ObsField {
                        headers,
                        name: field.name().map(|s| s.to_string()),
                        ctype: field.content_type().map(|m| m.essence_str().to_string()),
                        mode,
                        ..Default::default()
                    };
                    let mut s = sh.borrow_mut();
                    if let Some(sp) = s.spans.get(nf).copied() {
                        s.delivered_off = s.delivered_off.max(sp.content_start);
                    }
                    s.fields.push(of);
                }
                if mode == 1 {
                    drop(field);
                    continue;
                }
                loop {
                    total_chunks += 1;
                    if total_chunks > chunk_cap {
                        sh.borrow_mut().end = End::Cap("chunks");
                        return;
                    }
                    match field.next().await {
                        None => {
                            let mut s = sh.borrow_mut();
                            s.fields[nf].ended = true;
                            if let Some(sp) = s.spans.get(nf).copied() {
                                s.delivered_off = s.delivered_off.max(sp.content_end);
                            }
                            break;
                        }
                        Some(Ok(b)) => {
                            let mut s = sh.borrow_mut();
                            let cap = s.content_cap;
                            let sp = s.spans.get(nf).copied();
                            let f = &mut s.fields[nf];
                            f.chunks += 1;
                            if b.is_empty() {
                                f.empty_chunks += 1;
                            }
                            if f.content.len() + b.len() > cap {
                                drop(s);
                                sh.borrow_mut().end = End::Cap("content");
                                return;
                            }
                            f.content.extend_from_slice(&b);
                            let n = f.content.len();
                            if let Some(sp) = sp {
                                let off = (sp.content_start + n).min(sp.content_end);
                                s.delivered_off = s.delivered_off.max(off);
                            }
                            if mode == 2 {
                                break;
                            }
                        }
                        Some(Err(e)) => {
                            sh.borrow_mut().end = End::Error { kind: err_kind(&e), in_field: true };
                            return;
                        }
                    }
                }
                drop(field);
            }
        }
    }
}

// ------------------------------------------------------------------------------------------------
// cases

#[derive(Clone, Debug, PartialEq, Eq)]
struct ExpPart {
    headers: Vec<(String, Vec<u8>)>,
    name: Option<String>,
    ctype: Option<String>,
    content: Vec<u8>,
}

#[derive(Clone, Copy, Debug, PartialEq, Eq)]
enum Expect {
    Complete,
    MustError,
    Either,
}

#[derive(Clone, Debug)]
struct Alt {
    parts: Vec<ExpPart>,
    expect: Expect,
}

#[derive(Clone, Debug)]
struct Case {
    ct: String,
    body: Vec<u8>,
    /// chunk sizes; the sum is body.len(); a 0 is an empty chunk
    sizes: Vec<usize>,
    /// `Pending` (+ wake) before chunk i; last entry: before the end item
    pend: Vec<bool>,
    end_err: bool,
    limit: Option<usize>,
    modes: Vec<u8>,
    alts: Vec<Alt>,
    overflow_ok: bool,
    spans: Vec<Span>,
    close_end: usize,
    gap: usize,
    /// stable, seed-independent description of the input class (signature material)
    tag: String,
    /// where the body ends relative to the structure of the untruncated body
    end_label: String,
}

#[derive(Debug)]
struct Obs {
    fields: Vec<ObsField>,
    end: End,
    hang: bool,
    stream_ended: bool,
    livelock: bool,
    polls: u64,
    pulled: usize,
    max_chunk: usize,
    max_buffered: usize,
    polls_after_end: u64,
}

fn make_multipart(ct: &str, limit: Option<usize>, stream: ScriptStream) -> Multipart {
    match limit {
        None => {
            let mut h = HeaderMap::new();
            if let Ok(v) = HeaderValue::from_str(ct) {
                h.insert(CONTENT_TYPE, v);
            }
            Multipart::new(&h, stream)
        }
        Some(l) => {
            let req = TestRequest::default()
                .insert_header((CONTENT_TYPE, ct.to_string()))
                .app_data(MultipartConfig::default().buffer_limit(l))
                .to_http_request();
            let boxed: Pin<Box<dyn Stream<Item = Result<Bytes, PayloadError>>>> = Box::pin(stream);
            let mut pl = Payload::from(boxed);
            Multipart::from_request(&req, &mut pl).into_inner().expect("extractor is infallible")
        }
    }
}

fn run_case(c: &Case) -> Obs {
    let mut items: VecDeque<(Item, bool)> = VecDeque::with_capacity(c.sizes.len() + 1);
    let mut at = 0;
    let whole = Bytes::copy_from_slice(&c.body);
    for (i, &n) in c.sizes.iter().enumerate() {
        let end = (at + n).min(whole.len());
        items.push_back((Item::Chunk(whole.slice(at..end)), c.pend.get(i).copied().unwrap_or(true)));
        at = end;
    }
    if at < whole.len() {
        items.push_back((Item::Chunk(whole.slice(at..)), true));
    }
    let pend_end = c.pend.get(c.sizes.len()).copied().unwrap_or(true);
    items.push_back((if c.end_err { Item::Err } else { Item::Eof }, pend_end));
    let nitems = items.len() as u64;
    let sh = Rc::new(RefCell::new(Shared {
        items,
        armed: false,
        waker: None,
        want_wake: false,
        pulled: 0,
        max_chunk: 0,
        ended: false,
        polls_after_end: 0,
        stream_polls: 0,
        fields: vec![],
        end: End::Open,
        delivered_off: 0,
        max_buffered: 0,
        spans: c.spans.clone(),
        close_end: c.close_end,
        content_cap: c.body.len() + 64,
    }));
    let mp = make_multipart(&c.ct, c.limit, ScriptStream(sh.clone()));
    let chunk_cap = 4 * (c.body.len() as u64 + nitems) + 64;
    let mut d = Driven::new(consume(mp, sh.clone(), c.modes.clone(), chunk_cap));
    let poll_cap = 8 * (c.body.len() as u64 + nitems) + 256;
    let (mut hang, mut livelock) = (false, false);
    loop {
        if d.done() {
            break;
        }
        if d.poll_if_woken() {
            if d.polls > poll_cap {
                livelock = true;
                break;
            }
            continue;
        }
        // consumer Pending and not woken: the only thing the environment can do is make the
        // stream ready — and only if the stream was asked and stored a waker.
        let w = {
            let mut s = sh.borrow_mut();
            if s.want_wake {
                s.want_wake = false;
                s.armed = true;
                s.waker.take()
            } else {
                None
            }
        };
        match w {
            Some(w) => w.wake(),
            None => {
                hang = true;
                break;
            }
        }
    }
    let polls = d.polls;
    drop(d);
    let s = sh.borrow();
    Obs {
        fields: s.fields.clone(),
        end: s.end.clone(),
        hang,
        stream_ended: s.ended,
        livelock,
        polls,
        pulled: s.pulled,
        max_chunk: s.max_chunk,
        max_buffered: s.max_buffered,
        polls_after_end: s.polls_after_end,
    }
}

struct Verdict {
    class: &'static str,
    sig: String,
    detail: String,
}

fn class_of_content(c: &[u8]) -> &'static str {
    if c.is_empty() {
        "empty"
    } else if c.ends_with(b"\r\n--") {
        "ends-crlf--"
    } else if c.ends_with(b"\r\n") {
        "ends-crlf"
    } else if c.ends_with(b"\r") {
        "ends-cr"
    } else if c.ends_with(b"--") {
        "ends--"
    } else if c.windows(4).any(|w| w == b"\r\n--") {
        "has-crlf--"
    } else if c.contains(&b'\r') {
        "has-cr"
    } else {
        "plain"
    }
}

/// Does `obs` satisfy alternative `alt`?  `None` = yes.
fn check_alt(c: &Case, alt: &Alt, o: &Obs) -> Option<Verdict> {
    let v = |class: &'static str, what: String, detail: String| Some(Verdict { class, sig: format!("{}|{}|{}", what, c.tag, c.end_label), detail });
    if o.fields.len() > alt.parts.len() {
        let f = &o.fields[alt.parts.len()];
        return v(
            "extra-field",
            format!("after-{}-true-fields", alt.parts.len()),
            format!("the parser delivered field #{} (name {:?}, headers {:?}) but the body defines only {} field(s)", alt.parts.len(), f.name, show_headers(&f.headers), alt.parts.len()),
        );
    }
    for (i, f) in o.fields.iter().enumerate() {
        let e = &alt.parts[i];
        if f.headers != e.headers {
            return v("field-headers", format!("field{i}"), format!("field #{i}: headers {:?}, expected {:?}", show_headers(&f.headers), show_headers(&e.headers)));
        }
        if f.name != e.name {
            return v("field-name", format!("field{i}"), format!("field #{i}: name {:?}, expected {:?}", f.name, e.name));
        }
        if f.ctype != e.ctype {
            return v("field-content-type", format!("field{i}"), format!("field #{i}: content type {:?}, expected {:?}", f.ctype, e.ctype));
        }
        let cc = class_of_content(&e.content);
        if !e.content.starts_with(&f.content) {
            let at = f.content.iter().zip(e.content.iter()).take_while(|(a, b)| a == b).count();
            return v(
                "field-content",
                format!("{cc}|not-a-prefix"),
                format!("field #{i} ({:?}): delivered {} bytes that are not a prefix of the true {}-byte content; first difference at {} : delivered …{} true …{}", e.name, f.content.len(), e.content.len(), at, esc_short(&f.content[at.saturating_sub(8)..], 48), esc_short(&e.content[at.saturating_sub(8).min(e.content.len())..], 48)),
            );
        }
        if f.ended && f.mode == 0 && f.content.len() != e.content.len() {
            return v(
                "field-truncated-silently",
                cc.to_string(),
                format!("field #{i} ({:?}) ended cleanly after {} of {} content bytes; missing tail {}", e.name, f.content.len(), e.content.len(), esc_short(&e.content[f.content.len()..], 48)),
            );
        }
        if !f.ended && f.mode == 0 && i + 1 < o.fields.len() {
            return v("field-order", format!("field{i}"), format!("field #{i} never ended but field #{} was delivered", i + 1));
        }
    }
    match (&o.end, alt.expect) {
        (End::Clean, Expect::Complete | Expect::Either) => {
            if o.fields.len() != alt.parts.len() {
                return v(
                    "missing-field",
                    format!("{}-of-{}", o.fields.len(), alt.parts.len()),
                    format!("the multipart stream ended cleanly after {} field(s); the body defines {}", o.fields.len(), alt.parts.len()),
                );
            }
            None
        }
        (End::Clean, Expect::MustError) => v(
            "no-error",
            format!("{}-fields-then-clean-end", o.fields.len()),
            format!("truncated / malformed body accepted: clean end after {} field(s) (all-ended={})", o.fields.len(), o.fields.iter().all(|f| f.ended || f.mode != 0)),
        ),
        (End::Error { kind, in_field }, Expect::Complete) => {
            if kind == "Overflow" && c.overflow_ok {
                return None;
            }
            v(
                "spurious-error",
                format!("{kind}|in_field={in_field}|after-{}-fields", o.fields.len()),
                format!("well-formed body rejected with {kind} (in field stream: {in_field}) after {} field(s)", o.fields.len()),
            )
        }
        (End::Error { .. }, Expect::MustError | Expect::Either) => None,
        (End::Open | End::Cap(_), _) => None, // judged by the universal clauses
    }
}

fn show_headers(h: &[(String, Vec<u8>)]) -> Vec<String> {
    h.iter().map(|(n, v)| format!("{n}: {}", esc_short(v, 60))).collect()
}

fn judge(c: &Case, o: &Obs) -> Option<Verdict> {
    let fin = |class: &'static str, what: String, detail: String| Some(Verdict { class, sig: format!("{}|{}|{}", what, c.tag, c.end_label), detail });
    if o.hang {
        let state = match o.fields.last() {
            Some(f) if !f.ended && f.mode == 0 => "in-field",
            _ => "in-multipart",
        };
        return fin(
            "hang",
            format!("{}|{}", if o.stream_ended { "after-stream-end" } else { "stream-not-asked" }, state),
            format!(
                "consumer is Pending, its waker never fired and the body stream {} — nobody will ever wake it ({} fields so far, {} bytes pulled of {}, {} polls)",
                if o.stream_ended { "already returned its end" } else { "holds data but was not polled (no waker stored)" },
                o.fields.len(),
                o.pulled,
                c.body.len(),
                o.polls
            ),
        );
    }
    if o.livelock {
        return fin("no-termination", "poll-cap".into(), format!("consumer still not finished after {} polls (self-waking) on a {}-byte body", o.polls, c.body.len()));
    }
    if let End::Cap(what) = &o.end {
        return fin("no-termination", format!("cap-{what}"), format!("consumer cap '{what}' hit: the parser keeps producing ({} fields, {} bytes pulled of {})", o.fields.len(), o.pulled, c.body.len()));
    }
    if o.end == End::Open {
        return fin("no-termination", "open".into(), "consumer future neither finished nor hung".into());
    }
    let mut first = None;
    let mut ok = false;
    for alt in &c.alts {
        match check_alt(c, alt, o) {
            None => {
                ok = true;
                break;
            }
            Some(v) => {
                if first.is_none() {
                    first = Some(v);
                }
            }
        }
    }
    if !ok {
        return first;
    }
    // bounded buffering (only meaningful when every field is read to its end: skipped content is
    // consumed inside the parser and never shows up as delivered)
    if c.modes.iter().all(|m| *m == 0) {
        let limit = c.limit.unwrap_or(DEFAULT_LIMIT);
        let bound = limit + o.max_chunk + c.gap;
        if o.max_buffered > bound {
            return fin(
                "buffer-bound",
                format!("limit={limit}"),
                format!("pulled − delivered reached {} bytes; bound is limit {} + largest chunk {} + syntax gap {} = {}", o.max_buffered, limit, o.max_chunk, c.gap, bound),
            );
        }
    }
    None
}

// ---- replay (self-contained: input, schedule, ground truth)

fn part_json(p: &ExpPart) -> Value {
    json!({
        "headers": p.headers.iter().map(|(n, v)| json!([n, hex(v)])).collect::<Vec<_>>(),
        "name": p.name, "ctype": p.ctype, "content": hex(&p.content),
    })
}

fn part_from(v: &Value) -> ExpPart {
    ExpPart {
        headers: v["headers"].as_array().map(|a| a.iter().map(|h| (h[0].as_str().unwrap_or("").to_string(), unhex(h[1].as_str().unwrap_or("")))).collect()).unwrap_or_default(),
        name: v["name"].as_str().map(|s| s.to_string()),
        ctype: v["ctype"].as_str().map(|s| s.to_string()),
        content: unhex(v["content"].as_str().unwrap_or("")),
    }
}

fn replay_json(c: &Case) -> Value {
    json!({
        "ct": c.ct, "body": hex(&c.body), "body_preview": esc_short(&c.body, 300),
        "sizes": c.sizes, "pend": c.pend.iter().map(|b| *b as u8).collect::<Vec<_>>(), "end_err": c.end_err,
        "limit": c.limit, "modes": c.modes, "overflow_ok": c.overflow_ok,
        "alts": c.alts.iter().map(|a| json!({"expect": format!("{:?}", a.expect), "parts": a.parts.iter().map(part_json).collect::<Vec<_>>()})).collect::<Vec<_>>(),
        "spans": c.spans.iter().map(|s| json!([s.hdr_start, s.content_start, s.content_end])).collect::<Vec<_>>(),
        "close_end": c.close_end, "gap": c.gap, "tag": c.tag, "end_label": c.end_label,
    })
}

fn case_from(v: &Value) -> Case {
    let us = |x: &Value| x.as_u64().unwrap_or(0) as usize;
    Case {
        ct: v["ct"].as_str().unwrap_or("").to_string(),
        body: unhex(v["body"].as_str().unwrap_or("")),
        sizes: v["sizes"].as_array().map(|a| a.iter().map(us).collect()).unwrap_or_default(),
        pend: v["pend"].as_array().map(|a| a.iter().map(|x| x.as_u64() == Some(1)).collect()).unwrap_or_default(),
        end_err: v["end_err"].as_bool().unwrap_or(false),
        limit: v["limit"].as_u64().map(|x| x as usize),
        modes: v["modes"].as_array().map(|a| a.iter().map(|x| x.as_u64().unwrap_or(0) as u8).collect()).unwrap_or_default(),
        overflow_ok: v["overflow_ok"].as_bool().unwrap_or(false),
        alts: v["alts"]
            .as_array()
            .map(|a| {
                a.iter()
                    .map(|x| Alt {
                        expect: match x["expect"].as_str() {
                            Some("Complete") => Expect::Complete,
                            Some("MustError") => Expect::MustError,
                            _ => Expect::Either,
                        },
                        parts: x["parts"].as_array().map(|p| p.iter().map(part_from).collect()).unwrap_or_default(),
                    })
                    .collect()
            })
            .unwrap_or_default(),
        spans: v["spans"].as_array().map(|a| a.iter().map(|s| Span { hdr_start: us(&s[0]), content_start: us(&s[1]), content_end: us(&s[2]) }).collect()).unwrap_or_default(),
        close_end: us(&v["close_end"]),
        gap: us(&v["gap"]),
        tag: v["tag"].as_str().unwrap_or("").to_string(),
        end_label: v["end_label"].as_str().unwrap_or("").to_string(),
    }
}

/// Run + judge one case; returns the observation for evidence bookkeeping.
fn eval(c: &Case, rep: &mut Reporter) -> Option<Obs> {
    rep.eval();
    let o = match guard(|| run_case(c)) {
        Ok(o) => o,
        Err(p) => {
            rep.violation("panic", &panic_site(&p), &format!("panic while parsing: {p} | tag={} end={}", c.tag, c.end_label), replay_json(c));
            return None;
        }
    };
    rep.count("polls", o.polls);
    rep.count("fields_observed", o.fields.len() as u64);
    rep.count("field_chunks_observed", o.fields.iter().map(|f| f.chunks).sum());
    rep.count("empty_field_chunks_observed", o.fields.iter().map(|f| f.empty_chunks).sum());
    rep.count("stream_polled_after_end", o.polls_after_end);
    rep.max(&format!("buffered_bytes@limit={}", c.limit.unwrap_or(DEFAULT_LIMIT)), o.max_buffered as u64);
    match &o.end {
        End::Clean => rep.count("end:clean", 1),
        End::Error { kind, in_field } => rep.count(&format!("end:error:{kind}:{}", if *in_field { "field" } else { "multipart" }), 1),
        End::Open => rep.count("end:open", 1),
        End::Cap(w) => rep.count(&format!("end:cap:{w}"), 1),
    }
    if o.hang {
        rep.count("hangs", 1);
    }
    if let Some(v) = judge(c, &o) {
        let detail = format!(
            "{} | ct={} limit={:?} chunks={:?} pend={:?} end={} modes={:?} body({} bytes)={}",
            v.detail,
            c.ct,
            c.limit,
            &c.sizes[..c.sizes.len().min(24)],
            c.pend.iter().take(24).map(|b| *b as u8).collect::<Vec<_>>(),
            if c.end_err { "Err(Incomplete)" } else { "None" },
            c.modes,
            c.body.len(),
            esc_short(&c.body, 240)
        );
        rep.violation(v.class, &v.sig, &detail, replay_json(c));
    }
    Some(o)
}

// ------------------------------------------------------------------------------------------------
// ground truth for a generated body

#[derive(Clone)]
struct Base {
    ct: String,
    enc: Encoded,
    parts: Vec<ExpPart>,
    classes: Vec<&'static str>,
    blen: usize,
    /// largest syntactic unit the parser has to hold at once
    required: usize,
    gap: usize,
    tag: String,
}

fn exp_part(p: &Part) -> ExpPart {
    let mut headers: Vec<(String, Vec<u8>)> = p.headers.iter().map(|(n, _, v)| (n.to_ascii_lowercase(), v.as_bytes().to_vec())).collect();
    headers.sort();
    ExpPart { headers, name: p.name.clone(), ctype: p.content_type.clone(), content: p.content.clone() }
}

fn base_of(b: &Body, label: &str) -> Base {
    let enc = mg::encode(b);
    let blen = b.boundary.len();
    let mut required = blen + 6;
    // preamble lines (split at LF) and the first dash-boundary line
    let head = &enc.bytes[..enc.first_boundary];
    let mut start = 0;
    for (i, ch) in head.iter().enumerate() {
        if *ch == b'\n' {
            required = required.max(i + 1 - start);
            start = i + 1;
        }
    }
    required = required.max(head.len() - start + blen + 6);
    let mut gap = enc.spans.first().map(|s| s.content_start).unwrap_or(enc.bytes.len());
    for (i, s) in enc.spans.iter().enumerate() {
        required = required.max(s.content_start - s.hdr_start);
        let next = enc.spans.get(i + 1).map(|n| n.content_start).unwrap_or(enc.bytes.len());
        gap = gap.max(next - s.content_end);
    }
    let classes: Vec<&'static str> = b.parts.iter().map(|p| p.class).collect();
    let tag = format!(
        "{label}|{}|n{}|b{}|{}",
        b.subtype,
        b.parts.len(),
        match blen {
            1 => "1",
            2..=6 => "s",
            7..=59 => "m",
            _ => "l",
        },
        {
            let mut cs: Vec<&str> = classes.clone();
            cs.sort_unstable();
            cs.dedup();
            cs.join("+")
        }
    );
    Base { ct: mg::content_type_header(b), parts: b.parts.iter().map(exp_part).collect(), enc, classes, blen, required, gap, tag }
}

/// Where offset `p` of the untruncated body lies relative to the structure, plus the state of the
/// `CR LF - -` lookahead window just before it.
fn label(b: &Base, p: usize) -> String {
    let e = &b.enc;
    let bytes = &e.bytes;
    let delim = |k: usize| -> String {
        // k = offset inside CRLF--B<after>
        if k < 4 {
            format!("d{k}")
        } else if k < 4 + b.blen {
            if b.blen == 1 {
                "db".into()
            } else if k == 4 {
                "db-first".into()
            } else if k == 3 + b.blen {
                "db-last".into()
            } else {
                "db-mid".into()
            }
        } else {
            format!("da+{}", (k - 4 - b.blen).min(5))
        }
    };
    let region = if p >= bytes.len() {
        "end".to_string()
    } else if p < e.first_boundary {
        "pre".to_string()
    } else if e.spans.is_empty() || p < e.spans[0].hdr_start {
        format!("f{}", delim(p - e.first_boundary + 2))
    } else {
        let mut r = String::new();
        for (i, s) in e.spans.iter().enumerate() {
            let next_hdr = e.spans.get(i + 1).map(|n| n.hdr_start).unwrap_or(usize::MAX);
            if p < s.content_start {
                r = if p + 4 >= s.content_start { format!("hdr-end+{}", p + 4 - s.content_start) } else { "hdr".into() };
                break;
            }
            if p < s.content_end {
                let (a, z) = (p - s.content_start, s.content_end - p);
                r = if a < 4 {
                    format!("c+{a}")
                } else if z <= 4 {
                    format!("c-{z}")
                } else {
                    "c".into()
                };
                break;
            }
            if p < next_hdr {
                if i + 1 == e.spans.len() && p >= e.close_end + 2 {
                    r = "epi".into();
                } else {
                    r = delim(p - s.content_end);
                    if i + 1 == e.spans.len() {
                        r.push_str("/close");
                    }
                }
                break;
            }
        }
        r
    };
    let head = &bytes[..p.min(bytes.len())];
    let tail = if head.ends_with(b"\r\n--") {
        "~crlf--"
    } else if head.ends_with(b"\r\n-") {
        "~crlf-"
    } else if head.ends_with(b"\r\n") {
        "~crlf"
    } else if head.ends_with(b"\r") {
        "~cr"
    } else {
        ""
    };
    format!("{region}{tail}")
}

/// content class of the part that offset `p` belongs to (its content or the delimiter after it)
fn class_at(b: &Base, p: usize) -> &'static str {
    for (i, s) in b.enc.spans.iter().enumerate() {
        let next = b.enc.spans.get(i + 1).map(|n| n.hdr_start).unwrap_or(usize::MAX);
        if p < next {
            return if p >= s.content_start { b.classes[i] } else { "syntax" };
        }
    }
    "syntax"
}

#[derive(Clone, Debug)]
struct Sched {
    /// cut positions inside the fed bytes (sorted, distinct, 0 < c < len)
    cuts: Vec<usize>,
    /// 0: Pending before every item; 1: everything ready at once; 2: pattern from `pat`
    pend_mode: u8,
    pat: u64,
    /// insert `n` empty chunks before chunk index k: (k, n)
    empty_at: Option<(usize, usize)>,
}

impl Sched {
    fn whole() -> Self {
        Sched { cuts: vec![], pend_mode: 0, pat: 0, empty_at: None }
    }
    fn cuts(c: Vec<usize>) -> Self {
        Sched { cuts: c, pend_mode: 0, pat: 0, empty_at: None }
    }
}

/// Build the case "feed the first `t` bytes of the body under schedule `s`".
fn case_of(b: &Base, t: usize, s: &Sched, limit: Option<usize>, modes: Vec<u8>, end_err: bool) -> Case {
    let e = &b.enc;
    let t = t.min(e.bytes.len());
    let body = e.bytes[..t].to_vec();
    let mut sizes = vec![];
    let mut prev = 0;
    for &c in &s.cuts {
        if c > prev && c < t {
            sizes.push(c - prev);
            prev = c;
        }
    }
    if t > prev || sizes.is_empty() {
        sizes.push(t - prev);
    }
    if let Some((k, cnt)) = s.empty_at {
        let k = k.min(sizes.len());
        for _ in 0..cnt {
            sizes.insert(k, 0);
        }
    }
    let pend: Vec<bool> = (0..=sizes.len())
        .map(|i| match s.pend_mode {
            0 => true,
            1 => false,
            _ => (s.pat >> (i % 64)) & 1 == 1,
        })
        .collect();
    let expect = if end_err {
        // a body stream that fails must surface as an error unless the parser had already finished
        if t >= e.close_end {
            Expect::Either
        } else {
            Expect::MustError
        }
    } else if t < e.close_end {
        Expect::MustError
    } else if t == e.close_end + 1 && t < e.bytes.len() + 1 && e.bytes.len() > e.close_end {
        // `--B--` followed by a lone CR: neither a complete CRLF nor nothing
        Expect::Either
    } else if b.parts.is_empty() && t == e.close_end {
        // a zero-part body without its CRLF: outside RFC 2046 anyway
        Expect::Either
    } else {
        Expect::Complete
    };
    let limit_v = limit.unwrap_or(DEFAULT_LIMIT);
    Case {
        ct: b.ct.clone(),
        body,
        sizes,
        pend,
        end_err,
        limit,
        modes,
        alts: vec![Alt { parts: b.parts.clone(), expect }],
        overflow_ok: limit_v < b.required,
        spans: e.spans.clone(),
        close_end: e.close_end,
        gap: b.gap,
        tag: b.tag.clone(),
        end_label: if t >= e.bytes.len() { "complete".into() } else { format!("trunc@{}", label(b, t)) },
    }
}

fn outcome_class(o: &Obs) -> String {
    match &o.end {
        End::Clean => "clean".into(),
        End::Error { kind, in_field } => format!("err:{kind}:{}", if *in_field { "f" } else { "m" }),
        End::Open => if o.hang { "hang".into() } else { "open".into() },
        End::Cap(w) => format!("cap:{w}"),
    }
}

fn limit_tag(l: Option<usize>) -> String {
    match l {
        None => "dflt".into(),
        Some(x) => x.to_string(),
    }
}

/// Evaluate + bookkeeping common to all phases.
fn eval_sched(b: &Base, t: usize, s: &Sched, limit: Option<usize>, modes: Vec<u8>, end_err: bool, kind: &str, rep: &mut Reporter) {
    let c = case_of(b, t, s, limit, modes, end_err);
    let Some(o) = eval(&c, rep) else { return };
    let mut labels: Vec<String> = s.cuts.iter().filter(|c| **c < t).map(|c| label(b, *c)).collect();
    labels.sort();
    labels.dedup();
    for l in labels.iter().take(8) {
        rep.count(&format!("cut:{}", l.split('~').next().unwrap_or("")), 1);
    }
    if labels.len() > 6 {
        labels = vec![format!("{}-cut-classes", labels.len())];
    }
    let cls: Vec<&str> = {
        let mut v: Vec<&str> = s.cuts.iter().filter(|c| **c < t).map(|c| class_at(b, *c)).collect();
        v.push(class_at(b, t.min(b.enc.bytes.len().saturating_sub(1))));
        v.sort_unstable();
        v.dedup();
        v.truncate(4);
        v
    };
    if c.end_label != "complete" {
        rep.count(&format!("trunc:{}", c.end_label.trim_start_matches("trunc@").split('~').next().unwrap_or("")), 1);
    }
    if o.end == (End::Error { kind: "Overflow".into(), in_field: false }) || o.end == (End::Error { kind: "Overflow".into(), in_field: true }) {
        rep.count(if c.overflow_ok { "overflow:expected(limit<largest unit)" } else { "overflow:other" }, 1);
    }
    rep.sig(&format!("{kind}|{}|{}|{}|lim{}|{}", cls.join("+"), labels.join(","), c.end_label, limit_tag(limit), outcome_class(&o)));
}

// ------------------------------------------------------------------------------------------------
// Phase A corpus: short bodies (≤ 160 bytes) for the exhaustive cut / truncation enumeration

fn fd_part(name: &str, content: &[u8], cl: bool, class: &'static str) -> Part {
    let mut headers = vec![("Content-Disposition".to_string(), " ", format!("form-data; name=\"{name}\""))];
    if cl {
        headers.push(("Content-Length".to_string(), " ", content.len().to_string()));
    }
    Part { headers, name: Some(name.to_string()), content_type: None, content: content.to_vec(), class }
}

fn mx_part(content: &[u8], cl: bool, class: &'static str) -> Part {
    let mut headers = vec![("A".to_string(), "", "b".to_string())];
    if cl {
        headers.push(("Content-Length".to_string(), "", content.len().to_string()));
    }
    Part { headers, name: None, content_type: None, content: content.to_vec(), class }
}

fn body(boundary: &str, subtype: &'static str, parts: Vec<Part>) -> Body {
    Body { boundary: boundary.to_string(), subtype, preamble: vec![], parts, final_crlf: true, epilogue: vec![], quote_boundary: false }
}

fn short_corpus() -> Vec<Base> {
    let mut v: Vec<Base> = vec![];
    let mut add = |label: &str, b: Body| {
        for p in &b.parts {
            assert!(mg::content_is_legal(&p.content, &b.boundary), "corpus content illegal: {label}");
        }
        let base = base_of(&b, label);
        assert!(base.enc.bytes.len() <= 160, "corpus body {label} is {} bytes", base.enc.bytes.len());
        v.push(base);
    };
    // single form-data field, every content shape the delimiter scanner has to get right
    let shapes: &[(&str, &[u8], &'static str)] = &[
        ("empty", b"", "empty"),
        ("text", b"hello world", "text"),
        ("cr", b"\r", "ends-cr"),
        ("a-cr", b"abc\r", "ends-cr"),
        ("crlf", b"\r\n", "crlf-only"),
        ("a-crlf", b"abc\r\n", "ends-crlf"),
        ("dashes", b"--", "ends-dashes"),
        ("a-dashes", b"abc--", "ends-dashes"),
        ("crlf-dashes", b"\r\n--", "ends-crlf-dashes"),
        ("a-crlf-dashes", b"abc\r\n--", "ends-crlf-dashes"),
        ("a-crlf-dash", b"abc\r\n-", "ends-crlf-dashes"),
        ("ends-bprefix", b"abc\r\n--bc", "ends-bprefix"),
        ("has-bprefix", b"ab\r\n--bcXz", "has-bprefix"),
        ("delim-minus-one", b"ab\r\n--bcez", "delimiter-minus-one"),
        ("boundary-x", b"q--bcdx\r\nz", "has-boundary-x"),
        ("lf-dashes-b", b"a\n--bcd\r\nz", "lf-dashes-boundary"),
        ("crcrcr", b"\r\r\r", "cr-heavy"),
        ("cr-crlf-dash", b"a\r\r\n-\r\n\r", "cr-heavy"),
        ("crlfcrlf", b"\r\n\r\n", "ends-crlf"),
        ("binary", &[0, 255, 13, 10, 45, 45, 0, 13, 13, 10, 1, 2, 128, 10, 13], "binary"),
        ("starts-crlf-dashes", b"\r\n--b~tail", "starts-crlf-dashes"),
        ("lf-only", b"a\nb\n", "text"),
        // bare CR (not CRLF) before the dash-boundary: content per RFC 2046, not a delimiter
        ("barecr", b"x\r--bcd\r\nq", "cr-dashes-boundary"),
        ("barecr-close", b"x\r--bcd--", "cr-dashes-boundary"),
        ("barecr-part", b"x\r--bcd\n--bcd\r\nContent-Disposition: form-data; name=\"e\"\r\n\r\np", "cr-dashes-boundary"),
    ];
    for (l, c, class) in shapes {
        add(&format!("fd1-{l}"), body("bcd", "form-data", vec![fd_part("f", c, false, class)]));
    }
    // with Content-Length (read_len path)
    for (l, c, class) in &shapes[..12] {
        if matches!(*l, "empty" | "text" | "a-cr" | "crlf" | "a-crlf-dashes" | "ends-bprefix") {
            add(&format!("fd1cl-{l}"), body("bcd", "form-data", vec![fd_part("f", c, true, class)]));
        }
    }
    // several fields
    add("fd2", body("b", "form-data", vec![fd_part("a", b"one", false, "text"), fd_part("b", b"two\r", false, "ends-cr")]));
    add("fd2-empty-first", body("b", "form-data", vec![fd_part("a", b"", false, "empty"), fd_part("b", b"x\r\n--", false, "ends-crlf-dashes")]));
    add("fd2-cl-first", body("b", "form-data", vec![fd_part("a", b"12\r\n", true, "ends-crlf"), fd_part("b", b"", false, "empty")]));
    add("fd2-cl-second", body("b", "form-data", vec![fd_part("a", b"--", false, "ends-dashes"), fd_part("b", b"xyz", true, "text")]));
    let mut b3 = body("b", "form-data", vec![fd_part("a", b"", false, "empty"), fd_part("b", b"\r", false, "ends-cr"), fd_part("c", b"-", false, "text")]);
    b3.final_crlf = false;
    add("fd3", b3);
    add("mx5", body("Zq", "mixed", vec![mx_part(b"1", false, "text"), mx_part(b"", false, "empty"), mx_part(b"\r\n", false, "crlf-only"), mx_part(b"\r\n--Z", false, "ends-bprefix"), mx_part(b"ab", true, "text")]));
    // zero fields
    add("fd0", body("bcd", "form-data", vec![]));
    // preamble / no final CRLF / epilogue
    let mut b = body("bcd", "form-data", vec![fd_part("f", b"v\r", false, "ends-cr")]);
    b.preamble = b"pre\r\n--bcd~x\r\n\r\n".to_vec();
    add("fd1-preamble", b);
    let mut b = body("bcd", "form-data", vec![fd_part("f", b"v--", false, "ends-dashes")]);
    b.final_crlf = false;
    add("fd1-nofinalcrlf", b);
    let mut b = body("bcd", "form-data", vec![fd_part("f", b"v", false, "text")]);
    b.epilogue = b"epilogue\r\n--bcd\r\nnot a part".to_vec();
    add("fd1-epilogue", b);
    let mut b = body("bcd", "form-data", vec![]);
    b.preamble = b"p\r\n".to_vec();
    add("fd0-preamble", b);
    // boundaries: 1 char, dashes, long, 70 chars
    add("mx-b1", body("x", "mixed", vec![mx_part(b"a\r\n--", false, "ends-crlf-dashes"), mx_part(b"\r\n-", false, "ends-crlf-dashes")]));
    add("mx-bdash", body("-", "mixed", vec![mx_part(b"a\r\n--", false, "ends-crlf-dashes"), mx_part(b"--", false, "ends-dashes")]));
    add("mx-bdashdash", body("--", "mixed", vec![mx_part(b"\r\n---", false, "ends-bprefix"), mx_part(b"-", false, "text")]));
    add("mx-baaa", body("aaaa", "mixed", vec![mx_part(b"\r\n--aaa", false, "ends-bprefix"), mx_part(b"\r\n--a\r\n--aa", false, "ends-bprefix")]));
    add("fd1-b30", body("----WebKitFormBoundary7MA4YWxkT", "form-data", vec![fd_part("f", b"\r\n------WebKit", false, "ends-bprefix")]));
    let b70: String = "0123456789".repeat(7);
    add("mx-b70", body(&b70, "mixed", vec![mx_part(b"\r", false, "ends-cr")]));
    let mut b = body("a b", "mixed", vec![mx_part(b"\r\n--a ", false, "ends-bprefix")]);
    b.quote_boundary = true;
    add("mx-bquoted", b);
    // a part with a Content-Type and mixed-case header names
    let p = Part {
        headers: vec![
            ("content-type".into(), " ", "text/plain".into()),
            ("CONTENT-DISPOSITION".into(), "", "form-data; name=\"n\"; filename=\"x.txt\"".into()),
        ],
        name: Some("n".into()),
        content_type: Some("text/plain".into()),
        content: b"\r\n-".to_vec(),
        class: "ends-crlf-dashes",
    };
    add("fd1-ctype", body("bcd", "form-data", vec![p]));
    v
}

// ------------------------------------------------------------------------------------------------
// malformed classes (each returns the bytes, the acceptable alternatives and a label)

struct Malformed {
    base: Base,
    /// bytes actually fed (the base's encoding with the defect applied)
    bytes: Vec<u8>,
    alts: Vec<Alt>,
    label: &'static str,
}

pub const MALFORMED: &[&str] = &[
    "no-content-disposition",
    "content-disposition-not-form-data",
    "content-disposition-no-name",
    "header-line-without-colon",
    "header-name-with-space",
    "headers-never-end",
    "no-boundary-in-body",
    "wrong-boundary-in-body",
    "delimiter-with-trailing-garbage",
    "close-delimiter-missing",
    "nested-multipart",
    "bad-content-length-value",
    "first-boundary-without-crlf",
];

fn replace_first(hay: &[u8], from: &[u8], to: &[u8]) -> Option<Vec<u8>> {
    let i = (0..=hay.len().checked_sub(from.len())?).find(|&i| &hay[i..i + from.len()] == from)?;
    let mut v = hay[..i].to_vec();
    v.extend_from_slice(to);
    v.extend_from_slice(&hay[i + from.len()..]);
    Some(v)
}

/// Build a malformed body out of a well-formed form-data body with ≥ 2 parts; the defect is put
/// into part `m` (or the framing after it).  Ground truth: parts before `m` are intact.
fn malformed(rng: &mut Rng, class: &'static str) -> Option<Malformed> {
    let (boundary, quoted) = mg::gen_boundary(rng);
    let n = rng.range(2, 4);
    let m = rng.below(n);
    let mut b = Body { boundary: boundary.clone(), subtype: "form-data", preamble: vec![], parts: vec![], final_crlf: rng.chance(3, 4), epilogue: vec![], quote_boundary: quoted };
    for _ in 0..n {
        let class = *rng.pick(&["text", "ends-cr", "empty", "ends-crlf-dashes", "binary"]);
        b.parts.push(mg::gen_part(rng, &boundary, &PartOpts { subtype: "form-data", with_cl: false, class, max_len: 40 }));
    }
    let good: Vec<ExpPart> = b.parts.iter().map(exp_part).collect();
    let before = |k: usize| good[..k].to_vec();
    let must = |parts: Vec<ExpPart>| Alt { parts, expect: Expect::MustError };
    let mut alts;
    match class {
        "no-content-disposition" => {
            b.parts[m].headers.retain(|h| !h.0.eq_ignore_ascii_case("content-disposition"));
            if b.parts[m].headers.is_empty() {
                b.parts[m].headers.push(("X-Only".into(), " ", "1".into()));
            }
            alts = vec![must(before(m))];
        }
        "content-disposition-not-form-data" => {
            for h in b.parts[m].headers.iter_mut() {
                if h.0.eq_ignore_ascii_case("content-disposition") {
                    h.2 = h.2.replace("form-data", "attachment");
                }
            }
            alts = vec![must(before(m))];
        }
        "content-disposition-no-name" => {
            for h in b.parts[m].headers.iter_mut() {
                if h.0.eq_ignore_ascii_case("content-disposition") {
                    h.2 = "form-data; filename=\"only.bin\"".into();
                }
            }
            alts = vec![must(before(m))];
        }
        "header-line-without-colon" | "header-name-with-space" | "headers-never-end" | "nested-multipart" | "bad-content-length-value" => {
            alts = vec![must(before(m))];
            match class {
                "nested-multipart" => {
                    b.parts[m].headers.retain(|h| !h.0.eq_ignore_ascii_case("content-type"));
                    b.parts[m].headers.push(("Content-Type".into(), " ", "multipart/mixed; boundary=inner".into()));
                }
                "bad-content-length-value" => b.parts[m].headers.push(("Content-Length".into(), " ", (*rng.pick(&["abc", "-1", "1e3", "18446744073709551616"])).into())),
                _ => {}
            }
        }
        _ => {
            alts = vec![];
        }
    }
    let base = base_of(&b, class);
    let e = &base.enc;
    let mut bytes = e.bytes.clone();
    match class {
        "header-line-without-colon" => {
            let at = e.spans[m].hdr_start;
            bytes.splice(at..at, b"this line has no colon\r\n".iter().copied());
        }
        "header-name-with-space" => {
            let at = e.spans[m].hdr_start;
            bytes.splice(at..at, b"Bad Name: v\r\n".iter().copied());
        }
        "headers-never-end" => {
            // drop the blank line of part m and everything after it; pad with header-looking lines
            bytes.truncate(e.spans[m].content_start - 2);
            for i in 0..rng.range(0, 5) {
                bytes.extend_from_slice(format!("X-{i}: y\r\n").as_bytes());
            }
        }
        "no-boundary-in-body" => {
            bytes = b"just some text\r\nwithout any boundary line\r\n".to_vec();
            alts = vec![must(vec![])];
        }
        "wrong-boundary-in-body" => {
            let other = format!("{boundary}X");
            let mut b2 = b.clone();
            b2.boundary = other;
            bytes = mg::encode(&b2).bytes;
            // `--BX` lines never equal `--B` / `--B--` as whole lines ⇒ no part is ever opened
            alts = vec![must(vec![])];
        }
        "delimiter-with-trailing-garbage" => {
            // the delimiter after part m is followed by junk instead of CRLF / "--"
            let at = e.spans[m].content_end + 4 + base.blen;
            let junk: &[u8] = *rng.pick(&[&b"x"[..], &b"-"[..], &b" "[..], &b"-x"[..], &b"\r"[..], &b"\n"[..], &b"--x"[..]]);
            let junk: &[u8] = if m + 1 == n && junk == b"-" { b"x" } else { junk };
            bytes.splice(at..at, junk.iter().copied());
            // RFC 2046: a line that *starts* with the dash-boundary ends the part; what follows is
            // not a valid delimiter line ⇒ error after the intact part m.  A parser that instead
            // treats the look-alike as content must then deliver all of it up to the next real
            // delimiter; that is only distinguishable for m+1 < n, so require the error form only.
            alts = vec![must(before(m + 1))];
            if junk == b" " {
                // transport padding: receivers may (RFC: must) accept it
                alts.push(Alt { parts: good.clone(), expect: Expect::Either });
            }
        }
        "close-delimiter-missing" => {
            // body ends with an ordinary delimiter line instead of the close delimiter
            bytes.truncate(e.close_end - 2);
            bytes.extend_from_slice(b"\r\n");
            alts = vec![must(good.clone())];
        }
        "first-boundary-without-crlf" => {
            // `--B` immediately followed by the headers (no line break)
            bytes = replace_first(&bytes, format!("--{boundary}\r\n").as_bytes(), format!("--{boundary}").as_bytes())?;
            alts = vec![must(vec![])];
            // a later delimiter line is still a line `--B`: a parser that skips the "preamble" up
            // to it legitimately delivers parts 1.. — accept that reading too
            alts.push(Alt { parts: good[1..].to_vec(), expect: Expect::Either });
        }
        _ => {}
    }
    if alts.is_empty() {
        return None;
    }
    Some(Malformed { base, bytes, alts, label: class })
}

fn malformed_case(mf: &Malformed, cuts: &[usize], pend_mode: u8, limit: Option<usize>) -> Case {
    let mut sizes = vec![];
    let mut prev = 0;
    for &c in cuts {
        if c > prev && c < mf.bytes.len() {
            sizes.push(c - prev);
            prev = c;
        }
    }
    sizes.push(mf.bytes.len() - prev);
    let pend = (0..=sizes.len()).map(|_| pend_mode == 0).collect();
    Case {
        ct: mf.base.ct.clone(),
        body: mf.bytes.clone(),
        sizes,
        pend,
        end_err: false,
        limit,
        modes: vec![],
        alts: mf.alts.clone(),
        overflow_ok: limit.unwrap_or(DEFAULT_LIMIT) < mf.base.required + 32,
        spans: vec![],
        close_end: 0,
        gap: mf.bytes.len(),
        tag: format!("malformed:{}", mf.label),
        end_label: "complete".into(),
    }
}

// ------------------------------------------------------------------------------------------------
// random bodies

fn random_body(rng: &mut Rng, big: bool, tiny_headers: bool, max_blen: usize) -> Body {
    let (mut boundary, quoted) = mg::gen_boundary(rng);
    if boundary.len() > max_blen {
        boundary.truncate(max_blen);
        if boundary.ends_with(' ') {
            boundary.pop();
            boundary.push('y');
        }
    }
    let subtype: &'static str = if tiny_headers { "mixed" } else { *rng.pick(&["form-data", "form-data", "form-data", "mixed", "related"]) };
    let n = match rng.below(12) {
        0 => 0,
        1..=5 => 1,
        6..=8 => 2,
        9 => 3,
        10 => 4,
        _ => 5,
    };
    let mut parts = vec![];
    for _ in 0..n {
        let class = *rng.pick(mg::CONTENT_CLASSES);
        let max_len = if big {
            *rng.pick(&[200usize, 5_000, 70_000, 150_000])
        } else {
            *rng.pick(&[0usize, 8, 40, 300])
        };
        let with_cl = rng.chance(1, 4);
        if tiny_headers {
            let c = mg::gen_content(rng, class, &boundary, max_len);
            parts.push(mx_part(&c, with_cl, class));
        } else {
            parts.push(mg::gen_part(rng, &boundary, &PartOpts { subtype, with_cl, class, max_len }));
        }
    }
    let preamble = if rng.chance(1, 4) {
        let p = mg::gen_preamble(rng, &boundary);
        if mg::preamble_is_legal(&p, &boundary) {
            p
        } else {
            vec![]
        }
    } else {
        vec![]
    };
    let final_crlf = rng.chance(3, 4);
    let epilogue = if final_crlf && rng.chance(1, 5) { b"epilogue text\r\n--not-a-boundary\r\n".to_vec() } else { vec![] };
    Body { boundary, subtype, preamble, parts, final_crlf, epilogue, quote_boundary: quoted }
}

/// Positions just around every delimiter / header terminator: where the scanner's lookahead lives.
fn hot_positions(b: &Base) -> Vec<usize> {
    let mut v = vec![];
    let e = &b.enc;
    for s in &e.spans {
        for d in 0..(6 + b.blen + 4) {
            v.push(s.content_end + d);
        }
        for d in 0..5 {
            v.push(s.content_start.saturating_sub(d));
            v.push(s.content_end.saturating_sub(d));
        }
    }
    for d in 0..(b.blen + 6) {
        v.push(e.first_boundary + d);
    }
    // every CR inside a content
    for s in &e.spans {
        let mut n = 0;
        for p in s.content_start..s.content_end {
            if e.bytes[p] == b'\r' {
                for d in 0..5 {
                    v.push(p + d);
                }
                n += 1;
                if n > 64 {
                    break;
                }
            }
        }
    }
    v.retain(|p| *p > 0 && *p < e.bytes.len());
    v.sort_unstable();
    v.dedup();
    v
}

fn random_sched(rng: &mut Rng, b: &Base, t: usize, hot: &[usize]) -> (Sched, &'static str) {
    let style = rng.below(8);
    let (cuts, name): (Vec<usize>, &'static str) = match style {
        0 if t <= 6000 => ((1..t).collect(), "1-byte"),
        0 | 1 => (rng.cuts(t, 8), "random"),
        2 | 3 => {
            // cuts aimed at the lookahead windows
            let mut c = vec![];
            if !hot.is_empty() {
                for _ in 0..rng.range(1, 6) {
                    c.push(*rng.pick(hot));
                }
            }
            c.extend(rng.cuts(t, 2));
            c.sort_unstable();
            c.dedup();
            (c, "aimed")
        }
        4 => {
            // fixed chunk size
            let sz = *rng.pick(&[2usize, 3, 5, 7, 16, 17, 255, 1024, 4096, 16_384, 65_536, 65_537, 100_000]);
            ((1..=t / sz).map(|i| i * sz).filter(|c| *c < t).collect(), "fixed-size")
        }
        5 => {
            // a 1-byte run around one hot position, whole otherwise
            let mut c = vec![];
            if !hot.is_empty() {
                let h = *rng.pick(hot);
                for p in h.saturating_sub(6)..(h + b.blen + 8) {
                    c.push(p);
                }
            }
            (c, "1-byte-window")
        }
        6 => (vec![], "whole"),
        _ => {
            let mut c = rng.cuts(t, 40);
            c.extend(rng.cuts(t, 3));
            c.sort_unstable();
            c.dedup();
            (c, "many")
        }
    };
    let cuts: Vec<usize> = cuts.into_iter().filter(|c| *c > 0 && *c < t).collect();
    let pend_mode = rng.below(3) as u8;
    let n = cuts.len() + 1;
    let s = Sched { cuts, pend_mode, pat: rng.next(), empty_at: if rng.chance(1, 8) { Some((rng.below(n + 1), *rng.pick(&[1usize, 1, 2, 16, 17, 40]))) } else { None } };
    (s, name)
}

fn random_modes(rng: &mut Rng, n: usize) -> Vec<u8> {
    match rng.below(6) {
        0 => (0..n).map(|_| rng.below(3) as u8).collect(),
        1 => vec![1; n],
        _ => vec![],
    }
}

// ------------------------------------------------------------------------------------------------

pub fn run(ctx: &Ctx, rep: &mut Reporter) {
    if let Some(r) = &ctx.replay {
        let c = case_from(r);
        eval(&c, rep);
        rep.sig("replay");
        return;
    }
    let miri = ctx.is_miri();

    // ---- Phase A: exhaustive over the short corpus
    let corpus = match guard(short_corpus) {
        Ok(c) => c,
        Err(p) => {
            rep.inconclusive(&format!("short corpus self-check failed: {p}"));
            return;
        }
    };
    rep.max("short_corpus_bodies", corpus.len() as u64);
    rep.max("short_corpus_longest", corpus.iter().map(|b| b.enc.bytes.len()).max().unwrap_or(0) as u64);
    let mut idx = 0u64;
    let mut complete = true;
    let limits: &[Option<usize>] = &[None, Some(256), Some(16)];
    'a: for (bi, b) in corpus.iter().enumerate() {
        if miri && bi % 7 != 0 {
            continue;
        }
        let n = b.enc.bytes.len();
        for &limit in limits {
            let tight = limit.unwrap_or(DEFAULT_LIMIT) < b.required;
            // complete body: whole, all-1-byte (three pend modes), every single cut, every cut pair
            idx += 1;
            if ctx.mine(idx) {
                eval_sched(b, n, &Sched::whole(), limit, vec![], false, "whole", rep);
                for pm in 0..3u8 {
                    let s = Sched { cuts: (1..n).collect(), pend_mode: pm, pat: 0x5a5a_5a5a_a5a5_a5a5, empty_at: None };
                    eval_sched(b, n, &s, limit, vec![], false, "1-byte", rep);
                }
                eval_sched(b, n, &Sched::whole(), limit, vec![1; b.parts.len()], false, "whole-skip", rep);
                let s = Sched { cuts: (1..n).collect(), pend_mode: 0, pat: 0, empty_at: None };
                eval_sched(b, n, &s, limit, vec![1; b.parts.len()], false, "1-byte-skip", rep);
                eval_sched(b, n, &s, limit, vec![2; b.parts.len()], false, "1-byte-drop", rep);
            }
            // an empty chunk (and a run of 17 ready empty chunks) at every position of the
            // all-1-byte schedule and of the whole-body schedule
            for k in 0..=n {
                idx += 1;
                if !ctx.mine(idx) || miri {
                    continue;
                }
                for (pm, cnt) in [(0u8, 1usize), (1, 17)] {
                    let s = Sched { cuts: (1..n).collect(), pend_mode: pm, pat: 0, empty_at: Some((k, cnt)) };
                    eval_sched(b, n, &s, limit, vec![], false, "1-byte+empty", rep);
                }
                if k < 2 {
                    let s = Sched { cuts: vec![], pend_mode: 0, pat: 0, empty_at: Some((k, 1)) };
                    eval_sched(b, n, &s, limit, vec![], false, "whole+empty", rep);
                }
            }
            for a in 1..n {
                idx += 1;
                if ctx.mine(idx) {
                    for pm in 0..2u8 {
                        let s = Sched { cuts: vec![a], pend_mode: pm, pat: 0, empty_at: None };
                        eval_sched(b, n, &s, limit, vec![], false, "cut1", rep);
                    }
                }
                if miri || (tight && !ctx.thorough()) {
                    continue;
                }
                for c2 in a + 1..n {
                    idx += 1;
                    if !ctx.mine(idx) {
                        continue;
                    }
                    if ctx.out_of_time() {
                        complete = false;
                        break 'a;
                    }
                    eval_sched(b, n, &Sched::cuts(vec![a, c2]), limit, vec![], false, "cut2", rep);
                }
            }
            // every truncation point × {whole, all-1-byte, every single cut (quick: the last 12
            // positions)} × {EOF after Pending, EOF at once}
            for t in 0..n {
                idx += 1;
                if !ctx.mine(idx) {
                    continue;
                }
                if ctx.out_of_time() {
                    complete = false;
                    break 'a;
                }
                for pm in 0..2u8 {
                    let s = Sched { cuts: vec![], pend_mode: pm, pat: 0, empty_at: None };
                    eval_sched(b, t, &s, limit, vec![], false, "trunc-whole", rep);
                    let s = Sched { cuts: (1..t).collect(), pend_mode: pm, pat: 0, empty_at: None };
                    eval_sched(b, t, &s, limit, vec![], false, "trunc-1-byte", rep);
                }
                if miri {
                    continue;
                }
                let lo = if ctx.thorough() { 1 } else { t.saturating_sub(12).max(1) };
                for a in lo..t {
                    eval_sched(b, t, &Sched::cuts(vec![a]), limit, vec![], false, "trunc-cut1", rep);
                }
                // the body stream failing instead of ending, and skipping consumers
                eval_sched(b, t, &Sched::whole(), limit, vec![], true, "trunc-err", rep);
                eval_sched(b, t, &Sched::whole(), limit, vec![1; b.parts.len()], false, "trunc-skip", rep);
            }
        }
    }
    rep.exhaustive("short corpus (<=160 bytes): every single cut, every cut pair, every truncation point (x whole / 1-byte / single cuts) x buffer limits {default,256,16}", complete);
    if let Some(b) = corpus.get(11) {
        rep.sample("short-corpus-body", json!({"tag": b.tag, "content_type": b.ct, "body": esc_short(&b.enc.bytes, 200), "largest_unit": b.required}));
    }

    // ---- Phase B: random bodies × random schedules × random truncations
    let n = if miri { 6 } else { ctx.share(24_000, 1_400_000) };
    for k in 0..n {
        if ctx.out_of_time() {
            break;
        }
        let mut rng = Rng::derive(ctx.seed, 15, k * ctx.nshards + ctx.shard);
        let big = !miri && rng.chance(1, 40);
        let limit = *rng.pick(&[None, None, None, Some(16usize), Some(256), Some(1024), Some(65_536)]);
        let tiny = limit == Some(16) || rng.chance(1, 6);
        let max_blen = if limit == Some(16) { rng.range(1, 10) } else { 70 };
        let body = random_body(&mut rng, big, tiny, max_blen);
        let b = base_of(&body, if big { "rnd-big" } else { "rnd" });
        let total = b.enc.bytes.len();
        let hot = hot_positions(&b);
        rep.count(&format!("bodies:{}-parts", b.parts.len()), 1);
        for c in &b.classes {
            rep.count(&format!("content-class:{c}"), 1);
        }
        rep.max("largest_body", total as u64);
        rep.max("longest_boundary", b.blen as u64);
        let nsched = if big { 2 } else { 4 };
        for j in 0..nsched {
            let (s, name) = random_sched(&mut rng, &b, total, &hot);
            let modes = random_modes(&mut rng, b.parts.len());
            rep.count(&format!("schedule:{name}"), 1);
            let kind = if modes.is_empty() { name.to_string() } else { format!("{name}+modes") };
            eval_sched(&b, total, &s, limit, modes, false, &kind, rep);
            if k == 0 && j == 0 {
                rep.sample("random-body", json!({"tag": b.tag, "content_type": b.ct, "body": esc_short(&b.enc.bytes, 400), "cuts": s.cuts.iter().take(20).collect::<Vec<_>>(), "schedule": name, "limit": limit}));
            }
        }
        // truncations: aimed at the hot positions and uniformly random
        let ntr = if big { 2 } else { 5 };
        for _ in 0..ntr {
            let t = if !hot.is_empty() && rng.chance(2, 3) { *rng.pick(&hot) } else { rng.below(total + 1) };
            let (mut s, name) = random_sched(&mut rng, &b, t, &hot);
            if rng.chance(1, 2) && t > 1 {
                // make sure a cut lies shortly before the end
                s.cuts.push(t - 1 - rng.below(t.min(6) - 1).min(t - 2));
                s.cuts.sort_unstable();
                s.cuts.dedup();
                s.cuts.retain(|c| *c > 0 && *c < t);
            }
            let end_err = rng.chance(1, 8);
            let modes = if rng.chance(1, 6) { random_modes(&mut rng, b.parts.len()) } else { vec![] };
            eval_sched(&b, t, &s, limit, modes, end_err, &format!("trunc-{name}"), rep);
        }
    }

    // ---- Phase C: malformed classes × cuts
    let n = if miri { 3 } else { ctx.share(8_000, 300_000) };
    for k in 0..n {
        if ctx.out_of_time() {
            break;
        }
        let mut rng = Rng::derive(ctx.seed, 16, k * ctx.nshards + ctx.shard);
        let class = MALFORMED[(k as usize * ctx.nshards as usize + ctx.shard as usize) % MALFORMED.len()];
        let Some(mf) = malformed(&mut rng, class) else { continue };
        rep.count(&format!("malformed:{class}"), 1);
        let len = mf.bytes.len();
        for j in 0..4 {
            let cuts: Vec<usize> = match j {
                0 => vec![],
                1 => (1..len).collect(),
                _ => rng.cuts(len, 6),
            };
            let limit = if j == 3 { Some(*rng.pick(&[256usize, 1024])) } else { None };
            let c = malformed_case(&mf, &cuts, (j % 2) as u8, limit);
            if let Some(o) = eval(&c, rep) {
                rep.sig(&format!("malformed|{class}|{}|{}|lim{}", j.min(2), outcome_class(&o), limit_tag(limit)));
            }
        }
    }

    // ---- Phase D: bounded buffering under hostile oversize units and large bodies with tiny reads
    let n = if miri { 0 } else { ctx.share(600, 12_000) };
    for k in 0..n {
        if ctx.out_of_time() {
            break;
        }
        let mut rng = Rng::derive(ctx.seed, 17, k * ctx.nshards + ctx.shard);
        hostile(&mut rng, rep);
    }
}

/// A syntactic unit that can never complete inside the configured buffer: the parser must give up
/// with an error after buffering at most limit + one chunk, not hang and not keep pulling.
fn hostile(rng: &mut Rng, rep: &mut Reporter) {
    let limit = *rng.pick(&[None, Some(16usize), Some(256), Some(4096), Some(65_536)]);
    let l = limit.unwrap_or(DEFAULT_LIMIT);
    let boundary = if l <= 16 { "Zq".to_string() } else { mg::gen_boundary(rng).0.chars().filter(|c| *c != ' ').take(20).collect::<String>() + "k" };
    let kind = *rng.pick(&["preamble-line-without-lf", "header-block-without-end", "header-line-endless", "delimiter-line-without-lf", "post-content-line-endless"]);
    let over = l + rng.range(1, 3) * l + rng.below(500) + 64;
    let mut bytes: Vec<u8> = vec![];
    let ok_part = mx_part(b"data", false, "text");
    let mut parts: Vec<ExpPart> = vec![];
    match kind {
        "preamble-line-without-lf" => {
            bytes.extend((0..over).map(|_| *rng.pick(b"abc \r-")));
        }
        "header-block-without-end" => {
            bytes.extend_from_slice(format!("--{boundary}\r\n").as_bytes());
            while bytes.len() < over {
                bytes.extend_from_slice(b"X-H: v\r\n");
            }
        }
        "header-line-endless" => {
            bytes.extend_from_slice(format!("--{boundary}\r\nX-H: ").as_bytes());
            bytes.extend((0..over).map(|_| b'v'));
        }
        "delimiter-line-without-lf" => {
            let b = Body { boundary: boundary.clone(), subtype: "mixed", preamble: vec![], parts: vec![ok_part.clone()], final_crlf: false, epilogue: vec![], quote_boundary: false };
            let e = mg::encode(&b);
            bytes.extend_from_slice(&e.bytes[..e.close_end - 2]);
            bytes.extend((0..over).map(|_| b'-'));
            parts.push(exp_part(&ok_part));
        }
        _ => {
            // Content-Length part followed by an endless "line"
            let p = mx_part(b"data", true, "text");
            let b = Body { boundary: boundary.clone(), subtype: "mixed", preamble: vec![], parts: vec![p.clone()], final_crlf: false, epilogue: vec![], quote_boundary: false };
            let e = mg::encode(&b);
            bytes.extend_from_slice(&e.bytes[..e.spans[0].content_end]);
            bytes.extend((0..over).map(|_| b'z'));
            parts.push(exp_part(&p));
        }
    }
    // then a perfectly good tail, so that "keeps reading" would eventually succeed
    bytes.extend_from_slice(format!("\r\n--{boundary}\r\nA:b\r\n\r\ntail\r\n--{boundary}--\r\n").as_bytes());
    let chunk = *rng.pick(&[1usize, 7, 64, 1000, 4096, 30_000]);
    let chunk = if bytes.len() / chunk > 40_000 { 64 } else { chunk };
    let mut sizes = vec![];
    let mut left = bytes.len();
    while left > 0 {
        let n = chunk.min(left);
        sizes.push(n);
        left -= n;
    }
    let pend_mode = rng.below(2) as u8;
    let pend = (0..=sizes.len()).map(|_| pend_mode == 0).collect();
    let c = Case {
        ct: format!("multipart/mixed; boundary={boundary}"),
        body: bytes,
        sizes,
        pend,
        end_err: false,
        limit,
        modes: vec![],
        // the only acceptable outcome is an error; the fields seen before it are the intact ones
        alts: vec![Alt { parts, expect: Expect::MustError }],
        overflow_ok: true,
        spans: vec![],
        close_end: 0,
        // nothing is ever delivered from the oversize unit: it may occupy the buffer, and the intact
        // syntax before it (at most one tiny part) has been consumed
        gap: 64 + 2 * boundary.len(),
        tag: format!("hostile:{kind}"),
        end_label: "complete".into(),
    };
    if let Some(o) = eval(&c, rep) {
        rep.count(&format!("hostile:{kind}"), 1);
        rep.max("hostile_pulled_over_limit", o.pulled.saturating_sub(l) as u64);
        rep.sig(&format!("hostile|{kind}|lim{}|chunk{chunk}|pm{pend_mode}|{}", limit_tag(limit), outcome_class(&o)));
    }
}
