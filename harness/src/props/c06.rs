//! C06 — HTTP/1 connections are time-bounded: slow head, keep-alive, shutdown, drain.
//!
//! Everything runs on the paused tokio clock: a timeline of events on a 50 ms grid is applied with
//! `Advance` steps in between, so every observation carries an exact virtual time stamp and the
//! verdict does not depend on machine load.  The server computes deadlines from a clock cached
//! every 500 ms, so a deadline D is accepted anywhere in [D − 500 ms, D + 2 steps]; events falling
//! inside that window may go either way.

use serde_json::{json, Value};

use crate::{
    refmodel::h1_resp::{self, RefResp},
    report::{guard, panic_site, Ctx, Reporter},
    util::Rng,
    world::{
        conn::ConnCfg,
        run::{acts_from_json, acts_to_json, run_scenario, Act, Outcome, Scenario},
        svc::{fill_data, BStep, BodyKind, Prog},
    },
};

const STEP: u64 = 50;
const CACHE_LAG: u64 = 500;
const SLACK: u64 = 2 * STEP;

#[derive(Clone, Debug)]
pub struct Case {
    pub kind: &'static str,
    pub cfg: ConnCfg,
    pub progs: Vec<Prog>,
    /// (time ms, action) — sorted by time; expanded into Advance steps
    pub events: Vec<(u64, Act)>,
    pub horizon_ms: u64,
    /// kind-specific parameters for the oracle
    pub params: Value,
}

impl Case {
    fn scenario(&self) -> Scenario {
        let mut sc = Scenario::new(self.cfg.clone(), self.progs.clone(), 8);
        let mut now = 0u64;
        let mut ev = self.events.clone();
        ev.sort_by_key(|e| e.0);
        for (t, a) in ev {
            while now < t {
                let d = (t - now).min(STEP);
                sc.acts.push(Act::Advance(d));
                now += d;
            }
            sc.acts.push(a);
        }
        while now < self.horizon_ms {
            sc.acts.push(Act::Advance(STEP));
            now += STEP;
        }
        sc
    }
    fn to_json(&self) -> Value {
        json!({"kind": self.kind, "cfg": self.cfg.to_json(), "progs": self.progs.iter().map(|p| p.to_json()).collect::<Vec<_>>(),
            "events": self.events.iter().map(|(t, a)| json!([t, a.to_json()])).collect::<Vec<_>>(), "horizon_ms": self.horizon_ms, "params": self.params})
    }
    fn from_json(v: &Value) -> Case {
        let kind = match v["kind"].as_str() {
            Some("keep-alive") => "keep-alive",
            Some("disconnect") => "disconnect",
            Some("graceful") => "graceful",
            _ => "slow-head",
        };
        Case {
            kind,
            cfg: ConnCfg::from_json(&v["cfg"]),
            progs: v["progs"].as_array().map(|a| a.iter().map(Prog::from_json).collect()).unwrap_or_default(),
            events: v["events"].as_array().map(|a| a.iter().filter_map(|e| Some((e[0].as_u64()?, acts_from_json(&json!([e[1].clone()])).into_iter().next()?))).collect()).unwrap_or_default(),
            horizon_ms: v["horizon_ms"].as_u64().unwrap_or(1000),
            params: v["params"].clone(),
        }
    }
}

struct Verdict {
    class: &'static str,
    sig: String,
    detail: String,
}

struct Seen {
    resps: Vec<RefResp>,
    /// virtual time at which the first byte of each parsed response was accepted by the socket
    resp_t: Vec<u64>,
    /// first time the connection task had finished or the socket had been shut down / dropped
    closed_t: Option<u64>,
    /// first time the server called shutdown on the socket
    shutdown_start_t: Option<u64>,
    done_t: Option<u64>,
}

fn observe(oc: &Outcome) -> Seen {
    let rp = h1_resp::parse_responses(&oc.out, &|_| Some("GET".into()), true);
    let resp_t = rp.resps.iter().map(|r| oc.write_times.iter().find(|(len, _)| *len > r.start).map(|x| x.1).unwrap_or(u64::MAX)).collect();
    Seen {
        resp_t,
        resps: rp.resps,
        closed_t: oc.snaps.iter().find(|s| s.done || s.closed).map(|s| s.t_ms),
        shutdown_start_t: oc.snaps.iter().find(|s| s.shutdown_calls > 0 || s.done).map(|s| s.t_ms),
        done_t: oc.snaps.iter().find(|s| s.done).map(|s| s.t_ms),
    }
}

fn in_window(t: u64, deadline: u64) -> bool {
    t + CACHE_LAG >= deadline && t <= deadline + SLACK
}

fn cfg_sig(c: &ConnCfg) -> String {
    format!("req={} ka={:?} disc={}{}", c.req_timeout_ms, c.keep_alive_s, c.disc_timeout_ms, if c.accept_delay_ms > 0 { " stale-clock" } else { "" })
}

fn judge(case: &Case, oc: &Outcome) -> Vec<Verdict> {
    let mut v = vec![];
    let s = observe(oc);
    let p = &case.params;
    if oc.livelock {
        v.push(Verdict { class: "livelock", sig: case.kind.into(), detail: "poll cap hit".into() });
        return v;
    }
    match case.kind {
        "slow-head" => {
            let t = case.cfg.req_timeout_ms;
            let head_done = p["head_complete_ms"].as_u64().unwrap_or(u64::MAX);
            let never = p["head_never_completes"].as_bool().unwrap_or(false);
            let got408 = s.resps.iter().position(|r| r.status == 408);
            let served = !oc.reqs.is_empty();
            if t == 0 {
                if got408.is_some() {
                    v.push(Verdict { class: "408-with-timeout-disabled", sig: cfg_sig(&case.cfg), detail: "client request timeout is disabled but a 408 was sent".into() });
                }
                if !never && !served {
                    v.push(Verdict { class: "slow-request-not-served", sig: "timeout-disabled".into(), detail: format!("head complete at {head_done} ms with the request timeout disabled, but no handler ran") });
                }
                return v;
            }
            let must_serve = !never && head_done + CACHE_LAG + SLACK <= t;
            let must_timeout = never || head_done >= t + SLACK;
            if must_serve {
                if got408.is_some() || !served {
                    v.push(Verdict {
                        class: "timely-head-not-served",
                        sig: cfg_sig(&case.cfg),
                        detail: format!("head complete at {head_done} ms, request timeout {t} ms: expected the request to be served; 408 sent: {}, handler ran: {served}", got408.is_some()),
                    });
                }
            } else if must_timeout {
                match got408 {
                    None => v.push(Verdict {
                        class: "slow-head-no-408",
                        sig: cfg_sig(&case.cfg),
                        detail: format!("head {} (timeout {t} ms) but no 408 was written within the horizon {} ms; handler ran: {served}; responses {:?}", if never { "never completes".to_string() } else { format!("complete only at {head_done} ms") }, case.horizon_ms, s.resps.iter().map(|r| r.status).collect::<Vec<_>>()),
                    }),
                    Some(k) => {
                        if !in_window(s.resp_t[k], t) {
                            v.push(Verdict { class: "408-outside-window", sig: cfg_sig(&case.cfg), detail: format!("408 written at {} ms, deadline {t} ms (accepted {}..={})", s.resp_t[k], t.saturating_sub(CACHE_LAG), t + SLACK) });
                        }
                        if served {
                            v.push(Verdict { class: "served-after-408", sig: cfg_sig(&case.cfg), detail: "a handler ran on a connection that was answered 408".into() });
                        }
                        // closed: at once when no disconnect timeout is configured or the peer lets
                        // the shutdown complete; otherwise within the disconnect timeout
                        let bound = t + SLACK + if p["shutdown_blocked"].as_bool().unwrap_or(false) { case.cfg.disc_timeout_ms + SLACK } else { 0 };
                        let blocked_forever = p["shutdown_blocked"].as_bool().unwrap_or(false) && case.cfg.disc_timeout_ms == 0;
                        if !blocked_forever {
                            match s.done_t {
                                Some(d) if d <= bound => {}
                                other => v.push(Verdict { class: "not-closed-after-408", sig: cfg_sig(&case.cfg), detail: format!("connection finished at {other:?}, expected by {bound} ms after the 408 at {} ms", s.resp_t[k]) }),
                            }
                        }
                    }
                }
            }
        }
        "keep-alive" => {
            let Some(k) = case.cfg.keep_alive_s.map(|x| x * 1000) else {
                // keep-alive disabled: the connection ends right after the first response
                match s.done_t {
                    Some(d) if d <= p["first_response_by_ms"].as_u64().unwrap_or(0) + SLACK => {}
                    other => v.push(Verdict { class: "keep-alive-disabled-not-closed", sig: cfg_sig(&case.cfg), detail: format!("keep-alive disabled but the connection finished at {other:?}") }),
                }
                return v;
            };
            // idle starts when the last response before the gap was written
            let n_before = p["requests_before_gap"].as_u64().unwrap_or(1) as usize;
            let finals: Vec<usize> = (0..s.resps.len()).filter(|&i| !s.resps[i].is_interim()).collect();
            if finals.len() < n_before {
                v.push(Verdict { class: "request-before-idle-not-served", sig: cfg_sig(&case.cfg), detail: format!("{} of {n_before} requests sent before the idle period were answered", finals.len()) });
                return v;
            }
            let idle_from = p["idle_from_ms"].as_u64().unwrap_or(0);
            let deadline = idle_from + k;
            let next_at = p["next_request_ms"].as_u64();
            match next_at {
                Some(a) if a + CACHE_LAG + SLACK <= deadline => {
                    if oc.reqs.len() <= n_before || finals.len() <= n_before {
                        v.push(Verdict {
                            class: "timely-request-not-served",
                            sig: cfg_sig(&case.cfg),
                            detail: format!("request arriving at {a} ms on a connection idle since {idle_from} ms with keep-alive {k} ms was not served (closed at {:?})", s.closed_t),
                        });
                    }
                }
                Some(a) if a < deadline + SLACK => {} // inside the window: either outcome
                _ => {
                    // nothing arrives before the deadline: the connection must close in the window
                    let closing_t = s.shutdown_start_t;
                    match closing_t {
                        Some(t) if in_window(t, deadline) => {}
                        Some(t) if t + CACHE_LAG < deadline => v.push(Verdict {
                            class: "closed-before-keep-alive-elapsed",
                            sig: cfg_sig(&case.cfg),
                            detail: format!("idle since {idle_from} ms, keep-alive {k} ms, but the server started closing at {t} ms"),
                        }),
                        other => v.push(Verdict {
                            class: "idle-connection-not-closed",
                            sig: cfg_sig(&case.cfg),
                            detail: format!("idle since {idle_from} ms, keep-alive {k} ms: expected closing in {}..={} ms, observed {other:?}", deadline - CACHE_LAG, deadline + SLACK),
                        }),
                    }
                    if next_at.is_some() && oc.reqs.len() > n_before {
                        v.push(Verdict { class: "served-after-keep-alive-expiry", sig: cfg_sig(&case.cfg), detail: format!("request arriving at {:?} ms, after the keep-alive deadline {deadline} ms, was served", next_at) });
                    }
                }
            }
        }
        "disconnect" => {
            // a shutdown that the peer never completes must be cut off by the disconnect timeout
            let d = case.cfg.disc_timeout_ms;
            let Some(start) = s.shutdown_start_t else {
                v.push(Verdict { class: "shutdown-never-started", sig: cfg_sig(&case.cfg), detail: format!("expected the server to start shutting down (trigger: {})", p["trigger"]) });
                return v;
            };
            if d > 0 {
                // the deadline is measured from a cached clock: allow the lag on the early side
                let bound = start + d + SLACK;
                match s.done_t {
                    Some(t) if t <= bound => {}
                    other => v.push(Verdict {
                        class: "shutdown-outlasts-disconnect-timeout",
                        sig: format!("{} trigger={}", cfg_sig(&case.cfg), p["trigger"].as_str().unwrap_or("")),
                        detail: format!("shutdown started at {start} ms, disconnect timeout {d} ms, connection task finished at {other:?} (bound {bound} ms)"),
                    }),
                }
            }
        }
        "graceful" => {
            let sig_t = p["signal_ms"].as_u64().unwrap_or(0);
            // requests whose handler had not started when the signal fired must never start
            let sig_seq = oc.gate_open_seq.get(7).copied().unwrap_or(0);
            for r in &oc.reqs {
                if r.t_ms > sig_t || (sig_seq != 0 && r.seq > sig_seq) {
                    v.push(Verdict {
                        class: "request-started-after-shutdown-signal",
                        sig: p["phase"].as_str().unwrap_or("").to_string(),
                        detail: format!("handler for {} started at {} ms, after the graceful-shutdown signal at {sig_t} ms", r.target, r.t_ms),
                    });
                }
            }
            // the request in flight at the signal is still answered
            let inflight: Vec<usize> = oc.reqs.iter().filter(|r| r.t_ms <= sig_t && (sig_seq == 0 || r.seq < sig_seq)).map(|r| r.idx).collect();
            let finals: Vec<&RefResp> = s.resps.iter().filter(|r| !r.is_interim()).collect();
            for &i in &inflight {
                match finals.iter().find(|r| r.req_idx_header() == Some(i)) {
                    None => v.push(Verdict { class: "in-flight-request-not-answered", sig: p["phase"].as_str().unwrap_or("").to_string(), detail: format!("request #{i} was being handled when the signal fired at {sig_t} ms but no response to it was written") }),
                    Some(r) => {
                        if !r.complete {
                            v.push(Verdict { class: "in-flight-response-cut", sig: p["phase"].as_str().unwrap_or("").to_string(), detail: format!("response to in-flight request #{i} is incomplete") });
                        }
                        // `connection: close` is owed when the head was encoded after the signal
                        let pos = s.resps.iter().position(|x| std::ptr::eq(x, *r)).unwrap();
                        let head_t = s.resp_t[pos];
                        let answered_after_signal = oc.reqs[i].responded_seq != 0 && p["respond_after_signal"].as_array().map(|a| a.iter().any(|x| x.as_u64() == Some(i as u64))).unwrap_or(false);
                        if answered_after_signal && head_t > sig_t && !r.has_close() && r.version == 11 {
                            v.push(Verdict {
                                class: "in-flight-response-without-close",
                                sig: p["phase"].as_str().unwrap_or("").to_string(),
                                detail: format!("response to request #{i} was produced after the shutdown signal ({sig_t} ms) but does not announce connection: close"),
                            });
                        }
                    }
                }
            }
            // and the connection ends (everything is enabled by the end of the timeline)
            if s.done_t.is_none() && s.closed_t.is_none() {
                v.push(Verdict { class: "not-closed-after-shutdown-signal", sig: p["phase"].as_str().unwrap_or("").to_string(), detail: format!("signal at {sig_t} ms, horizon {} ms: connection still open", case.horizon_ms) });
            }
            if p["phase"] == "idle" || p["phase"] == "partial-head" {
                match s.shutdown_start_t {
                    Some(t) if t <= sig_t + SLACK => {}
                    other => v.push(Verdict { class: "idle-connection-not-closed-on-signal", sig: p["phase"].as_str().unwrap_or("").to_string(), detail: format!("idle connection: signal at {sig_t} ms, closing started at {other:?}") }),
                }
            }
        }
        _ => {}
    }
    v
}

fn eval_case(case: &Case, rep: &mut Reporter) {
    rep.eval();
    let sc = case.scenario();
    let oc = match guard(|| run_scenario(&sc)) {
        Ok(o) => o,
        Err(p) => {
            rep.violation("panic", &panic_site(&p), &format!("panic: {p}"), case.to_json());
            return;
        }
    };
    if std::env::var("AVMON_DEBUG").is_ok() {
        crate::world::run::debug_dump(&sc, &oc);
        eprintln!("write_times={:?}", oc.write_times);
    }
    let s = observe(&oc);
    rep.count(&format!("kind:{}", case.kind), 1);
    for r in &s.resps {
        rep.count(&format!("status:{}", r.status), 1);
    }
    if s.done_t.is_some() {
        rep.count("connections_finished", 1);
    }
    rep.count("handler_invocations", oc.reqs.len() as u64);
    for vd in judge(case, &oc) {
        let detail = format!("{} | kind={} cfg={} params={}", vd.detail, case.kind, cfg_sig(&case.cfg), case.params);
        rep.violation(vd.class, &vd.sig, &detail, case.to_json());
    }
}

// ------------------------------------------------------------------------------------ generators

const REQ: &[u8] = b"GET /r0 HTTP/1.1\r\nHost: t\r\nX-Pad: 0123456789\r\n\r\n";

fn req(i: usize) -> Vec<u8> {
    format!("GET /r{i} HTTP/1.1\r\nHost: t\r\n\r\n").into_bytes()
}

fn grid(ms: u64) -> u64 {
    ms / STEP * STEP
}

/// ordering class of an instant relative to a deadline window
fn rel(t: u64, deadline: u64) -> &'static str {
    if t + CACHE_LAG + SLACK <= deadline {
        "before"
    } else if t >= deadline + SLACK {
        "after"
    } else {
        "window"
    }
}

fn slow_head(rng: &mut Rng, fixed: Option<(u64, u64, bool)>) -> Case {
    let (t, head_done, blocked) = fixed.unwrap_or_else(|| {
        let t = *rng.pick(&[0u64, 200, 1000, 3000]);
        let base = if t == 0 { 3000 } else { t };
        (t, grid(rng.range(0, (base + 1500) as usize) as u64), rng.chance(1, 4))
    });
    let never = rng.chance(1, 6) && fixed.is_none();
    let mut cfg = ConnCfg::persistent();
    cfg.req_timeout_ms = t;
    cfg.disc_timeout_ms = *rng.pick(&[0u64, 1000]);
    // the connection is accepted some time after the service (and its cached clock) started: the
    // deadline is then computed from a stale clock and may already lie in the past
    if fixed.is_none() {
        cfg.accept_delay_ms = *rng.pick(&[0u64, 0, 300, 450]);
    }
    // head in 1–4 pieces, the last one at `head_done`
    let pieces = rng.range(1, 4);
    let mut cuts: Vec<usize> = (0..pieces - 1).map(|_| rng.range(1, REQ.len() - 1)).collect();
    cuts.sort_unstable();
    cuts.dedup();
    let segs = crate::util::split_at_cuts(REQ, &cuts);
    let mut events = vec![];
    let nseg = segs.len();
    // arrival times in piece order (non-decreasing), the last piece at `head_done`
    let mut times: Vec<u64> = (0..nseg - 1).map(|_| grid(rng.range(0, head_done as usize + 1) as u64).min(head_done)).collect();
    times.sort_unstable();
    times.push(head_done);
    for (i, sg) in segs.into_iter().enumerate() {
        if never && i + 1 == nseg {
            break;
        }
        // same-time events keep their order (the sort in `scenario` is stable)
        events.push((times[i], Act::Push(sg)));
    }
    if blocked {
        events.push((0, Act::BlockShutdown(true)));
    }
    let horizon = t.max(head_done) + 2500 + cfg.disc_timeout_ms;
    Case {
        kind: "slow-head",
        cfg,
        progs: vec![],
        events,
        horizon_ms: horizon,
        params: json!({"head_complete_ms": head_done, "head_never_completes": never, "shutdown_blocked": blocked}),
    }
}

fn keep_alive(rng: &mut Rng, fixed: Option<(u64, Option<u64>)>) -> Case {
    let mut cfg = ConnCfg::persistent();
    let (k, next) = fixed.unwrap_or_else(|| {
        let k = *rng.pick(&[1u64, 2, 5]);
        let next = if rng.chance(1, 4) { None } else { Some(grid(rng.range((k * 1000).saturating_sub(1200) as usize, (k * 1000 + 700) as usize) as u64)) };
        (k, next)
    });
    cfg.keep_alive_s = if rng.chance(1, 12) && fixed.is_none() { None } else { Some(k) };
    cfg.disc_timeout_ms = *rng.pick(&[0u64, 1000]);
    cfg.req_timeout_ms = *rng.pick(&[0u64, 1000]);
    // request 0 at t0; optionally its handler / body is slow (longer than the keep-alive time):
    // keep-alive only starts counting when the response is complete
    let slow = rng.chance(1, 3);
    let mut progs = vec![Prog::default()];
    let mut events = vec![(0u64, Act::Push(req(0)))];
    let mut idle_from = 0u64;
    let mut n_before = 1usize;
    if slow {
        let g = grid(rng.range(500, (k * 1000 + 1500) as usize) as u64);
        // half of the time a quick request is pipelined in front of the slow one, in one segment:
        // a response has then already been written when the slow one is in progress
        let front = rng.chance(1, 2) && cfg.keep_alive_s.is_some();
        let mut p = Prog::default();
        if rng.chance(1, 2) {
            p.post_gate = Some(0);
        } else {
            p.kind = BodyKind::BodyStream;
            p.steps = vec![BStep::Data(fill_data(5, 1)), BStep::Wait(0), BStep::Data(fill_data(5, 2))];
        }
        if front {
            progs.push(p);
            events[0] = (0, Act::Push([req(0), req(1)].concat()));
            n_before = 2;
        } else {
            progs[0] = p;
        }
        events.push((g, Act::Gate(0, 1)));
        idle_from = g;
    }
    // or: request 0 is a chunked upload whose handler answers at once without reading it; the body
    // arrives later and is drained; the idle period (and the keep-alive time) starts after that
    let drained_upload = !slow && rng.chance(1, 3) && cfg.keep_alive_s.is_some();
    if drained_upload {
        progs[0].read = crate::world::svc::ReadMode::Ignore;
        events.clear();
        events.push((0, Act::Push(b"POST /r0 HTTP/1.1\r\nHost: t\r\nTransfer-Encoding: chunked\r\n\r\n5\r\nhello\r\n".to_vec())));
        let t1 = grid(rng.range(100, 700) as u64);
        let t2 = t1 + grid(rng.range(100, 700) as u64);
        events.push((t1, Act::Push(b"6\r\n world\r\n".to_vec())));
        events.push((t2, Act::Push(b"0\r\n\r\n".to_vec())));
        idle_from = t2;
    }
    // optionally a second request well inside the first keep-alive period: the timer restarts
    if rng.chance(1, 3) && cfg.keep_alive_s.is_some() && k >= 2 {
        let a = idle_from + grid(rng.range(100, 900) as u64);
        events.push((a, Act::Push(req(n_before))));
        idle_from = a;
        n_before += 1;
    }
    let next_abs = next.map(|n| idle_from + n);
    if let Some(a) = next_abs {
        events.push((a, Act::Push(req(n_before))));
    }
    let horizon = idle_from + k * 1000 + 2500 + cfg.disc_timeout_ms;
    let ord = match (cfg.keep_alive_s, next_abs) {
        (None, _) => "disabled",
        (Some(_), None) => "none",
        (Some(kk), Some(a)) => rel(a, idle_from + kk * 1000),
    };
    Case {
        kind: "keep-alive",
        cfg,
        progs,
        events,
        horizon_ms: horizon,
        params: json!({"idle_from_ms": idle_from, "next_request_ms": next_abs, "requests_before_gap": n_before, "first_response_by_ms": idle_from, "slow_response": slow, "drained_upload": drained_upload, "ordering": ord}),
    }
}

fn disconnect(rng: &mut Rng) -> Case {
    let mut cfg = ConnCfg::persistent();
    cfg.disc_timeout_ms = *rng.pick(&[1000u64, 3000]);
    let trigger = *rng.pick(&["keep-alive-expiry", "408", "linger-unread-body", "peer-eof"]);
    let mut events = vec![(0u64, Act::BlockShutdown(true))];
    let mut progs = vec![];
    let mut horizon = 0;
    match trigger {
        "keep-alive-expiry" => {
            cfg.keep_alive_s = Some(1);
            events.push((0, Act::Push(req(0))));
            horizon = 1000;
        }
        "408" => {
            cfg.req_timeout_ms = 1000;
            events.push((0, Act::Push(REQ[..20].to_vec())));
            horizon = 1000;
        }
        "linger-unread-body" => {
            // early response to a request whose Content-Length body never arrives completely; the
            // peer keeps trickling bytes and never closes
            events.push((0, Act::Push(b"POST /r0 HTTP/1.1\r\nHost: t\r\nContent-Length: 100000\r\n\r\nabc".to_vec())));
            progs.push(Prog { read: crate::world::svc::ReadMode::Ignore, ..Default::default() });
            for i in 1..rng.range(2, 30) as u64 {
                events.push((i * 200, Act::Push(vec![b'x'; 10])));
            }
            horizon = 0;
        }
        _ => {
            events.push((0, Act::Push(req(0))));
            events.push((grid(rng.range(0, 800) as u64), Act::Eof));
            horizon = 800;
        }
    }
    horizon += cfg.disc_timeout_ms + 7000;
    Case { kind: "disconnect", cfg, progs, events, horizon_ms: horizon, params: json!({"trigger": trigger}) }
}

fn graceful(rng: &mut Rng, phase_fixed: Option<&'static str>) -> Case {
    let mut cfg = ConnCfg::persistent();
    cfg.shutdown_gate = Some(7);
    cfg.disc_timeout_ms = *rng.pick(&[0u64, 1000]);
    let phase = phase_fixed.unwrap_or_else(|| *rng.pick(&["idle", "partial-head", "handler", "body", "queued", "between-requests", "upload", "upload"]));
    let sig = grid(rng.range(200, 1500) as u64);
    let mut events: Vec<(u64, Act)> = vec![];
    let mut progs = vec![];
    let mut respond_after: Vec<usize> = vec![];
    match phase {
        "idle" => {}
        "partial-head" => {
            events.push((grid(rng.range(0, sig as usize) as u64), Act::Push(REQ[..rng.range(1, REQ.len() - 1)].to_vec())));
        }
        "handler" | "queued" => {
            // request 0 arrives before the signal, its handler answers after it
            // (a third of the time through the service's Err path: an error response is a response)
            progs.push(Prog { post_gate: Some(0), fail: rng.chance(1, 3), ..Default::default() });
            events.push((grid(rng.range(0, (sig - 50) as usize) as u64), Act::Push(req(0))));
            events.push((sig + grid(rng.range(50, 800) as u64), Act::Gate(0, 1)));
            respond_after.push(0);
            if phase == "queued" {
                // more requests pipelined behind it before the signal: decoded and queued
                let t1 = grid(rng.range(0, (sig - 50) as usize) as u64);
                let mut all = req(1);
                all.extend_from_slice(&req(2));
                events.push((t1.max(events[0].0), Act::Push(all)));
            }
        }
        "upload" => {
            // the handler is reading a request body when the signal fires; the rest of the body
            // arrives afterwards and must still reach it: the in-flight request is answered
            progs.push(Prog { fail: rng.chance(1, 4), ..Default::default() });
            let chunked = rng.chance(1, 2);
            let head: &[u8] = if chunked { b"POST /r0 HTTP/1.1\r\nHost: t\r\nTransfer-Encoding: chunked\r\n\r\n5\r\nhello\r\n" } else { b"POST /r0 HTTP/1.1\r\nHost: t\r\nContent-Length: 11\r\n\r\nhello" };
            let rest: &[u8] = if chunked { b"6\r\n world\r\n0\r\n\r\n" } else { b" world" };
            events.push((grid(rng.range(0, (sig - 50) as usize) as u64), Act::Push(head.to_vec())));
            // in one or two pieces after the signal
            let t = sig + grid(rng.range(50, 800) as u64);
            if rng.chance(1, 2) {
                let k = rng.range(1, rest.len() - 1);
                events.push((t, Act::Push(rest[..k].to_vec())));
                events.push((t + grid(rng.range(50, 400) as u64), Act::Push(rest[k..].to_vec())));
            } else {
                events.push((t, Act::Push(rest.to_vec())));
            }
            respond_after.push(0);
        }
        "body" => {
            // head and first chunk written before the signal, the rest after
            progs.push(Prog { kind: BodyKind::BodyStream, steps: vec![BStep::Data(fill_data(5, 1)), BStep::Wait(0), BStep::Data(fill_data(5, 2))], ..Default::default() });
            events.push((grid(rng.range(0, (sig - 50) as usize) as u64), Act::Push(req(0))));
            events.push((sig + grid(rng.range(50, 800) as u64), Act::Gate(0, 1)));
        }
        _ => {
            // one request served completely before the signal; idle in keep-alive when it fires
            events.push((0, Act::Push(req(0))));
        }
    }
    // the signal; sometimes a request becomes readable at the very same instant, so that one poll
    // sees both (signal first: the request must not be started)
    let same_poll = rng.chance(1, 3) && matches!(phase, "idle" | "between-requests");
    if same_poll {
        let idx = if phase == "idle" { 0 } else { 1 };
        events.push((sig, Act::Batch(vec![Act::Gate(7, 1), Act::Push(req(idx))])));
    } else {
        events.push((sig, Act::Gate(7, 1)));
    }
    // a request arriving after the signal must not be started
    if rng.chance(1, 2) && phase != "partial-head" && !same_poll {
        let next = oc_next_idx(phase);
        events.push((sig + grid(rng.range(50, 1500) as u64), Act::Push(req(next))));
    }
    Case { kind: "graceful", cfg, progs, events, horizon_ms: sig + 4000, params: json!({"signal_ms": sig, "phase": phase, "respond_after_signal": respond_after, "same_poll_request": same_poll}) }
}

fn oc_next_idx(phase: &str) -> usize {
    match phase {
        "idle" => 0,
        "queued" => 3,
        _ => 1,
    }
}

pub fn run(ctx: &Ctx, rep: &mut Reporter) {
    if let Some(r) = &ctx.replay {
        eval_case(&Case::from_json(r), rep);
        rep.sig("replay-a");
        rep.sig("replay-b");
        return;
    }
    let mut idx = 0u64;
    // ---- grid sweeps: every 50 ms instant around each deadline
    let mut complete = true;
    for t in [1000u64, 3000] {
        for blocked in [false, true] {
            let mut at = t.saturating_sub(1200);
            while at <= t + 800 {
                idx += 1;
                if ctx.mine(idx) {
                    if ctx.out_of_time() {
                        complete = false;
                        break;
                    }
                    let mut rng = Rng::derive(ctx.seed, 60, idx);
                    let c = slow_head(&mut rng, Some((t, at, blocked)));
                    eval_case(&c, rep);
                    rep.sig(&format!("slow-head|{}|{}|blocked={}|disc={}", cfg_sig(&c.cfg), rel(at, t), blocked, c.cfg.disc_timeout_ms));
                }
                at += STEP;
            }
        }
    }
    for k in [1u64, 2, 5] {
        let mut at = (k * 1000).saturating_sub(1200);
        while at <= k * 1000 + 800 {
            idx += 1;
            if ctx.mine(idx) {
                if ctx.out_of_time() {
                    complete = false;
                    break;
                }
                let mut rng = Rng::derive(ctx.seed, 61, idx);
                let c = keep_alive(&mut rng, Some((k, Some(at))));
                eval_case(&c, rep);
                rep.sig(&format!("keep-alive|{}|{}|slow={}", cfg_sig(&c.cfg), c.params["ordering"].as_str().unwrap_or(""), c.params["slow_response"]));
            }
            at += STEP;
        }
    }
    rep.exhaustive("every 50 ms arrival instant in [deadline-1200 ms, deadline+800 ms] for the head timer (1 s, 3 s) and the keep-alive timer (1, 2, 5 s)", complete);

    // ---- random timelines
    let n = ctx.share(64_000, 1_600_000);
    for k in 0..n {
        if ctx.out_of_time() {
            break;
        }
        let mut rng = Rng::derive(ctx.seed, 6, k * ctx.nshards + ctx.shard);
        let case = match rng.below(10) {
            0..=2 => slow_head(&mut rng, None),
            3..=5 => keep_alive(&mut rng, None),
            6 => disconnect(&mut rng),
            _ => graceful(&mut rng, None),
        };
        eval_case(&case, rep);
        let ord = match case.kind {
            "slow-head" => format!("{}|never={}|blocked={}", rel(case.params["head_complete_ms"].as_u64().unwrap_or(0), case.cfg.req_timeout_ms.max(1)), case.params["head_never_completes"], case.params["shutdown_blocked"]),
            "keep-alive" => format!("{}|slow={}|drained={}|n={}", case.params["ordering"].as_str().unwrap_or(""), case.params["slow_response"], case.params["drained_upload"], case.params["requests_before_gap"]),
            "disconnect" => case.params["trigger"].as_str().unwrap_or("").to_string(),
            _ => format!("{}|same-poll={}|late-request={}", case.params["phase"].as_str().unwrap_or(""), case.params["same_poll_request"], case.events.iter().filter(|e| matches!(e.1, Act::Push(_)) && e.0 > case.params["signal_ms"].as_u64().unwrap_or(0)).count()),
        };
        rep.sig(&format!("{}|{}|{}", case.kind, cfg_sig(&case.cfg), ord));
        if k < 4 {
            rep.sample(case.kind, json!({"cfg": cfg_sig(&case.cfg), "params": case.params, "events": case.events.iter().map(|(t, a)| format!("{t}ms {}", a.tag())).collect::<Vec<_>>(), "horizon_ms": case.horizon_ms}));
        }
    }
    let _ = acts_to_json;
}
