//! C13 — not built yet.
use crate::report::{Ctx, Reporter};

pub fn run(_ctx: &Ctx, rep: &mut Reporter) {
    rep.inconclusive("C13 monitor not built");
}
