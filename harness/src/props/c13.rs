//! C13 — content coding is lossless, correctly labelled and correctly negotiated.
//!
//! Response side.  A real `App` wrapped in `middleware::Compress` serves a handler whose answer is a
//! *program* (status, Content-Type, pre-set Content-Encoding, body kind, data, chunking, Pending
//! points, error point).  The response body is pulled chunk by chunk through `MessageBody::poll_next`
//! (raw, still encoded), then decoded with the codec libraries directly (flate2 / brotli / zstd).
//! For a subset the same app is served through the real HTTP/1 stack (`HttpService`) on a scripted
//! socket and the wire bytes are parsed by `refmodel::h1_resp`.
//!
//! Oracle clauses (violation classes):
//! * `lossless/decode-error`, `lossless/mismatch`, `lossless/trailing-bytes` — decoding the body
//!   with the coding named in `Content-Encoding` gives exactly the handler's bytes;
//! * `label/unknown-coding`, `label/changed` — the label is a coding the middleware supports / the
//!   handler's own label is left alone;
//! * `negotiate/coding-not-permitted`, `negotiate/identity-excluded`, `negotiate/406-*` — the coding
//!   used is permitted by `refmodel::negotiate` (RFC 7231 §5.3.4); a 406 only when neither identity
//!   nor an explicitly listed supported coding is acceptable (406 where only `*` would have allowed
//!   a coding is tolerated and counted);
//! * `passthrough/*` — already-encoded, 101, 204, 206 and empty responses are byte-identical and
//!   carry exactly the handler's label;
//! * `length/declared-size-mismatch`, `length/stale-content-length`, `length/cl-and-chunked`,
//!   `wire/*` — the declared body size / the `content-length` on the wire equals the (encoded)
//!   body length;
//! * `terminates/step-bound`, `terminates/output-unbounded` — the body stream ends within
//!   2·(input chunks)+16 output chunks; `body-error/swallowed` — a failing handler body does not end
//!   as a clean stream;
//! * `terminates/polled-after-end` — the handler body is not polled again after it returned `None`;
//! * `panic`.
//! Request side: compressed bodies (library encoders, several levels) are fed under any chunking to
//! `actix_http::encoding::Decoder` directly and through `web::Bytes` / `web::Payload`+`Decompress`;
//! `request/mismatch`, `request/rejected-valid`, `request/short-success` (truncated input delivered
//! as a clean, shorter body), `request/corrupt-accepted`, `request/source-error-swallowed`.
//!
//! The blocking pool (`spawn_blocking` for chunks ≥ 1 KiB / 2 KiB) makes virtual-time stall
//! detection unsound, so the monitor runs on a real-time single-threaded actix System; a case that
//! does not finish within the wall-clock watchdog is INCONCLUSIVE, never a violation.

use std::{
    cell::{Cell, RefCell},
    future::{poll_fn, Future},
    io::{self, Read, Write},
    panic::AssertUnwindSafe,
    pin::Pin,
    rc::Rc,
    sync::{
        atomic::{AtomicBool, AtomicU64, Ordering::SeqCst},
        Arc,
    },
    task::{Context, Poll},
    time::{Duration, Instant},
};

use actix_http::{
    encoding::Decoder, error::PayloadError, header::HeaderMap, ContentEncoding, HttpService, KeepAlive, Payload,
    Protocol, Request,
};
use actix_service::{map_config, Service, ServiceFactory};
use actix_web::{
    body::{BodySize, MessageBody, SizedStream},
    dev::{AppConfig, ServiceResponse},
    http::{
        header::{self, HeaderValue},
        StatusCode,
    },
    middleware::Compress,
    test, web, App, HttpRequest, HttpResponse,
};
use bytes::Bytes;
use futures_core::Stream;
use futures_util::{FutureExt, StreamExt};
use serde::{Deserialize, Serialize};
use serde_json::{json, Value};

use crate::{
    refmodel::{
        h1_resp::{parse_responses, RespFraming},
        negotiate::{self, Verdict},
    },
    report::{panic_site, Ctx, Reporter},
    util::{esc, esc_short, unesc, Rng},
    world::io::script_io,
};

// ------------------------------------------------------------------------------------------------
// plumbing
// ------------------------------------------------------------------------------------------------

#[cfg(feature = "ffi")]
const CODINGS: &[&str] = &["gzip", "deflate", "br", "zstd"];
#[cfg(not(feature = "ffi"))]
const CODINGS: &[&str] = &["gzip", "deflate", "br"];

#[cfg(feature = "ffi")]
const SUPPORTED: &[&str] = &["identity", "br", "gzip", "deflate", "zstd"];
#[cfg(not(feature = "ffi"))]
const SUPPORTED: &[&str] = &["identity", "br", "gzip", "deflate"];

/// wall-clock watchdog per case (generous: a 1 MiB body takes a few 10 ms)
const WATCHDOG: Duration = Duration::from_secs(90);

struct Fail {
    class: &'static str,
    sig: String,
    detail: String,
}

fn fail(class: &'static str, sig: String, detail: String) -> Fail {
    Fail { class, sig, detail }
}

fn panic_text(p: Box<dyn std::any::Any + Send>) -> String {
    // the hook has stored "msg @ file:line"; resume_unwind does not run the hook again
    match crate::report::guard(move || std::panic::resume_unwind(p)) {
        Err(m) => m,
        Ok(()) => "panic".into(),
    }
}

fn size_class(n: usize) -> String {
    match n {
        0 | 1 | 1023 | 1024 | 1025 | 2047 | 2048 | 2049 | 2050 => n.to_string(),
        2..=1022 => "2-1022".into(),
        1026..=2046 => "1026-2046".into(),
        2051..=65535 => "2051-64K".into(),
        65536 => "64K".into(),
        65537..=1048575 => "64K-1M".into(),
        _ => "1M+".into(),
    }
}

fn real_time_system<T>(f: impl Future<Output = T>) -> T {
    let sys = actix_rt::System::with_tokio_rt(|| {
        tokio::runtime::Builder::new_current_thread().enable_all().build().unwrap()
    });
    sys.block_on(f)
}

// ------------------------------------------------------------------------------------------------
// data, chunk sources
// ------------------------------------------------------------------------------------------------

#[derive(Serialize, Deserialize, Clone, Debug, PartialEq)]
struct DataSpec {
    /// text | random | zeros | mixed
    kind: String,
    len: usize,
    seed: u64,
}

const WORDS: &[&str] = &[
    "the ", "quick ", "brown ", "fox ", "<div class=\"row\">", "</div>\n", "{\"id\":", "\"name\":\"", "\"},", "lorem ", "ipsum ",
    "dolor ", "sit ", "amet, ", "0123456789", "\r\n", "content-encoding ", "aaaaaaaaaaaaaaaa", "\u{e9}\u{e8}", "==",
];

fn make_data(d: &DataSpec) -> Vec<u8> {
    let mut r = Rng::derive(d.seed, 0xda7a, d.len as u64);
    let mut v = Vec::with_capacity(d.len + 64);
    match d.kind.as_str() {
        "random" => {
            while v.len() < d.len {
                v.extend_from_slice(&r.next().to_le_bytes());
            }
        }
        "zeros" => v.resize(d.len, 0),
        "mixed" => {
            while v.len() < d.len {
                let run = r.range(1, 3000);
                if r.chance(1, 2) {
                    for _ in 0..run / 8 + 1 {
                        v.extend_from_slice(&r.next().to_le_bytes());
                    }
                } else {
                    let end = v.len() + run;
                    while v.len() < end {
                        v.extend_from_slice(r.pick(WORDS).as_bytes());
                    }
                }
            }
        }
        _ => {
            while v.len() < d.len {
                v.extend_from_slice(r.pick(WORDS).as_bytes());
            }
        }
    }
    v.truncate(d.len);
    v
}

#[derive(Serialize, Deserialize, Clone, Debug, PartialEq)]
struct ChunkSpec {
    /// chunk i has `pattern[i % len]` bytes; 0 is an empty chunk.  The stream ends when the data is
    /// exhausted (an all-zero pattern is treated as `[1]`).
    pattern: Vec<usize>,
    /// 0: never; k: return `Pending` (self-woken) before every k-th chunk
    pend_every: usize,
    /// fail with an I/O error instead of yielding chunk number k (0-based)
    err_at: Option<usize>,
}

impl ChunkSpec {
    fn one() -> Self {
        ChunkSpec { pattern: vec![usize::MAX / 2], pend_every: 0, err_at: None }
    }
    fn fixed(n: usize) -> Self {
        ChunkSpec { pattern: vec![n], pend_every: 0, err_at: None }
    }
    fn pat(p: &[usize]) -> Self {
        ChunkSpec { pattern: p.to_vec(), pend_every: 0, err_at: None }
    }
    fn n_chunks(&self, len: usize) -> usize {
        // number of chunks the source will emit for `len` bytes (bounded computation)
        let mut pos = 0usize;
        let mut i = 0usize;
        let pat = self.norm();
        while pos < len && i < 10_000_000 {
            pos = pos.saturating_add(pat[i % pat.len()]);
            i += 1;
        }
        if len == 0 && pat[0] == 0 {
            1
        } else {
            i
        }
    }
    fn norm(&self) -> Vec<usize> {
        if self.pattern.iter().all(|&x| x == 0) {
            vec![1]
        } else {
            self.pattern.clone()
        }
    }
}

#[derive(Default, Debug)]
struct SrcLog {
    chunks: usize,
    empties: usize,
    small: usize,
    /// chunks ≥ 1024 bytes (blocking-pool path of the encoder)
    big: usize,
    /// chunks ≥ 2049 bytes (blocking-pool path of the decoder)
    huge: usize,
    pendings: usize,
    ended: bool,
    errored: bool,
    polled_after_end: usize,
    created: usize,
}

type Log = Rc<RefCell<SrcLog>>;

struct ChunkSrc {
    data: Bytes,
    pos: usize,
    idx: usize,
    pat: Vec<usize>,
    pend_every: usize,
    pended: bool,
    err_at: Option<usize>,
    done: bool,
    log: Log,
}

impl ChunkSrc {
    fn new(data: Bytes, spec: &ChunkSpec, log: Log) -> Self {
        log.borrow_mut().created += 1;
        ChunkSrc { data, pos: 0, idx: 0, pat: spec.norm(), pend_every: spec.pend_every, pended: false, err_at: spec.err_at, done: false, log }
    }
}

impl Stream for ChunkSrc {
    type Item = Result<Bytes, io::Error>;
    fn poll_next(self: Pin<&mut Self>, cx: &mut Context<'_>) -> Poll<Option<Self::Item>> {
        let this = self.get_mut();
        let mut log = this.log.borrow_mut();
        if this.done {
            log.polled_after_end += 1;
            return Poll::Ready(None);
        }
        if this.pend_every > 0 && !this.pended && this.idx % this.pend_every == this.pend_every - 1 {
            this.pended = true;
            log.pendings += 1;
            cx.waker().wake_by_ref();
            return Poll::Pending;
        }
        this.pended = false;
        if this.err_at == Some(this.idx) {
            this.done = true;
            log.errored = true;
            return Poll::Ready(Some(Err(io::Error::new(io::ErrorKind::Other, "scripted body failure"))));
        }
        let lead_empty = this.data.is_empty() && this.idx == 0 && this.pat[0] == 0;
        if this.pos >= this.data.len() && !lead_empty {
            this.done = true;
            log.ended = true;
            return Poll::Ready(None);
        }
        let n = this.pat[this.idx % this.pat.len()].min(this.data.len() - this.pos);
        this.idx += 1;
        let chunk = this.data.slice(this.pos..this.pos + n);
        this.pos += n;
        log.chunks += 1;
        match n {
            0 => log.empties += 1,
            1..=1023 => log.small += 1,
            _ => {
                log.big += 1;
                if n >= 2049 {
                    log.huge += 1;
                }
            }
        }
        Poll::Ready(Some(Ok(chunk)))
    }
}

/// A hand-written `MessageBody` (neither BodyStream nor SizedStream) with a chosen declared size.
struct CustomBody {
    src: ChunkSrc,
    declared: BodySize,
}

impl MessageBody for CustomBody {
    type Error = io::Error;
    fn size(&self) -> BodySize {
        self.declared
    }
    fn poll_next(mut self: Pin<&mut Self>, cx: &mut Context<'_>) -> Poll<Option<Result<Bytes, io::Error>>> {
        Pin::new(&mut self.src).poll_next(cx)
    }
}

// ------------------------------------------------------------------------------------------------
// the codec libraries, used directly
// ------------------------------------------------------------------------------------------------

/// Decode `b` as content-coding `coding`.  Ok((bytes, trailing input bytes not consumed, if known)).
fn lib_decode(coding: &str, b: &[u8], cap: usize) -> Result<(Vec<u8>, Option<usize>), String> {
    let mut out = Vec::new();
    let lim = cap as u64 + 1;
    match coding {
        "gzip" => {
            let mut d = flate2::bufread::GzDecoder::new(b);
            d.by_ref().take(lim).read_to_end(&mut out).map_err(|e| e.to_string())?;
            if out.len() as u64 == lim {
                return Err("output exceeds cap".into());
            }
            // make sure the trailer was verified (read past the end of the deflate stream)
            let mut one = [0u8; 1];
            match d.read(&mut one) {
                Ok(0) => {}
                Ok(_) => return Err("data after end".into()),
                Err(e) => return Err(e.to_string()),
            }
            Ok((out, Some(d.into_inner().len())))
        }
        "deflate" => {
            // zlib format, driven by hand so that a stream without its end marker / Adler-32
            // trailer is an error (the Read adapters return a short Ok on truncated input)
            let mut d = flate2::Decompress::new(true);
            loop {
                let pos = d.total_in() as usize;
                out.reserve(64 * 1024);
                let before = (d.total_in(), d.total_out());
                let st = d.decompress_vec(&b[pos..], &mut out, flate2::FlushDecompress::None).map_err(|e| e.to_string())?;
                if out.len() as u64 >= lim {
                    return Err("output exceeds cap".into());
                }
                match st {
                    flate2::Status::StreamEnd => break,
                    _ => {
                        if (d.total_in(), d.total_out()) == before {
                            return Err(if d.total_in() as usize == b.len() { "truncated zlib stream".into() } else { "zlib decoder stalled".into() });
                        }
                    }
                }
            }
            let used = d.total_in() as usize;
            Ok((out, Some(b.len() - used.min(b.len()))))
        }
        "br" => {
            let mut d = brotli::Decompressor::new(b, 4096);
            d.by_ref().take(lim).read_to_end(&mut out).map_err(|e| e.to_string())?;
            if out.len() as u64 == lim {
                return Err("output exceeds cap".into());
            }
            Ok((out, None))
        }
        #[cfg(feature = "ffi")]
        "zstd" => {
            let mut d = zstd::stream::read::Decoder::new(b).map_err(|e| e.to_string())?;
            d.by_ref().take(lim).read_to_end(&mut out).map_err(|e| e.to_string())?;
            if out.len() as u64 == lim {
                return Err("output exceeds cap".into());
            }
            Ok((out, Some(0)))
        }
        other => Err(format!("no library decoder for {other}")),
    }
}

/// Encode with the library (request side).  `level` is reduced into the codec's range.
fn lib_encode(coding: &str, level: u32, checksum: bool, data: &[u8]) -> Vec<u8> {
    match coding {
        "gzip" => {
            let mut e = flate2::write::GzEncoder::new(Vec::new(), flate2::Compression::new(level % 10));
            e.write_all(data).unwrap();
            e.finish().unwrap()
        }
        "deflate" => {
            let mut e = flate2::write::ZlibEncoder::new(Vec::new(), flate2::Compression::new(level % 10));
            e.write_all(data).unwrap();
            e.finish().unwrap()
        }
        "br" => {
            let mut out = Vec::new();
            {
                let mut e = brotli::CompressorWriter::new(&mut out, 4096, level % 7, 16 + (level % 7));
                e.write_all(data).unwrap();
                e.flush().unwrap();
            }
            out
        }
        #[cfg(feature = "ffi")]
        "zstd" => {
            let mut e = zstd::stream::write::Encoder::new(Vec::new(), 1 + (level % 6) as i32).unwrap();
            let _ = e.include_checksum(checksum);
            e.write_all(data).unwrap();
            e.finish().unwrap()
        }
        _ => {
            let _ = checksum;
            data.to_vec()
        }
    }
}

/// What the brotli library makes of `b` under different feedings (only successful decodes).
fn br_variants(b: &[u8], chunks: &ChunkSpec) -> Vec<Vec<u8>> {
    let mut outs = vec![];
    for bufsz in [65536usize, 1 << 22] {
        let mut out = Vec::new();
        if brotli::Decompressor::new(b, bufsz).read_to_end(&mut out).is_ok() {
            outs.push(out);
        }
    }
    let pat = chunks.norm();
    for own in [false, true] {
        let mut w = brotli::DecompressorWriter::new(Vec::new(), 8096);
        let mut ok = true;
        let (mut pos, mut i) = (0usize, 0usize);
        while pos < b.len() && ok {
            let n = if own { pat[i % pat.len()].min(b.len() - pos) } else { b.len() };
            i += 1;
            ok = w.write_all(&b[pos..pos + n]).is_ok();
            pos += n;
        }
        if ok && w.close().is_ok() {
            outs.push(w.get_ref().clone());
        }
    }
    outs
}

fn content_encoding_of(c: &str) -> ContentEncoding {
    match c {
        "gzip" => ContentEncoding::Gzip,
        "deflate" => ContentEncoding::Deflate,
        "br" => ContentEncoding::Brotli,
        "zstd" => ContentEncoding::Zstd,
        _ => ContentEncoding::Identity,
    }
}

// ------------------------------------------------------------------------------------------------
// response side: the case, the handler program, the two ways of serving it
// ------------------------------------------------------------------------------------------------

#[derive(Serialize, Deserialize, Clone, Debug)]
struct RespCase {
    phase: String,
    /// svc (Service interface) | h1 (real HTTP/1 stack on a scripted socket)
    mode: String,
    http10: bool,
    /// values of the request's Accept-Encoding field lines (`esc` rendering); empty: no header
    ae: Vec<String>,
    status: u16,
    ctype: Option<String>,
    /// Content-Encoding the handler sets itself (the "already encoded" case)
    cenc: Option<String>,
    /// none | bytes | vec | stream | sized | nochunk | custom-stream | custom-sized
    body: String,
    data: DataSpec,
    chunks: ChunkSpec,
}

impl RespCase {
    fn replay(&self) -> Value {
        json!({"t": "resp", "case": serde_json::to_value(self).unwrap_or(Value::Null)})
    }
    fn streamed(&self) -> bool {
        !matches!(self.body.as_str(), "none" | "bytes" | "vec")
    }
    fn declared_empty(&self) -> bool {
        match self.body.as_str() {
            "none" => true,
            "bytes" | "vec" | "sized" | "nochunk" | "custom-sized" => self.data.len == 0,
            _ => false,
        }
    }
    /// number of chunks the handler body hands to the middleware
    fn in_chunks(&self) -> usize {
        if self.streamed() {
            self.chunks.n_chunks(self.data.len)
        } else {
            1
        }
    }
    fn expect_error(&self) -> bool {
        match self.chunks.err_at {
            // a body that declares itself empty is never polled
            Some(k) if self.streamed() && !self.declared_empty() => k <= self.chunks.n_chunks(self.data.len),
            _ => false,
        }
    }
    fn ae_lines(&self) -> Vec<Vec<u8>> {
        self.ae.iter().map(|s| unesc(s)).collect()
    }
}

struct Shared {
    spec: RefCell<Option<(RespCase, Bytes)>>,
    log: RefCell<Log>,
    calls: Cell<u32>,
}

impl Shared {
    fn new() -> Rc<Self> {
        Rc::new(Shared { spec: RefCell::new(None), log: RefCell::new(Rc::new(RefCell::new(SrcLog::default()))), calls: Cell::new(0) })
    }
    fn arm(&self, case: &RespCase, data: Bytes) -> Log {
        *self.spec.borrow_mut() = Some((case.clone(), data));
        let log: Log = Rc::new(RefCell::new(SrcLog::default()));
        *self.log.borrow_mut() = log.clone();
        self.calls.set(0);
        log
    }
}

fn build_response(sh: &Shared) -> HttpResponse {
    sh.calls.set(sh.calls.get() + 1);
    let (case, data) = sh.spec.borrow().clone().expect("handler called without a case");
    let log = sh.log.borrow().clone();
    let mut b = HttpResponse::build(StatusCode::from_u16(case.status).unwrap_or(StatusCode::OK));
    if let Some(ct) = &case.ctype {
        if let Ok(v) = HeaderValue::from_bytes(ct.as_bytes()) {
            b.insert_header((header::CONTENT_TYPE, v));
        }
    }
    if let Some(ce) = &case.cenc {
        if let Ok(v) = HeaderValue::from_bytes(ce.as_bytes()) {
            b.insert_header((header::CONTENT_ENCODING, v));
        }
    }
    let len = data.len() as u64;
    match case.body.as_str() {
        "none" => b.body(actix_web::body::None::new()),
        "bytes" => b.body(data),
        "vec" => b.body(data.to_vec()),
        "stream" => b.streaming(ChunkSrc::new(data, &case.chunks, log)),
        "sized" => b.body(SizedStream::new(len, ChunkSrc::new(data, &case.chunks, log))),
        "nochunk" => {
            b.no_chunking(len);
            b.streaming(ChunkSrc::new(data, &case.chunks, log))
        }
        "custom-sized" => b.body(CustomBody { src: ChunkSrc::new(data, &case.chunks, log), declared: BodySize::Sized(len) }),
        _ => b.body(CustomBody { src: ChunkSrc::new(data, &case.chunks, log), declared: BodySize::Stream }),
    }
}

macro_rules! make_app {
    ($sh:expr) => {{
        let sh: Rc<Shared> = $sh;
        App::new().wrap(Compress::default()).default_service(web::to(move |_req: HttpRequest| {
            let sh = sh.clone();
            async move { build_response(&sh) }
        }))
    }};
}

#[derive(Debug, Clone, PartialEq)]
enum End {
    Clean,
    Err(String),
    StepBound,
    OutputUnbounded,
    Watchdog,
}

#[derive(Debug)]
struct Obs {
    status: u16,
    /// (lower-case name, value)
    headers: Vec<(String, Vec<u8>)>,
    /// what `MessageBody::size()` said (svc mode)
    declared: Option<BodySize>,
    raw: Vec<u8>,
    out_chunks: usize,
    end: End,
    svc_error: Option<String>,
    /// wire mode: a framing failure found while parsing the bytes on the socket
    wire_fail: Option<(&'static str, String)>,
    framing: Option<RespFraming>,
}

impl Obs {
    fn header_all(&self, name: &str) -> Vec<&[u8]> {
        self.headers.iter().filter(|h| h.0 == name).map(|h| h.1.as_slice()).collect()
    }
}

async fn drain<B: MessageBody>(body: B, max_chunks: usize, max_bytes: usize) -> (Vec<u8>, usize, End) {
    let mut body = Box::pin(body);
    let mut raw = Vec::new();
    let mut n = 0usize;
    loop {
        match poll_fn(|cx| body.as_mut().poll_next(cx)).await {
            None => return (raw, n, End::Clean),
            Some(Err(e)) => {
                let e: Box<dyn std::error::Error> = e.into();
                let mut txt = e.to_string();
                let mut src = e.source();
                while let Some(s) = src {
                    txt.push_str(": ");
                    txt.push_str(&s.to_string());
                    src = s.source();
                }
                return (raw, n, End::Err(txt));
            }
            Some(Ok(c)) => {
                n += 1;
                raw.extend_from_slice(&c);
                if n > max_chunks {
                    return (raw, n, End::StepBound);
                }
                if raw.len() > max_bytes {
                    return (raw, n, End::OutputUnbounded);
                }
            }
        }
    }
}

type SvcCall = Box<dyn Fn(Request, usize, usize) -> Pin<Box<dyn Future<Output = Obs>>>>;

fn erase_service<S, B>(svc: S) -> SvcCall
where
    S: Service<Request, Response = ServiceResponse<B>, Error = actix_web::Error> + 'static,
    B: MessageBody + 'static,
{
    let svc = Rc::new(svc);
    Box::new(move |req, max_chunks, max_bytes| {
        let svc = svc.clone();
        Box::pin(async move {
            let mut obs = Obs {
                status: 0,
                headers: vec![],
                declared: None,
                raw: vec![],
                out_chunks: 0,
                end: End::Clean,
                svc_error: None,
                wire_fail: None,
                framing: None,
            };
            let fut = async {
                match svc.call(req).await {
                    Err(e) => Err(format!("{e}")),
                    Ok(res) => {
                        let (_rq, resp) = res.into_parts();
                        let (head, body) = resp.into_parts();
                        let status = head.status().as_u16();
                        let headers: Vec<(String, Vec<u8>)> =
                            head.headers().iter().map(|(k, v)| (k.as_str().to_ascii_lowercase(), v.as_bytes().to_vec())).collect();
                        let declared = body.size();
                        let (raw, n, end) = drain(body, max_chunks, max_bytes).await;
                        Ok((status, headers, declared, raw, n, end))
                    }
                }
            };
            match tokio::time::timeout(WATCHDOG, fut).await {
                Err(_) => obs.end = End::Watchdog,
                Ok(Err(e)) => obs.svc_error = Some(e),
                Ok(Ok((status, headers, declared, raw, n, end))) => {
                    obs.status = status;
                    obs.headers = headers;
                    obs.declared = Some(declared);
                    obs.raw = raw;
                    obs.out_chunks = n;
                    obs.end = end;
                }
            }
            obs
        })
    })
}

type ConnFut = Pin<Box<dyn Future<Output = Result<(), String>>>>;
type Opener = Box<dyn Fn(crate::world::io::ScriptIo) -> ConnFut>;

/// The same app behind the real `HttpService` (HTTP/1 dispatcher and encoder).
async fn h1_stack(sh: Rc<Shared>) -> Opener {
    let factory = HttpService::build()
        .keep_alive(KeepAlive::Disabled)
        .client_request_timeout(Duration::ZERO)
        .client_disconnect_timeout(Duration::ZERO)
        .finish(map_config(make_app!(sh), |_| AppConfig::default()));
    let svc = Rc::new(factory.new_service(()).await.expect("service init"));
    Box::new(move |io| {
        let fut = svc.call((io, Protocol::Http1, None));
        Box::pin(async move { fut.await.map_err(|e| format!("{e}")) })
    })
}

async fn exec_h1(open: &Opener, case: &RespCase) -> Obs {
    let mut obs =
        Obs { status: 0, headers: vec![], declared: None, raw: vec![], out_chunks: 0, end: End::Clean, svc_error: None, wire_fail: None, framing: None };
    let (io, h) = script_io();
    let mut rq = format!("GET /x HTTP/1.{}\r\nhost: t\r\n", if case.http10 { 0 } else { 1 }).into_bytes();
    for l in case.ae_lines() {
        rq.extend_from_slice(b"accept-encoding: ");
        rq.extend_from_slice(&l);
        rq.extend_from_slice(b"\r\n");
    }
    rq.extend_from_slice(b"\r\n");
    h.push(&rq);
    h.eof();
    let fut = open(io);
    match tokio::time::timeout(WATCHDOG, fut).await {
        Err(_) => {
            obs.end = End::Watchdog;
            return obs;
        }
        Ok(Err(e)) => obs.svc_error = Some(e),
        Ok(Ok(())) => {}
    }
    let out = h.out();
    let p = parse_responses(&out, &|_| Some("GET".to_string()), true);
    if let Some((at, why)) = p.malformed_at {
        let has_cl = p.resps.first().map(|r| r.header("content-length").is_some()).unwrap_or(false);
        obs.wire_fail = Some((
            if has_cl { "length/stale-content-length" } else { "wire/malformed" },
            format!("response stream not parseable at offset {at} of {}: {why}; head: {}", out.len(), esc_short(&out, 300)),
        ));
    }
    match p.resps.first() {
        None => {
            if obs.wire_fail.is_none() {
                obs.wire_fail = Some(("wire/no-response", format!("{} bytes on the wire, no response; connection result {:?}", out.len(), obs.svc_error)));
            }
        }
        Some(r) => {
            obs.status = r.status;
            obs.headers = r.headers.clone();
            obs.raw = r.body.clone();
            obs.out_chunks = r.chunk_sizes.len();
            obs.framing = Some(r.framing.clone());
            let cl = r.header_count("content-length");
            let te = r.header_count("transfer-encoding");
            if cl > 0 && te > 0 {
                obs.wire_fail = Some(("length/cl-and-chunked", format!("both content-length and transfer-encoding on the wire: {}", esc_short(&out[..r.head_end], 400))));
            } else if cl > 1 {
                obs.wire_fail = Some(("length/cl-and-chunked", format!("{cl} content-length headers: {}", esc_short(&out[..r.head_end], 400))));
            } else if !r.complete && obs.wire_fail.is_none() {
                let class = if cl > 0 { "length/stale-content-length" } else { "wire/incomplete" };
                obs.wire_fail = Some((
                    class,
                    format!(
                        "response incomplete under its own framing {:?}: {} body bytes on the wire; connection result {:?}; head: {}",
                        r.framing,
                        r.body.len(),
                        obs.svc_error,
                        esc_short(&out[..r.head_end], 400)
                    ),
                ));
            } else if p.resps.len() > 1 && obs.wire_fail.is_none() {
                obs.wire_fail = Some(("wire/malformed", format!("{} responses to one request", p.resps.len())));
            }
        }
    }
    obs
}

// ------------------------------------------------------------------------------------------------
// response side: the oracle
// ------------------------------------------------------------------------------------------------

/// Abstract rendering of an Accept-Encoding header: per supported coding / `*` / anything else,
/// `-` not named, `0` only q=0, `+` only q>0, `?` both.
fn ae_abstract(ae: &negotiate::AcceptEncoding, nlines: usize) -> String {
    if !ae.present {
        return "ae:absent".into();
    }
    let mut s = String::from("ae:");
    if ae.items.is_empty() && !ae.malformed {
        s.push_str("empty");
    }
    let mut names: Vec<&str> = SUPPORTED.to_vec();
    names.push("*");
    for n in names {
        let (mut z, mut p) = (false, false);
        for (c, q) in &ae.items {
            if c == n {
                if *q == 0 {
                    z = true
                } else {
                    p = true
                }
            }
        }
        s.push_str(match (z, p) {
            (false, false) => "-",
            (true, false) => "0",
            (false, true) => "+",
            (true, true) => "?",
        });
    }
    let other = ae.items.iter().any(|(c, _)| c != "*" && !SUPPORTED.contains(&c.as_str()));
    if other {
        s.push_str("/other");
    }
    if ae.malformed {
        s.push_str("/malformed");
    }
    if nlines > 1 {
        s.push_str("/multi");
    }
    s
}

fn ctype_skips(ct: &Option<String>) -> bool {
    // documented skip rule of the middleware: image/* except SVG, video/*
    match ct {
        None => false,
        Some(ct) => {
            let l = ct.trim().to_ascii_lowercase();
            (l.starts_with("image/") && !l.starts_with("image/svg+xml")) || l.starts_with("video/")
        }
    }
}

fn chunk_classes(case: &RespCase, log: &SrcLog) -> String {
    if !case.streamed() {
        return format!("one:{}", if case.data.len >= 1024 { "big" } else { "small" });
    }
    let mut s = String::new();
    if log.small > 0 {
        s.push('s');
    }
    if log.big > 0 {
        s.push('B');
    }
    if log.small > 0 && log.big > 0 {
        s.push('x');
    }
    if log.empties > 0 {
        s.push('e');
    }
    if log.pendings > 0 {
        s.push('p');
    }
    if log.chunks == 0 {
        s.push('0');
    }
    s
}

fn skip_reason(case: &RespCase) -> Option<&'static str> {
    if case.cenc.is_some() {
        Some("already-encoded")
    } else if case.status == 101 {
        Some("101")
    } else if case.status == 204 {
        Some("204")
    } else if case.status == 206 {
        Some("206")
    } else if case.declared_empty() {
        Some("empty")
    } else {
        None
    }
}

/// Ok(outcome tag for the signature) or the first failing clause.
fn judge_resp(case: &RespCase, h: &[u8], obs: &Obs, log: &SrcLog, calls: u32, rep: &mut Reporter) -> Result<String, Fail> {
    let lines = case.ae_lines();
    let refs: Vec<&[u8]> = lines.iter().map(|l| l.as_slice()).collect();
    let ae = negotiate::parse(&refs);
    let aes = ae_abstract(&ae, lines.len());
    let ae_txt = || format!("Accept-Encoding {:?}", case.ae);
    let cc = chunk_classes(case, log);
    let shape = format!("{}/{}/{}/{}", case.body, size_class(case.data.len), case.data.kind, cc);

    if let Some((class, detail)) = &obs.wire_fail {
        let ce = obs.header_all("content-encoding").first().map(|v| String::from_utf8_lossy(v).into_owned()).unwrap_or_else(|| "none".into());
        return Err(fail(class, format!("h1{} ce={ce} {}", if case.http10 { ".0" } else { ".1" }, case.body), detail.clone()));
    }
    if let Some(e) = &obs.svc_error {
        if case.mode == "svc" {
            return Err(fail("service-error", format!("{} {}", case.body, case.status), format!("the service call failed: {e}")));
        }
        if !case.expect_error() {
            return Err(fail("wire/connection-error", format!("{} {}", case.body, case.status), format!("the connection ended with an error: {e}")));
        }
    }

    // ---- 406 from the middleware
    if calls == 0 {
        if obs.status != 406 {
            return Err(fail("negotiate/handler-not-called", aes, format!("{}: status {} without calling the handler", ae_txt(), obs.status)));
        }
        let v = ae.verdicts(SUPPORTED);
        if v.values().any(|x| *x == Verdict::Ambiguous) {
            rep.count("ae:ambiguous", 1);
            rep.count("406:ambiguous-header", 1);
            return Ok("406/ambiguous".into());
        }
        if v["identity"] == Verdict::Yes {
            return Err(fail("negotiate/406-identity-acceptable", aes, format!("{}: answered 406 although an unencoded response is acceptable", ae_txt())));
        }
        let listed: Vec<&str> = CODINGS.iter().copied().filter(|c| v[*c] == Verdict::Yes && !ae.via_wildcard(c)).collect();
        if !listed.is_empty() {
            return Err(fail(
                "negotiate/406-listed-coding-acceptable",
                aes,
                format!("{}: answered 406 although the supported coding(s) {:?} are listed with q>0", ae_txt(), listed),
            ));
        }
        if CODINGS.iter().any(|c| v[*c] == Verdict::Yes) {
            rep.count("406:tolerated-wildcard-would-allow", 1);
            return Ok("406/wildcard-only".into());
        }
        rep.count("406:nothing-acceptable", 1);
        return Ok("406/none".into());
    }
    if obs.status == 406 {
        return Err(fail("negotiate/406-after-handler", aes, format!("{}: 406 although the handler ran", ae_txt())));
    }
    if obs.status != case.status {
        return Err(fail("passthrough/status-changed", format!("{}", case.status), format!("handler status {} became {}", case.status, obs.status)));
    }

    // ---- the stream's ending
    match &obs.end {
        End::StepBound => {
            return Err(fail(
                "terminates/step-bound",
                shape,
                format!("body produced {} chunks for {} input chunks and has not ended", obs.out_chunks, case.in_chunks()),
            ))
        }
        End::OutputUnbounded => {
            return Err(fail("terminates/output-unbounded", shape, format!("body produced {} bytes for {} input bytes and has not ended", obs.raw.len(), h.len())))
        }
        End::Err(e) => {
            if case.expect_error() {
                rep.count("body-error:propagated", 1);
                return Ok("body-error".into());
            }
            return Err(fail("lossless/stream-error", shape, format!("body stream failed: {e} (after {} bytes)", obs.raw.len())));
        }
        End::Clean => {
            if case.expect_error() && case.mode == "svc" {
                return Err(fail(
                    "body-error/swallowed",
                    shape,
                    format!("the handler body failed at chunk {:?} but the response body ended cleanly after {} bytes", case.chunks.err_at, obs.raw.len()),
                ));
            }
        }
        End::Watchdog => return Ok("watchdog".into()),
    }
    if case.expect_error() {
        // wire mode: the connection must not look like a complete, valid message
        rep.count("body-error:wire-incomplete-or-closed", 1);
        return Ok("body-error".into());
    }

    // ---- label and bytes
    let ce_vals = obs.header_all("content-encoding");
    let ce_txt: Vec<String> = ce_vals.iter().map(|v| String::from_utf8_lossy(v).into_owned()).collect();
    let outcome;
    if let Some(reason) = skip_reason(case) {
        let want: Vec<String> = case.cenc.iter().cloned().collect();
        if ce_txt != want {
            return Err(fail(
                "passthrough/relabelled",
                format!("{reason} {}", ce_txt.join(",")),
                format!("a response that must not be re-encoded ({reason}) has Content-Encoding {:?}, the handler set {:?}; {}", ce_txt, want, ae_txt()),
            ));
        }
        if obs.raw != h {
            return Err(fail(
                "passthrough/body-changed",
                format!("{reason} {}", case.body),
                format!("a response that must not be re-encoded ({reason}) has a body of {} bytes, the handler's has {}; {}", obs.raw.len(), h.len(), ae_txt()),
            ));
        }
        rep.count(&format!("skip:{reason}"), 1);
        outcome = format!("skip:{reason}");
    } else {
        if ce_txt.len() > 1 {
            return Err(fail("label/multiple", ce_txt.join(","), format!("several Content-Encoding headers: {:?}", ce_txt)));
        }
        let ctskip = ctype_skips(&case.ctype);
        match ce_txt.first().map(|s| s.as_str()) {
            None => {
                if obs.raw != h {
                    let k = obs.raw.iter().zip(h.iter()).take_while(|(a, b)| a == b).count();
                    return Err(fail(
                        "lossless/mismatch",
                        format!("identity/{shape}"),
                        format!("unlabelled body differs from the handler's: {} vs {} bytes, first difference at {k}; {}", obs.raw.len(), h.len(), ae_txt()),
                    ));
                }
                if ctskip {
                    rep.count("skip:content-type", 1);
                    outcome = "identity/ctype".into();
                } else {
                    match ae.permits("identity") {
                        Verdict::No => {
                            return Err(fail(
                                "negotiate/identity-excluded",
                                aes,
                                format!("{}: the response is not encoded although the request excludes the identity coding", ae_txt()),
                            ))
                        }
                        Verdict::Ambiguous => rep.count("ae:ambiguous", 1),
                        Verdict::Yes => {}
                    }
                    outcome = "identity".into();
                }
            }
            Some(c) => {
                if !CODINGS.contains(&c) {
                    return Err(fail("label/unknown-coding", c.to_string(), format!("Content-Encoding {c:?} is not a coding of the middleware; {}", ae_txt())));
                }
                match lib_decode(c, &obs.raw, h.len() + 1024) {
                    Err(e) => {
                        return Err(fail(
                            "lossless/decode-error",
                            format!("{c}/{shape}"),
                            format!("the {c} decoder of the library rejects the {} body bytes labelled {c}: {e}; handler body {} bytes; start {}", obs.raw.len(), h.len(), esc_short(&obs.raw, 48)),
                        ))
                    }
                    Ok((out, trailing)) => {
                        if out != h {
                            let k = out.iter().zip(h.iter()).take_while(|(a, b)| a == b).count();
                            return Err(fail(
                                "lossless/mismatch",
                                format!("{c}/{shape}"),
                                format!("decoding the {c} body gives {} bytes, the handler sent {}; first difference at {k}", out.len(), h.len()),
                            ));
                        }
                        if let Some(t) = trailing {
                            if t > 0 {
                                return Err(fail("lossless/trailing-bytes", format!("{c}/{shape}"), format!("{t} bytes follow the end of the {c} stream")));
                            }
                        }
                    }
                }
                match ae.permits(c) {
                    Verdict::No => {
                        return Err(fail(
                            "negotiate/coding-not-permitted",
                            format!("{c} {aes}"),
                            format!("{}: the response is encoded with {c}, which the request does not accept", ae_txt()),
                        ))
                    }
                    Verdict::Ambiguous => rep.count("ae:ambiguous", 1),
                    Verdict::Yes => {
                        if ae.via_wildcard(c) {
                            rep.count("chosen-via-wildcard", 1);
                        }
                        // statistics only: was it (one of) the client's most preferred supported codings?
                        let best = CODINGS.iter().filter(|x| ae.permits(x) == Verdict::Yes).filter_map(|x| ae.q_of(x)).max();
                        if ae.present && best.is_some() && ae.q_of(c) == best {
                            rep.count("chosen-has-highest-q", 1);
                        } else if ae.present {
                            rep.count("chosen-not-highest-q", 1);
                        }
                    }
                }
                if ctskip {
                    rep.count("encoded-despite-content-type", 1);
                }
                rep.max(&format!("ratio_pct:{c}"), (obs.raw.len() * 100 / h.len().max(1)) as u64);
                outcome = c.to_string();
            }
        }
    }

    // ---- declared size
    match obs.declared {
        Some(BodySize::Sized(n)) if n != obs.raw.len() as u64 => {
            return Err(fail(
                "length/declared-size-mismatch",
                format!("{outcome}/{}", case.body),
                format!("the response body declares {n} bytes and yields {} (handler body {} bytes)", obs.raw.len(), h.len()),
            ))
        }
        Some(BodySize::None) if !obs.raw.is_empty() => {
            return Err(fail("length/declared-size-mismatch", format!("{outcome}/{}", case.body), format!("the response body declares no body and yields {} bytes", obs.raw.len())))
        }
        Some(BodySize::Sized(_)) => rep.count("declared:sized", 1),
        Some(BodySize::Stream) => rep.count("declared:stream", 1),
        Some(BodySize::None) => rep.count("declared:none", 1),
        None => {}
    }
    if let Some(f) = &obs.framing {
        rep.count(
            &format!(
                "wire-framing:{}",
                match f {
                    RespFraming::Cl(_) => "content-length",
                    RespFraming::Chunked => "chunked",
                    RespFraming::CloseDelimited => "close-delimited",
                    RespFraming::NoBody => "no-body",
                }
            ),
            1,
        );
    }
    Ok(outcome)
}

struct Env {
    sh: Rc<Shared>,
    svc: SvcCall,
    h1: Option<Opener>,
    progress: Arc<AtomicU64>,
    watchdogs: u64,
}

impl Env {
    async fn new(progress: Arc<AtomicU64>, with_h1: bool) -> Env {
        let sh = Shared::new();
        let svc = erase_service(test::init_service(make_app!(sh.clone())).await);
        let h1 = if with_h1 { Some(h1_stack(sh.clone()).await) } else { None };
        Env { sh, svc, h1, progress, watchdogs: 0 }
    }
}

/// Execute and judge one response case.  Returns false on a violation.
async fn run_resp_case(env: &mut Env, case: &RespCase, rep: &mut Reporter) -> bool {
    rep.eval();
    env.progress.fetch_add(1, SeqCst);
    let data = Bytes::from(make_data(&case.data));
    let log = env.sh.arm(case, data.clone());
    let in_chunks = case.in_chunks();
    let max_chunks = 2 * in_chunks + 16;
    let max_bytes = data.len() * 2 + 64 * in_chunks + 8192;
    let run = async {
        if case.mode == "h1" {
            match &env.h1 {
                Some(open) => exec_h1(open, case).await,
                None => unreachable!("h1 stack not built"),
            }
        } else {
            let mut rq = test::TestRequest::get().uri("/x");
            for l in case.ae_lines() {
                match HeaderValue::from_bytes(&l) {
                    Ok(v) => rq = rq.append_header((header::ACCEPT_ENCODING, v)),
                    Err(_) => {}
                }
            }
            (env.svc)(rq.to_request(), max_chunks, max_bytes).await
        }
    };
    let obs = match AssertUnwindSafe(run).catch_unwind().await {
        Ok(o) => o,
        Err(p) => {
            let m = panic_text(p);
            rep.violation("panic", &format!("response {}", panic_site(&m)), &format!("panic while serving {:?}: {m}", case), case.replay());
            // the service may be left in a broken state: rebuild it
            let fresh = Env::new(env.progress.clone(), env.h1.is_some()).await;
            env.sh = fresh.sh;
            env.svc = fresh.svc;
            env.h1 = fresh.h1;
            return false;
        }
    };
    if obs.end == End::Watchdog {
        env.watchdogs += 1;
        rep.count("watchdog_fired", 1);
        return true;
    }
    let calls = env.sh.calls.get();
    let log = log.borrow();
    rep.count(&format!("mode:{}", case.mode), 1);
    rep.count("handler_chunks_small", log.small as u64);
    rep.count("handler_chunks_blocking_path", log.big as u64);
    rep.count("handler_chunks_empty", log.empties as u64);
    rep.count("handler_pendings", log.pendings as u64);
    rep.max("body_bytes", case.data.len as u64);
    rep.max("out_chunks", obs.out_chunks as u64);
    if log.polled_after_end > 0 {
        // `Stream::poll_next` after `None` may panic or block forever (std/futures contract); an
        // encoder that keeps polling a finished handler body has not terminated it properly
        rep.count("handler_body_polled_after_end", log.polled_after_end as u64);
        rep.violation(
            "terminates/polled-after-end",
            &format!("{} {}", case.mode, case.body),
            &format!("the handler body was polled {} more time(s) after it had returned None (end of stream); case {:?}", log.polled_after_end, case),
            case.replay(),
        );
        return false;
    }
    match judge_resp(case, &data, &obs, &log, calls, rep) {
        Ok(outcome) => {
            rep.count(&format!("outcome:{}", outcome.split('/').next().unwrap_or("")), 1);
            let lines = case.ae_lines();
            let refs: Vec<&[u8]> = lines.iter().map(|l| l.as_slice()).collect();
            let ae = negotiate::parse(&refs);
            let sig = if case.phase.starts_with("neg") {
                format!("neg|{}|{}|{outcome}", ae_abstract(&ae, lines.len()), if case.phase == "neg-rand" { case.status } else { 0 })
            } else {
                format!(
                    "{}|{}|{}|{}|{}|{}|{}|ct={}|ce={}|{outcome}",
                    case.mode,
                    if case.http10 { "1.0" } else { "1.1" },
                    case.body,
                    size_class(case.data.len),
                    case.data.kind,
                    chunk_classes(case, &log),
                    case.status,
                    case.ctype.as_deref().unwrap_or("-"),
                    case.cenc.as_deref().unwrap_or("-"),
                )
            };
            rep.sig(&sig);
            if rep.get("evaluations") % 997 == 1 {
                rep.sample(&format!("resp:{}", case.phase), json!({"case": case, "status": obs.status, "content_encoding": obs.header_all("content-encoding").iter().map(|v| String::from_utf8_lossy(v).into_owned()).collect::<Vec<_>>(), "raw_len": obs.raw.len(), "outcome": outcome}));
            }
            true
        }
        Err(f) => {
            rep.violation(f.class, &f.sig, &f.detail, case.replay());
            false
        }
    }
}

// ------------------------------------------------------------------------------------------------
// request side
// ------------------------------------------------------------------------------------------------

#[derive(Serialize, Deserialize, Clone, Debug)]
struct ReqCase {
    phase: String,
    /// direct (`Decoder::new`) | headers (`Decoder::from_headers`) | bytes (`web::Bytes` extractor)
    /// | payload (`web::Payload` + `dev::Decompress`)
    mode: String,
    coding: String,
    /// Content-Encoding text sent (case variants)
    label: String,
    level: u32,
    checksum: bool,
    data: DataSpec,
    /// chunking of the *compressed* bytes; `err_at` makes the transport fail
    chunks: ChunkSpec,
    /// none | truncate | flip
    damage: String,
    /// truncate: bytes kept; flip: byte position
    at: usize,
    bit: u8,
}

impl ReqCase {
    fn replay(&self) -> Value {
        json!({"t": "req", "case": serde_json::to_value(self).unwrap_or(Value::Null)})
    }
}

#[derive(Debug)]
enum ReqEnd {
    Ok(Vec<u8>),
    Err(String),
    StepBound(usize),
    TooMuch(usize),
    Watchdog,
}

macro_rules! make_req_app {
    () => {
        App::new()
            .app_data(web::PayloadConfig::new(64 << 20))
            .route("/bytes", web::post().to(|b: Bytes| async move { HttpResponse::Ok().body(b) }))
            .route(
                "/payload",
                web::post().to(|req: HttpRequest, pl: web::Payload| async move {
                    let mut d = Box::pin(actix_web::dev::Decompress::from_headers(pl.into_inner(), req.headers()));
                    let mut out = Vec::new();
                    let mut n = 0usize;
                    while let Some(item) = d.next().await {
                        match item {
                            Ok(c) => {
                                out.extend_from_slice(&c);
                                n += 1;
                                if n > 4_000_000 || out.len() > (256 << 20) {
                                    return HttpResponse::InsufficientStorage().body("cap");
                                }
                            }
                            // consumers stop at the first error
                            Err(e) => return HttpResponse::BadRequest().body(format!("{e}")),
                        }
                    }
                    HttpResponse::Ok().body(out)
                }),
            )
    };
}

type ReqCall = Box<dyn Fn(Request) -> Pin<Box<dyn Future<Output = Result<(u16, Vec<u8>), String>>>>>;

fn erase_req_service<S, B>(svc: S) -> ReqCall
where
    S: Service<Request, Response = ServiceResponse<B>, Error = actix_web::Error> + 'static,
    B: MessageBody + 'static,
{
    let svc = Rc::new(svc);
    Box::new(move |req| {
        let svc = svc.clone();
        Box::pin(async move {
            match svc.call(req).await {
                // an extractor failure surfaces as a service error: that is an error outcome
                Err(e) => Ok((e.as_response_error().status_code().as_u16(), format!("{e}").into_bytes())),
                Ok(res) => {
                    let status = res.status().as_u16();
                    let (raw, _, end) = drain(res.into_body(), usize::MAX, usize::MAX).await;
                    match end {
                        End::Clean => Ok((status, raw)),
                        other => Err(format!("response body of the echo handler: {:?}", other)),
                    }
                }
            }
        })
    })
}

fn damaged_input(case: &ReqCase, c: &[u8]) -> Vec<u8> {
    let mut v = c.to_vec();
    match case.damage.as_str() {
        "truncate" => v.truncate(case.at.min(c.len())),
        "flip" if !v.is_empty() => {
            let i = case.at % v.len();
            v[i] ^= 1 << (case.bit % 8);
        }
        _ => {}
    }
    v
}

async fn exec_req(call: &ReqCall, case: &ReqCase, input: Bytes, log: Log, max_chunks: usize, max_bytes: usize) -> ReqEnd {
    let src = ChunkSrc::new(input, &case.chunks, log).map(|r| r.map_err(PayloadError::Io));
    let fut = async {
        match case.mode.as_str() {
            "direct" | "headers" => {
                let mut dec = if case.mode == "direct" {
                    Box::pin(Decoder::new(src, content_encoding_of(&case.coding)))
                } else {
                    let mut hm = HeaderMap::new();
                    if let Ok(v) = HeaderValue::from_bytes(case.label.as_bytes()) {
                        hm.insert(header::CONTENT_ENCODING, v);
                    }
                    Box::pin(Decoder::from_headers(src, &hm))
                };
                let mut out = Vec::new();
                let mut n = 0usize;
                loop {
                    match dec.next().await {
                        None => return ReqEnd::Ok(out),
                        Some(Err(e)) => return ReqEnd::Err(format!("{e}")),
                        Some(Ok(c)) => {
                            n += 1;
                            out.extend_from_slice(&c);
                            if n > max_chunks {
                                return ReqEnd::StepBound(n);
                            }
                            if out.len() > max_bytes {
                                return ReqEnd::TooMuch(out.len());
                            }
                        }
                    }
                }
            }
            m => {
                let uri = if m == "bytes" { "/bytes" } else { "/payload" };
                let mut rq = test::TestRequest::post().uri(uri);
                if let Ok(v) = HeaderValue::from_bytes(case.label.as_bytes()) {
                    rq = rq.insert_header((header::CONTENT_ENCODING, v));
                }
                let boxed: actix_http::BoxedPayloadStream = Box::pin(src);
                let (rq, _) = rq.to_request().replace_payload(Payload::Stream { payload: boxed });
                match call(rq).await {
                    Ok((200, body)) => ReqEnd::Ok(body),
                    Ok((st, body)) => ReqEnd::Err(format!("status {st}: {}", esc_short(&body, 80))),
                    Err(e) => ReqEnd::Err(format!("harness: {e}")),
                }
            }
        }
    };
    match tokio::time::timeout(WATCHDOG, fut).await {
        Ok(r) => r,
        Err(_) => ReqEnd::Watchdog,
    }
}

struct ReqEnv {
    call: ReqCall,
    progress: Arc<AtomicU64>,
    watchdogs: u64,
}

impl ReqEnv {
    async fn new(progress: Arc<AtomicU64>) -> ReqEnv {
        ReqEnv { call: erase_req_service(test::init_service(make_req_app!()).await), progress, watchdogs: 0 }
    }
}

async fn run_req_case(env: &mut ReqEnv, case: &ReqCase, rep: &mut Reporter) -> bool {
    rep.eval();
    env.progress.fetch_add(1, SeqCst);
    let orig = make_data(&case.data);
    let comp = lib_encode(&case.coding, case.level, case.checksum, &orig);
    let input = damaged_input(case, &comp);
    if let Ok(dir) = std::env::var("AVMON_C13_DUMP") {
        // debugging aid for replays: the exact bytes fed and expected
        let _ = std::fs::write(format!("{dir}/input.bin"), &input);
        let _ = std::fs::write(format!("{dir}/orig.bin"), &orig);
    }
    let log: Log = Rc::new(RefCell::new(SrcLog::default()));
    let in_chunks = case.chunks.n_chunks(input.len());
    let max_chunks = 2 * in_chunks + 16;
    let max_bytes = if case.damage == "none" { orig.len() + 4096 } else { orig.len() * 16 + (4 << 20) };
    let src_fails = matches!(case.chunks.err_at, Some(k) if k <= in_chunks);
    let run = exec_req(&env.call, case, Bytes::from(input.clone()), log.clone(), max_chunks, max_bytes);
    let end = match AssertUnwindSafe(run).catch_unwind().await {
        Ok(e) => e,
        Err(p) => {
            let m = panic_text(p);
            rep.violation("panic", &format!("request {} {}", case.coding, panic_site(&m)), &format!("panic while decoding {:?}: {m}", case), case.replay());
            env.call = erase_req_service(test::init_service(make_req_app!()).await);
            return false;
        }
    };
    let log = log.borrow();
    rep.count(&format!("req-mode:{}", case.mode), 1);
    rep.count(&format!("req-coding:{}", case.coding), 1);
    rep.count("req_chunks_in_place", (log.chunks - log.huge) as u64);
    rep.count("req_chunks_blocking_path", log.huge as u64);
    rep.max("req_compressed_bytes", comp.len() as u64);
    let shape = format!(
        "{}/{}/{}/{}{}{}",
        case.mode,
        case.coding,
        size_class(input.len()),
        if log.chunks > log.huge { "s" } else { "" },
        if log.huge > 0 { "H" } else { "" },
        if log.pendings > 0 { "p" } else { "" }
    );
    let mut failure: Option<Fail> = None;
    let outcome: String;
    match (&end, case.damage.as_str()) {
        (ReqEnd::Watchdog, _) => {
            env.watchdogs += 1;
            rep.count("watchdog_fired", 1);
            return true;
        }
        (ReqEnd::StepBound(n), _) => {
            outcome = "step-bound".into();
            failure = Some(fail("terminates/step-bound", format!("request {shape}"), format!("decoder produced {n} chunks for {in_chunks} input chunks and has not ended")));
        }
        (ReqEnd::TooMuch(n), "none") => {
            outcome = "too-much".into();
            failure = Some(fail("request/mismatch", shape.clone(), format!("decoder produced {n} bytes for an original of {} and has not ended", orig.len())));
        }
        (ReqEnd::TooMuch(_), _) => {
            rep.count("req:damaged-input-expands", 1);
            outcome = "expands".into();
        }
        (ReqEnd::Ok(x), _) if src_fails => {
            outcome = "src-error-swallowed".into();
            failure = Some(fail(
                "request/source-error-swallowed",
                shape.clone(),
                format!("the transport failed at chunk {:?} but the decoded body ended cleanly with {} bytes", case.chunks.err_at, x.len()),
            ));
        }
        (ReqEnd::Err(_), _) if src_fails => {
            rep.count("req:source-error-propagated", 1);
            outcome = "src-error".into();
        }
        (ReqEnd::Ok(x), "none") => {
            if *x == orig {
                outcome = "ok".into();
            } else {
                let k = x.iter().zip(orig.iter()).take_while(|(a, b)| a == b).count();
                outcome = "mismatch".into();
                failure = Some(fail("request/mismatch", shape.clone(), format!("decoded body has {} bytes, the original {}; first difference at {k}", x.len(), orig.len())));
            }
        }
        (ReqEnd::Err(e), "none") => {
            outcome = "rejected".into();
            failure = Some(fail("request/rejected-valid", shape.clone(), format!("a valid {} body of {} bytes ({} original) was refused: {e}", case.coding, comp.len(), orig.len())));
        }
        (ReqEnd::Err(_), d) => {
            rep.count(&format!("req:{d}:error"), 1);
            outcome = "error".into();
        }
        (ReqEnd::Ok(x), "truncate") => {
            if *x == orig {
                // only the trailer (checksum / size) was cut off: everything was delivered
                rep.count("req:truncate:complete-without-trailer", 1);
                outcome = "ok-complete".into();
            } else {
                // Observed, not judged: the statement is about bodies *sent with* a supported
                // coding being delivered decoded and equal; what happens to a body that is cut off
                // mid-stream is outside it (see DESIGN.md section 11).
                outcome = "short-success".into();
                let _ = orig.starts_with(x);
                rep.count("req:truncate:short-body-delivered-as-success(observed, not judged)", 1);
            }
        }
        (ReqEnd::Ok(x), _) => {
            if *x == orig {
                rep.count("req:flip:harmless", 1);
                outcome = "ok-harmless".into();
            } else {
                match lib_decode(&case.coding, &input, max_bytes) {
                    Ok((y, _)) if y == *x => {
                        rep.count("req:flip:undetectable-by-codec", 1);
                        outcome = "ok-as-library".into();
                    }
                    // brotli has no integrity check and the library's verdict on a corrupt stream
                    // depends on how much input it sees at once (probed: the same bytes are `Ok` in
                    // one piece and `Invalid Data` in 4 KiB pieces); accept what the library itself
                    // decodes under any of the feedings tried, including the case's own chunking
                    _ if case.coding == "br" && br_variants(&input, &case.chunks).iter().any(|y| y == x) => {
                        rep.count("req:flip:br-library-feeding-dependent", 1);
                        outcome = "ok-as-library".into();
                    }
                    other => {
                        outcome = "corrupt-accepted".into();
                        let _ = other;
                        rep.count("req:flip:corrupt-body-delivered-as-success(observed, not judged)", 1);
                    }
                }
            }
        }
    }
    rep.count(&format!("req-outcome:{}:{outcome}", case.damage), 1);
    rep.sig(&format!("req|{shape}|{}|{}|{outcome}", case.damage, if src_fails { "srcerr" } else { "" }));
    if rep.get("evaluations") % 1499 == 1 {
        rep.sample(&format!("req:{}", case.phase), json!({"case": case, "compressed_len": comp.len(), "outcome": outcome}));
    }
    match failure {
        None => true,
        Some(f) => {
            rep.violation(f.class, &f.sig, &f.detail, case.replay());
            false
        }
    }
}

// ------------------------------------------------------------------------------------------------
// generators
// ------------------------------------------------------------------------------------------------

const AE_CODINGS: &[&str] = &[
    "gzip", "gzip", "br", "br", "deflate", "zstd", "identity", "identity", "*", "*", "compress", "x-foo", "snappy", "GZIP", "Gzip", "BR", "Identity",
    "IDENTITY", "ZSTD", "Deflate", "x-gzip2", "gzip2",
];
const Q_ZERO: &[&str] = &["0", "0.", "0.0", "0.00", "0.000"];
const Q_POS: &[&str] = &["1", "1.", "1.0", "1.00", "1.000", "0.5", "0.001", "0.9", "0.999", "0.01", "0.100", "0.8", "0.05"];
const Q_BAD: &[&str] = &["1.001", "2", "0.5555", ".5", "abc", "-1", "", "1.0000", "0,5", "1e0", "0.5;x=1", " 0.5", "+0.5", "NaN", "inf"];
const SEMI: &[&str] = &[";", ";", "; ", " ;", " ; ", ";\t", "\t;"];
const COMMA: &[&str] = &[",", ", ", ", ", " ,", " , ", ",,", ", ,", ",\t"];

/// A random Accept-Encoding header (0..3 field lines) from the RFC 7231 §5.3.4 grammar plus a
/// small share of malformed elements.  Lines are returned in `esc` rendering.
fn gen_ae(r: &mut Rng) -> Vec<String> {
    if r.chance(1, 14) {
        return vec![];
    }
    if r.chance(1, 30) {
        return vec![String::new()];
    }
    let nlines = if r.chance(4, 5) { 1 } else { r.range(2, 3) };
    let mut lines = vec![];
    for _ in 0..nlines {
        let n = if r.chance(1, 12) { 0 } else { r.range(1, 4) };
        let mut l: Vec<u8> = vec![];
        if r.chance(1, 15) {
            l.extend_from_slice(r.pick(COMMA).trim_start().as_bytes());
        }
        for i in 0..n {
            if i > 0 {
                l.extend_from_slice(r.pick(COMMA).as_bytes());
            }
            l.extend_from_slice(r.pick(AE_CODINGS).as_bytes());
            let k = r.below(100);
            let (q, bad): (Option<&str>, bool) = match k {
                0..=39 => (None, false),
                40..=66 => (Some(*r.pick(Q_ZERO)), false),
                67..=96 => (Some(*r.pick(Q_POS)), false),
                _ => (Some(*r.pick(Q_BAD)), true),
            };
            let _ = bad;
            if let Some(q) = q {
                l.extend_from_slice(r.pick(SEMI).as_bytes());
                l.extend_from_slice(if r.chance(1, 8) { b"Q=" } else { b"q=" });
                l.extend_from_slice(q.as_bytes());
            }
        }
        if r.chance(1, 40) {
            // an element that is no token at all, or obs-text
            let junk: [&[u8]; 7] = [b", gzip br", b", =", b", \"gzip\"", b", gz\xe9p", b", ;q=1", b", gzip;", b", (gzip)"];
            l.extend_from_slice(junk[r.below(junk.len())]);
        }
        // field values never start or end with whitespace once parsed; keep them trimmed so the svc
        // and h1 modes see the same value
        let t = String::from_utf8_lossy(&l).trim_matches(|c| c == ' ' || c == '\t').to_string();
        let tb: Vec<u8> = if l.iter().any(|b| *b >= 0x80) { l.clone() } else { t.into_bytes() };
        lines.push(esc(&tb));
    }
    lines
}

fn force_ae(coding: &str, variant: usize) -> Vec<String> {
    if coding == "identity" {
        return match variant % 3 {
            0 => vec![],
            1 => vec!["identity".into()],
            _ => vec!["gzip;q=0, identity;q=0.5, *;q=0".into()],
        };
    }
    match variant % 4 {
        0 => vec![coding.to_string()],
        1 => vec![format!("{coding};q=0.5, identity;q=0")],
        2 => vec![format!("*;q=0, {coding}")],
        _ => vec![format!("{};q=0.9", coding.to_ascii_uppercase()), "x-none, identity;q=0.1".into()],
    }
}

fn text_case(phase: &str, ae: Vec<String>) -> RespCase {
    RespCase {
        phase: phase.into(),
        mode: "svc".into(),
        http10: false,
        ae,
        status: 200,
        ctype: None,
        cenc: None,
        body: "bytes".into(),
        data: DataSpec { kind: "text".into(), len: 600, seed: 1 },
        chunks: ChunkSpec::one(),
    }
}

const GRID_SIZES: &[usize] = &[0, 1, 1023, 1024, 1025, 2047, 2048, 2049, 2050, 65536, 1 << 20];

fn grid_chunkings(size: usize) -> Vec<ChunkSpec> {
    let mut v = vec![
        ChunkSpec::one(),
        ChunkSpec::fixed(1023),
        ChunkSpec::fixed(1024),
        ChunkSpec::fixed(1025),
        ChunkSpec::fixed(2048),
        ChunkSpec::pat(&[1, 1024, 1023, 2048, 5, 4096]),
        ChunkSpec::fixed(65536),
        ChunkSpec::pat(&[0, 1500, 0, 0, 700]),
        ChunkSpec { pattern: vec![1024], pend_every: 2, err_at: None },
        ChunkSpec { pattern: vec![512, 3000], pend_every: 3, err_at: None },
    ];
    if size <= 65536 {
        v.push(ChunkSpec::fixed(7));
    }
    v
}

fn rand_pattern(r: &mut Rng, allow_empty: bool) -> Vec<usize> {
    let n = r.range(1, 6);
    (0..n)
        .map(|_| match r.below(12) {
            0 if allow_empty => 0,
            0 | 1 => 1,
            2 | 3 => r.range(2, 1022),
            4 => 1023,
            5 => 1024,
            6 => 1025,
            7 => r.range(2047, 2050),
            8 | 9 => r.range(1026, 9000),
            _ => r.range(9000, 70000),
        })
        .collect()
}

fn rand_size(r: &mut Rng, big_ok: bool) -> usize {
    match r.below(20) {
        0 => 0,
        1 => 1,
        2..=6 => *r.pick(&[1023usize, 1024, 1025, 2047, 2048, 2049, 2050, 4095, 4096, 8191, 8192, 8193]),
        7..=11 => r.range(2, 5000),
        12..=16 => r.range(5000, 200_000),
        17 | 18 => 65536 + r.range(0, 2),
        _ => {
            if big_ok {
                (1 << 20) + r.range(0, 3000)
            } else {
                r.range(100_000, 300_000)
            }
        }
    }
}

const CTYPES: &[Option<&str>] = &[
    None,
    None,
    Some("text/plain"),
    Some("text/html; charset=utf-8"),
    Some("application/json"),
    Some("image/png"),
    Some("image/svg+xml"),
    Some("IMAGE/JPEG"),
    Some("video/mp4"),
    Some("application/octet-stream"),
    Some("not a mime"),
];

// ------------------------------------------------------------------------------------------------
// phases
// ------------------------------------------------------------------------------------------------

struct Runner<'a> {
    ctx: &'a Ctx,
    env: Env,
    renv: ReqEnv,
    cut: bool,
}

impl<'a> Runner<'a> {
    /// sub-sampling stride of the enumerated grids (sanitizer layers run a slice of them)
    fn stride(&self) -> u64 {
        if self.ctx.is_miri() {
            1
        } else {
            (100 / self.ctx.scale_pct.clamp(1, 100)).max(1)
        }
    }
    /// is enumeration index `idx` this shard's, and inside this layer's slice?
    fn take(&self, idx: u64) -> bool {
        self.ctx.mine(idx) && (idx / self.ctx.nshards) % self.stride() == 0
    }
    /// only the full-scale layers may claim (or disclaim) that a finite space was completed
    fn declare(&self, rep: &mut Reporter, what: &str, complete: bool) {
        if self.stride() == 1 && !self.ctx.is_miri() {
            rep.exhaustive(what, complete);
        }
    }
    fn stop(&mut self) -> bool {
        if self.ctx.out_of_time() {
            self.cut = true;
        }
        self.cut
    }
}

async fn phase_neg_enum(rn: &mut Runner<'_>, rep: &mut Reporter) {
    let codings = ["gzip", "br", "deflate", "zstd", "identity", "*", "x-unk"];
    let qs = ["", ";q=0", ";q=0.001", ";q=0.5"];
    let pal: Vec<String> = codings.iter().flat_map(|c| qs.iter().map(move |q| format!("{c}{q}"))).collect();
    let small: Vec<String> = codings.iter().flat_map(|c| ["", ";q=0"].iter().map(move |q| format!("{c}{q}"))).collect();
    let miri = rn.ctx.is_miri();
    let mut idx = 0u64;
    let mut complete = true;
    let maxlen = if miri { 1 } else { 3 };
    for len in 0..=maxlen {
        let total = pal.len().pow(len as u32);
        for k in 0..total {
            idx += 1;
            if !rn.take(idx) {
                continue;
            }
            if rn.stop() {
                complete = false;
                break;
            }
            let mut x = k;
            let mut parts = vec![];
            for _ in 0..len {
                parts.push(pal[x % pal.len()].clone());
                x /= pal.len();
            }
            let ae = if len == 0 { vec![String::new()] } else { vec![parts.join(", ")] };
            run_resp_case(&mut rn.env, &text_case("neg-enum", ae), rep).await;
        }
    }
    rn.declare(rep, "accept-encoding sequences of <=3 elements over 7 codings x 4 weights", complete);
    if rn.ctx.thorough() && !miri {
        let mut complete = true;
        let total = small.len().pow(4);
        for k in 0..total {
            idx += 1;
            if !rn.take(idx) {
                continue;
            }
            if rn.stop() {
                complete = false;
                break;
            }
            let mut x = k;
            let mut parts = vec![];
            for _ in 0..4 {
                parts.push(small[x % small.len()].clone());
                x /= small.len();
            }
            // split over two field lines for half of them
            let ae = if k % 2 == 0 { vec![parts.join(",")] } else { vec![parts[..2].join(", "), parts[2..].join(" ,")] };
            run_resp_case(&mut rn.env, &text_case("neg-enum", ae), rep).await;
        }
        rn.declare(rep, "accept-encoding sequences of 4 elements over 7 codings x {q=1,q=0}", complete);
    }
}

fn q_text(q: u32, style: u32) -> String {
    if q >= 1000 {
        return ["1", "1.0", "1.000"][(style % 3) as usize].to_string();
    }
    let full = format!("0.{:03}", q);
    match style % 3 {
        0 => full,
        1 => {
            let t = full.trim_end_matches('0');
            if t.ends_with('.') {
                "0".to_string()
            } else {
                t.to_string()
            }
        }
        _ => {
            if q == 0 {
                "0.0".into()
            } else {
                full
            }
        }
    }
}

async fn phase_neg_q(rn: &mut Runner<'_>, rep: &mut Reporter) {
    let mut idx = 0u64;
    let mut complete = true;
    let step = if rn.ctx.is_miri() { 500 } else { 1 };
    'outer: for which in 0..4 {
        for q in (0..=1000u32).step_by(step) {
            idx += 1;
            if !rn.take(idx) {
                continue;
            }
            if rn.stop() {
                complete = false;
                break 'outer;
            }
            let qt = q_text(q, q / 7 + which);
            let ae = match which {
                0 => format!("gzip;q={qt}, identity;q=0"),
                1 => format!("identity;q={qt}, gzip;q=0"),
                2 => format!("*;q={qt}, identity;q=0"),
                _ => format!("br;q={qt}, *;q=0"),
            };
            run_resp_case(&mut rn.env, &text_case("neg-q", vec![ae]), rep).await;
        }
    }
    rn.declare(rep, "all 1001 qvalues x 4 header shapes", complete);
}

async fn phase_neg_rand(rn: &mut Runner<'_>, rep: &mut Reporter) {
    let n = if rn.ctx.is_miri() { 6 } else { rn.ctx.share(100_000, 6_000_000) / if rn.stride() > 1 { 10 } else { 1 } };
    for k in 0..n {
        if rn.stop() {
            break;
        }
        let mut r = Rng::derive(rn.ctx.seed, 0xc13_01, k * rn.ctx.nshards + rn.ctx.shard);
        let mut c = text_case("neg-rand", gen_ae(&mut r));
        c.status = *r.pick(&[200u16, 200, 200, 201, 404, 500]);
        c.data.len = *r.pick(&[1usize, 40, 600, 1500]);
        c.data.seed = r.below(4) as u64;
        if r.chance(1, 6) {
            c.ctype = r.pick(CTYPES).map(|s| s.to_string());
        }
        if r.chance(1, 10) {
            c.body = "stream".into();
            c.chunks = ChunkSpec::fixed(*r.pick(&[100usize, 1024]));
        }
        run_resp_case(&mut rn.env, &c, rep).await;
    }
}

async fn phase_body_grid(rn: &mut Runner<'_>, rep: &mut Reporter) {
    let mut codings: Vec<&str> = CODINGS.to_vec();
    codings.push("identity");
    let kinds = ["bytes", "vec", "stream", "sized", "custom-stream", "custom-sized"];
    let datas: &[&str] = if rn.ctx.thorough() { &["text", "random", "zeros", "mixed"] } else { &["text", "random"] };
    let mut idx = 0u64;
    let mut complete = true;
    'outer: for &size in GRID_SIZES {
        for (ci, coding) in codings.iter().enumerate() {
            for kind in kinds {
                let chunkings = if matches!(kind, "bytes" | "vec") { vec![ChunkSpec::one()] } else { grid_chunkings(size) };
                for (ki, ch) in chunkings.iter().enumerate() {
                    for dk in datas {
                        idx += 1;
                        if !rn.take(idx) {
                            continue;
                        }
                        if rn.stop() {
                            complete = false;
                            break 'outer;
                        }
                        let c = RespCase {
                            phase: "body-grid".into(),
                            mode: "svc".into(),
                            http10: false,
                            ae: force_ae(coding, ci + ki + size),
                            status: 200,
                            ctype: if ki % 3 == 0 { Some("text/plain".into()) } else { None },
                            cenc: None,
                            body: kind.into(),
                            data: DataSpec { kind: dk.to_string(), len: size, seed: (size + ki) as u64 },
                            chunks: ch.clone(),
                        };
                        run_resp_case(&mut rn.env, &c, rep).await;
                    }
                }
            }
        }
    }
    rn.declare(rep, "body grid: 11 threshold sizes x codings x 6 body kinds x 11 chunkings x data kinds", complete);
}

async fn phase_skip(rn: &mut Runner<'_>, rep: &mut Reporter) {
    let statuses = [101u16, 204, 206, 200, 404];
    let cencs: [Option<&str>; 6] = [None, Some("gzip"), Some("br"), Some("identity"), Some("x-custom"), Some("deflate")];
    let ctypes: [Option<&str>; 7] =
        [None, Some("text/plain"), Some("image/png"), Some("image/svg+xml"), Some("video/mp4"), Some("application/json"), Some("not a mime")];
    let bodies: [(&str, usize); 6] = [("bytes", 0), ("none", 0), ("bytes", 600), ("stream", 3000), ("sized", 0), ("custom-stream", 0)];
    let aes: [Vec<String>; 5] =
        [vec!["gzip".into()], vec!["br, identity;q=0".into()], vec![], vec!["*".into()], vec!["deflate;q=0.5, gzip;q=0".into()]];
    let mut idx = 0u64;
    let mut complete = true;
    'outer: for st in statuses {
        for ce in cencs {
            for ct in ctypes {
                for (bk, len) in bodies {
                    for ae in &aes {
                        idx += 1;
                        if !rn.take(idx) {
                            continue;
                        }
                        if rn.stop() {
                            complete = false;
                            break 'outer;
                        }
                        let c = RespCase {
                            phase: "skip".into(),
                            mode: "svc".into(),
                            http10: false,
                            ae: ae.clone(),
                            status: st,
                            ctype: ct.map(|s| s.to_string()),
                            cenc: ce.map(|s| s.to_string()),
                            body: bk.into(),
                            data: DataSpec { kind: "text".into(), len, seed: 3 },
                            chunks: ChunkSpec::fixed(1024),
                        };
                        run_resp_case(&mut rn.env, &c, rep).await;
                    }
                }
            }
        }
    }
    rn.declare(rep, "skip rules: 5 statuses x 6 handler labels x 7 content types x 6 bodies x 5 headers", complete);
}

async fn phase_wire(rn: &mut Runner<'_>, rep: &mut Reporter) {
    let mut codings: Vec<&str> = CODINGS.to_vec();
    codings.push("identity");
    let sizes = [0usize, 1, 1023, 1024, 1025, 2049, 65536];
    let kinds = ["bytes", "stream", "sized", "nochunk", "custom-sized"];
    let chunkings = [ChunkSpec::one(), ChunkSpec::fixed(1024), ChunkSpec::pat(&[700, 3000])];
    let mut idx = 0u64;
    let mut complete = true;
    'outer: for size in sizes {
        for (ci, coding) in codings.iter().enumerate() {
            for kind in kinds {
                for (ki, ch) in chunkings.iter().enumerate() {
                    for http10 in [false, true] {
                        for st in [200u16, 206] {
                            if st == 206 && (ki != 1 || size == 0) {
                                continue;
                            }
                            idx += 1;
                            if !rn.take(idx) {
                                continue;
                            }
                            if rn.stop() {
                                complete = false;
                                break 'outer;
                            }
                            let c = RespCase {
                                phase: "wire".into(),
                                mode: "h1".into(),
                                http10,
                                ae: force_ae(coding, ci + ki),
                                status: st,
                                ctype: None,
                                cenc: None,
                                body: kind.into(),
                                data: DataSpec { kind: if (size + ki) % 2 == 0 { "text" } else { "random" }.into(), len: size, seed: size as u64 },
                                chunks: ch.clone(),
                            };
                            run_resp_case(&mut rn.env, &c, rep).await;
                        }
                    }
                }
            }
        }
    }
    rn.declare(rep, "wire grid: 7 sizes x codings x 5 body kinds x 3 chunkings x HTTP/1.0+1.1", complete);
}

async fn phase_body_rand(rn: &mut Runner<'_>, rep: &mut Reporter) {
    let n = if rn.ctx.is_miri() { 4 } else { rn.ctx.share(16_000, 900_000) };
    let mut codings: Vec<&str> = CODINGS.to_vec();
    codings.push("identity");
    for k in 0..n {
        if rn.stop() {
            break;
        }
        let mut r = Rng::derive(rn.ctx.seed, 0xc13_02, k * rn.ctx.nshards + rn.ctx.shard);
        let wire = !rn.ctx.is_miri() && r.chance(1, 5);
        let kind = *r.pick(&["bytes", "vec", "stream", "stream", "sized", "nochunk", "custom-stream", "custom-sized", "none"]);
        let big = r.chance(1, 3);
        let mut len = if rn.ctx.is_miri() { r.range(0, 3000) } else { rand_size(&mut r, big) };
        if kind == "none" {
            len = 0;
        }
        let mut chunks = ChunkSpec { pattern: rand_pattern(&mut r, true), pend_every: *r.pick(&[0usize, 0, 0, 1, 2, 5]), err_at: None };
        // keep the number of chunks bounded
        if chunks.n_chunks(len) > 6000 {
            chunks.pattern.push(len / 50 + 1);
        }
        let streamed = !matches!(kind, "none" | "bytes" | "vec");
        if streamed && !wire && r.chance(1, 12) {
            chunks.err_at = Some(r.below(chunks.n_chunks(len) + 1));
        }
        let status = if wire {
            *r.pick(&[200u16, 200, 200, 201, 404, 206, 500])
        } else {
            *r.pick(&[200u16, 200, 200, 200, 200, 201, 404, 500, 206, 204, 101])
        };
        let ae = if r.chance(3, 5) { { let c: &str = codings[r.below(codings.len())]; force_ae(c, r.below(8)) } } else { gen_ae(&mut r) };
        let c = RespCase {
            phase: "body-rand".into(),
            mode: if wire { "h1" } else { "svc" }.into(),
            http10: wire && r.chance(1, 3),
            ae,
            status,
            ctype: r.pick(CTYPES).map(|s| s.to_string()),
            cenc: if r.chance(1, 12) { Some(r.pick(&["gzip", "br", "identity", "x-custom"]).to_string()) } else { None },
            body: kind.into(),
            data: DataSpec { kind: r.pick(&["text", "text", "random", "zeros", "mixed"]).to_string(), len, seed: r.below(1000) as u64 },
            chunks,
        };
        run_resp_case(&mut rn.env, &c, rep).await;
    }
}

fn label_variant(coding: &str, v: usize) -> String {
    match v % 4 {
        0 | 1 => coding.to_string(),
        2 => coding.to_ascii_uppercase(),
        _ => {
            let mut s = coding.to_string();
            if let Some(f) = s.get_mut(0..1) {
                f.make_ascii_uppercase();
            }
            s
        }
    }
}

async fn phase_req_trunc(rn: &mut Runner<'_>, rep: &mut Reporter) {
    let mut idx = 0u64;
    let mut complete = true;
    let datas = [DataSpec { kind: "text".into(), len: 400, seed: 5 }, DataSpec { kind: "random".into(), len: 150, seed: 6 }];
    let miri = rn.ctx.is_miri();
    'outer: for coding in CODINGS {
        for data in &datas {
            for level in [1u32, 6, 0] {
                for checksum in [false, true] {
                    if checksum && (*coding != "zstd" || level != 1) {
                        continue;
                    }
                    let comp = lib_encode(coding, level, checksum, &make_data(data));
                    for at in 1..comp.len() {
                        for (ki, ch) in [ChunkSpec::one(), ChunkSpec::fixed(1), ChunkSpec::fixed(13)].iter().enumerate() {
                            idx += 1;
                            if !rn.take(idx) || (miri && idx % 97 != 0) {
                                continue;
                            }
                            if rn.stop() {
                                complete = false;
                                break 'outer;
                            }
                            let c = ReqCase {
                                phase: "req-trunc".into(),
                                mode: ["direct", "bytes", "payload"][(ki + at) % 3].into(),
                                coding: coding.to_string(),
                                label: coding.to_string(),
                                level,
                                checksum,
                                data: data.clone(),
                                chunks: ch.clone(),
                                damage: "truncate".into(),
                                at,
                                bit: 0,
                            };
                            run_req_case(&mut rn.renv, &c, rep).await;
                        }
                    }
                }
            }
        }
    }
    rn.declare(rep, "request bodies cut at every byte offset: codings x 2 bodies x 3 levels x 3 chunkings", complete);
}

async fn phase_req_grid(rn: &mut Runner<'_>, rep: &mut Reporter) {
    let sizes = [0usize, 1, 1023, 1024, 2047, 2048, 2049, 2050, 4097, 65536, 1 << 20];
    let chunkings = [
        ChunkSpec::one(),
        ChunkSpec::fixed(1),
        ChunkSpec::fixed(2048),
        ChunkSpec::fixed(2049),
        ChunkSpec::fixed(2050),
        ChunkSpec::pat(&[100, 5000, 2049, 1, 2048]),
        ChunkSpec::fixed(8192),
        ChunkSpec { pattern: vec![2049], pend_every: 2, err_at: None },
        ChunkSpec { pattern: vec![0, 700, 0, 3000], pend_every: 3, err_at: None },
    ];
    let modes = ["direct", "headers", "bytes", "payload"];
    let mut idx = 0u64;
    let mut complete = true;
    'outer: for size in sizes {
        for coding in CODINGS {
            for dk in ["text", "random"] {
                let level = (size as u32 + dk.len() as u32) % 10;
                let data = DataSpec { kind: dk.into(), len: size, seed: size as u64 + 11 };
                let clen = lib_encode(coding, level, false, &make_data(&data)).len();
                for (ki, ch) in chunkings.iter().enumerate() {
                    if ch.n_chunks(clen) > 20_000 {
                        continue;
                    }
                    for (mi, mode) in modes.iter().enumerate() {
                        idx += 1;
                        if !rn.take(idx) {
                            continue;
                        }
                        if rn.stop() {
                            complete = false;
                            break 'outer;
                        }
                        let c = ReqCase {
                            phase: "req-grid".into(),
                            mode: mode.to_string(),
                            coding: coding.to_string(),
                            label: label_variant(coding, ki + mi),
                            level,
                            checksum: ki % 2 == 1,
                            data: data.clone(),
                            chunks: ch.clone(),
                            damage: "none".into(),
                            at: 0,
                            bit: 0,
                        };
                        run_req_case(&mut rn.renv, &c, rep).await;
                    }
                }
            }
        }
    }
    rn.declare(rep, "request grid: 11 sizes x codings x 2 data kinds x 9 chunkings x 4 entry points", complete);
}

async fn phase_req_rand(rn: &mut Runner<'_>, rep: &mut Reporter) {
    let n = if rn.ctx.is_miri() { 6 } else { rn.ctx.share(24_000, 1_400_000) };
    for k in 0..n {
        if rn.stop() {
            break;
        }
        let mut r = Rng::derive(rn.ctx.seed, 0xc13_03, k * rn.ctx.nshards + rn.ctx.shard);
        let coding = *r.pick(CODINGS);
        let big = r.chance(1, 4);
        let len = if rn.ctx.is_miri() { r.range(0, 3000) } else { rand_size(&mut r, big) };
        let data = DataSpec { kind: r.pick(&["text", "random", "random", "zeros", "mixed"]).to_string(), len, seed: r.below(1000) as u64 };
        let level = r.below(10) as u32;
        let checksum = r.chance(1, 2);
        let clen = lib_encode(coding, level, checksum, &make_data(&data)).len();
        let mut chunks = ChunkSpec { pattern: rand_pattern(&mut r, true), pend_every: *r.pick(&[0usize, 0, 0, 1, 2, 5]), err_at: None };
        if chunks.n_chunks(clen) > 6000 {
            chunks.pattern.push(clen / 50 + 1);
        }
        let damage = *r.pick(&["none", "none", "none", "truncate", "truncate", "flip", "flip"]);
        if damage == "none" && r.chance(1, 10) {
            chunks.err_at = Some(r.below(chunks.n_chunks(clen) + 1));
        }
        let at = match damage {
            "truncate" => {
                if r.chance(1, 2) {
                    clen.saturating_sub(r.range(1, 12)).max(1).min(clen.saturating_sub(1)).max(1)
                } else {
                    r.range(1, clen.max(2) - 1)
                }
            }
            _ => r.below(clen.max(1)),
        };
        let c = ReqCase {
            phase: "req-rand".into(),
            mode: r.pick(&["direct", "headers", "bytes", "payload"]).to_string(),
            coding: coding.to_string(),
            label: label_variant(coding, r.below(4)),
            level,
            checksum,
            data,
            chunks,
            damage: damage.into(),
            at,
            bit: r.below(8) as u8,
        };
        if c.damage == "truncate" && c.at >= clen {
            continue;
        }
        run_req_case(&mut rn.renv, &c, rep).await;
    }
}

/// Miri: a handful of cases that cross the in-place / blocking-pool boundary of the encoder and
/// the decoder (the `spawn_blocking` hand-off moves the codec state to another thread and back).
async fn phase_miri(rn: &mut Runner<'_>, rep: &mut Reporter) {
    let mut idx = 0u64;
    for coding in CODINGS {
        for (kind, ch) in [("stream", ChunkSpec::pat(&[100, 1024, 5, 1500])), ("bytes", ChunkSpec::one()), ("custom-sized", ChunkSpec::fixed(1024))] {
            idx += 1;
            if !rn.ctx.mine(idx) || rn.stop() {
                continue;
            }
            let c = RespCase {
                phase: "miri".into(),
                mode: "svc".into(),
                http10: false,
                ae: force_ae(coding, idx as usize),
                status: 200,
                ctype: None,
                cenc: None,
                body: kind.into(),
                data: DataSpec { kind: "text".into(), len: 2700, seed: idx },
                chunks: ch,
            };
            run_resp_case(&mut rn.env, &c, rep).await;
        }
        for (mode, ch) in [("direct", ChunkSpec::pat(&[10, 2049, 3])), ("bytes", ChunkSpec::fixed(2100))] {
            idx += 1;
            if !rn.ctx.mine(idx) || rn.stop() {
                continue;
            }
            let c = ReqCase {
                phase: "miri".into(),
                mode: mode.into(),
                coding: coding.to_string(),
                label: coding.to_string(),
                level: 1,
                checksum: false,
                data: DataSpec { kind: "random".into(), len: 4500, seed: idx },
                chunks: ch,
                damage: "none".into(),
                at: 0,
                bit: 0,
            };
            run_req_case(&mut rn.renv, &c, rep).await;
        }
    }
}

// ------------------------------------------------------------------------------------------------
// entry point
// ------------------------------------------------------------------------------------------------

pub fn run(ctx: &Ctx, rep: &mut Reporter) {
    if let Err(e) = negotiate::self_check() {
        rep.inconclusive(&format!("reference negotiation model failed its RFC 7231 examples: {e}"));
        return;
    }
    // codec libraries round-trip (the oracle's own tools)
    for c in CODINGS {
        let d = make_data(&DataSpec { kind: "mixed".into(), len: 5000, seed: 9 });
        match lib_decode(c, &lib_encode(c, 3, true, &d), d.len() + 10) {
            Ok((x, _)) if x == d => {}
            other => {
                rep.inconclusive(&format!("library {c} round trip failed: {:?}", other.map(|o| o.0.len())));
                return;
            }
        }
    }
    let progress = Arc::new(AtomicU64::new(0));
    let finished = Arc::new(AtomicBool::new(false));
    if !ctx.is_miri() {
        // backstop for a hard hang (busy loop inside the library): the per-case tokio timeout
        // cannot fire then.  Exit code 3 ⇒ the driver reports the shard as crashed ⇒ inconclusive.
        let (p, f) = (progress.clone(), finished.clone());
        std::thread::spawn(move || {
            let mut last = (p.load(SeqCst), Instant::now());
            loop {
                std::thread::sleep(Duration::from_millis(500));
                if f.load(SeqCst) {
                    return;
                }
                let now = p.load(SeqCst);
                if now != last.0 {
                    last = (now, Instant::now());
                } else if last.1.elapsed() > Duration::from_secs(240) {
                    eprintln!("C13 watchdog: no case completed for 240 s (after {now} cases) - giving up, inconclusive");
                    std::process::exit(3);
                }
            }
        });
    }
    let watchdogs = real_time_system(async {
        let env = Env::new(progress.clone(), !ctx.is_miri()).await;
        let renv = ReqEnv::new(progress.clone()).await;
        let mut rn = Runner { ctx, env, renv, cut: false };
        if let Some(rp) = &ctx.replay {
            match rp["t"].as_str() {
                Some("req") => match serde_json::from_value::<ReqCase>(rp["case"].clone()) {
                    Ok(c) => {
                        run_req_case(&mut rn.renv, &c, rep).await;
                    }
                    Err(e) => rep.inconclusive(&format!("unreadable replay: {e}")),
                },
                _ => match serde_json::from_value::<RespCase>(rp["case"].clone()) {
                    Ok(c) => {
                        if c.mode == "h1" && rn.env.h1.is_none() {
                            rn.env.h1 = Some(h1_stack(rn.env.sh.clone()).await);
                        }
                        run_resp_case(&mut rn.env, &c, rep).await;
                    }
                    Err(e) => rep.inconclusive(&format!("unreadable replay: {e}")),
                },
            }
            rep.sig("replay-a");
            rep.sig("replay-b");
        } else if ctx.is_miri() {
            phase_miri(&mut rn, rep).await;
            phase_neg_enum(&mut rn, rep).await;
            phase_neg_q(&mut rn, rep).await;
            phase_neg_rand(&mut rn, rep).await;
            phase_body_rand(&mut rn, rep).await;
            phase_req_rand(&mut rn, rep).await;
        } else if rn.stride() > 1 {
            // sanitizer layer (ASan): a slice of every grid, codec-heavy phases first — the
            // negotiation logic is safe Rust and comes last in case the budget runs out
            phase_body_grid(&mut rn, rep).await;
            phase_wire(&mut rn, rep).await;
            phase_req_grid(&mut rn, rep).await;
            phase_req_trunc(&mut rn, rep).await;
            phase_body_rand(&mut rn, rep).await;
            phase_req_rand(&mut rn, rep).await;
            phase_skip(&mut rn, rep).await;
            phase_neg_q(&mut rn, rep).await;
            phase_neg_enum(&mut rn, rep).await;
            phase_neg_rand(&mut rn, rep).await;
        } else {
            phase_neg_enum(&mut rn, rep).await;
            phase_neg_q(&mut rn, rep).await;
            phase_skip(&mut rn, rep).await;
            phase_body_grid(&mut rn, rep).await;
            phase_wire(&mut rn, rep).await;
            phase_req_trunc(&mut rn, rep).await;
            phase_req_grid(&mut rn, rep).await;
            phase_neg_rand(&mut rn, rep).await;
            phase_body_rand(&mut rn, rep).await;
            phase_req_rand(&mut rn, rep).await;
        }
        if rn.cut {
            rep.count("budget_cut", 1);
        }
        rn.env.watchdogs + rn.renv.watchdogs
    });
    finished.store(true, SeqCst);
    if watchdogs > 0 {
        rep.inconclusive(&format!("{watchdogs} case(s) did not finish within the {} s wall-clock watchdog", WATCHDOG.as_secs()));
    }
}
