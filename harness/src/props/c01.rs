//! C01 — HTTP/1 request framing is unambiguous and independent of TCP segmentation.
//!
//! Obs: a recording service on the real `HttpService` over ScriptIo (requests with exact body
//! bytes and how the body ended), the bytes written to the socket, shutdown.
//! Oracles: (a) differential against `refmodel::h1_req`; (b) canary requests after every rejection
//! point and inside bodies must never be invoked; (c) metamorphic: the observation is identical
//! under every way of cutting the stream into reads.

use serde_json::json;

use crate::{
    gen::h1::{self, ReqOpts, BAD_CLASSES, CANARY},
    refmodel::{
        h1_req::{self, RefParse, RefReq, Terminal},
        h1_resp,
    },
    report::{guard, panic_site, Ctx, Reporter},
    util::{esc, esc_short, split_at_cuts, unesc, Rng},
    world::{
        conn::{open_h1, ConnCfg},
        exec::{run_virtual, settle},
        svc::{world, BodyEnd, ReqRec},
    },
};

#[derive(Clone, Debug, PartialEq, Eq)]
pub struct SeenReq {
    method: String,
    target: String,
    version: u8,
    headers: Vec<(String, Vec<u8>)>,
    body: Vec<u8>,
    /// "eof" | "err" | "open"
    end: &'static str,
}

#[derive(Clone, Debug, PartialEq, Eq)]
pub struct Obs {
    reqs: Vec<SeenReq>,
    /// (status, x-req-idx) of each response on the wire, in order
    resps: Vec<(u16, Option<usize>)>,
    /// offset where the response stream stopped being well-formed, if it did
    resp_malformed: bool,
    resp_incomplete: bool,
    /// bytes written after the end of the last parsed response
    closed: bool,
    done: bool,
    livelock: bool,
}

fn seen(r: &ReqRec) -> SeenReq {
    SeenReq {
        method: r.method.clone(),
        target: r.target.clone(),
        version: r.version,
        headers: r.headers.clone(),
        body: r.body.clone(),
        end: match r.body_end {
            BodyEnd::Eof => "eof",
            BodyEnd::Err(_) => "err",
            BodyEnd::NotFinished => "open",
        },
    }
}

/// Feed `segments` one read at a time (the connection is polled only when woken), then EOF.
pub fn run_stream(segments: &[Vec<u8>], burst: usize) -> Obs {
    run_stream_with(segments, burst, false)
}

/// `block_writes`: the socket accepts nothing while the input is being delivered (a peer that
/// sends without reading) and everything afterwards.  What the application sees and what is
/// eventually written must not depend on that.
pub fn run_stream_with(segments: &[Vec<u8>], burst: usize, block_writes: bool) -> Obs {
    run_stream_env(segments, burst, block_writes, false)
}

/// `hold_first`: the first request's handler does not answer until all input has been delivered,
/// so everything behind it is decoded and queued (or rejected) while a request is in flight.
pub fn run_stream_env(segments: &[Vec<u8>], burst: usize, block_writes: bool, hold_first: bool) -> Obs {
    let segs: Vec<Vec<u8>> = segments.to_vec();
    run_virtual(async move {
        let w = if hold_first {
            world(vec![crate::world::svc::Prog { post_gate: Some(0), ..Default::default() }], 1)
        } else {
            world(vec![], 0)
        };
        let (mut d, io) = open_h1(&ConnCfg::persistent(), w.clone()).await;
        if block_writes {
            io.set_credit(0);
        }
        let mut livelock = false;
        let cap = if hold_first { 200 } else { 10_000 };
        livelock |= settle(&mut d, cap).await.is_none();
        let mut i = 0;
        while i < segs.len() {
            // `burst` segments become readable before the connection is polled again
            for s in &segs[i..(i + burst.max(1)).min(segs.len())] {
                io.push(s);
            }
            i += burst.max(1);
            livelock |= settle(&mut d, cap).await.is_none();
            if std::env::var("AVMON_DEBUG").is_ok() {
                eprintln!("--- after seg {i}/{}: done={} polls={} out={} reqs={} read={} pending_in={}", segs.len(), d.done(), d.polls, io.out_len(), w.borrow().reqs.len(), io.bytes_read(), io.pending_in());
            }
            if d.done() {
                break;
            }
        }
        if block_writes {
            io.set_credit(usize::MAX);
            livelock |= settle(&mut d, 10_000).await.is_none();
        }
        if hold_first {
            crate::world::svc::open_gate(&w, 0, 1_000_000);
            livelock |= settle(&mut d, 10_000).await.is_none();
        }
        io.eof();
        livelock |= settle(&mut d, 10_000).await.is_none();
        let out = io.out();
        let wd = w.borrow();
        let methods: Vec<String> = wd.reqs.iter().map(|r| r.method.clone()).collect();
        // responses are matched to requests by x-req-idx; method lookup by position is only used
        // for HEAD detection, and error responses (no request) come last
        let rp = h1_resp::parse_responses(&out, &|i| methods.get(i).cloned(), true);
        if std::env::var("AVMON_DEBUG").is_ok() {
            eprintln!("--- out ({} bytes): {}", out.len(), crate::util::esc_short(&out, 3000));
            eprintln!("--- malformed_at={:?} incomplete={} done={} result={:?} polls={}", rp.malformed_at, rp.incomplete_tail, d.done(), d.result, d.polls);
            for r in &wd.reqs {
                eprintln!("--- req {} {} {} body={} end={:?} resp_end={:?}", r.idx, r.method, r.target, r.body.len(), r.body_end, r.resp_end);
            }
        }
        Obs {
            reqs: wd.reqs.iter().map(seen).collect(),
            resps: rp.resps.iter().map(|r| (r.status, r.req_idx_header())).collect(),
            resp_malformed: rp.malformed_at.is_some(),
            resp_incomplete: rp.incomplete_tail,
            closed: io.closed(),
            done: d.done(),
            livelock,
        }
    })
}

struct Verdict {
    class: &'static str,
    sig: String,
    detail: String,
}

fn same_head(o: &SeenReq, m: &RefReq) -> bool {
    o.method == m.method && o.target == m.target && o.version == m.version && o.headers == m.headers
}

/// Differential oracle: observation vs reference parse.
fn check_against_model(obs: &Obs, rp: &RefParse, stream: &[u8]) -> Option<Verdict> {
    if let Terminal::Unmodelled(_) = rp.terminal {
        return None;
    }
    // Requests after one that asks for the connection to be closed are C03's business.
    let cut = rp.reqs.iter().position(|r| r.wants_close);
    let served: &[RefReq] = match cut {
        Some(i) => &rp.reqs[..=i],
        None => &rp.reqs[..],
    };
    let truncated = cut.is_some();

    // (b) canary: a handler invocation for a smuggled target the model does not list
    for o in &obs.reqs {
        if o.target.contains(CANARY) && !rp.reqs.iter().any(|m| m.target == o.target) && rp.partial.as_ref().map(|p| p.target != o.target).unwrap_or(true) {
            return Some(Verdict {
                class: "smuggled-request",
                sig: reject_sig(rp),
                detail: format!("handler invoked for {} which is not a request of the reference parse (terminal {:?})", o.target, rp.terminal),
            });
        }
    }
    for (i, m) in served.iter().enumerate() {
        let o = match obs.reqs.get(i) {
            Some(o) => o,
            None => {
                return Some(Verdict {
                    class: "missing-request",
                    sig: format!("framing={:?}", m.framing_kind()),
                    detail: format!("request #{i} {} {} of the reference parse was never dispatched ({} seen)", m.method, m.target, obs.reqs.len()),
                })
            }
        };
        if !same_head(o, m) {
            return Some(Verdict {
                class: "request-head-differs",
                sig: format!("framing={:?}", m.framing_kind()),
                detail: format!("request #{i}: saw {} {} v{} {:?}; reference {} {} v{} {:?}", o.method, o.target, o.version, show_headers(&o.headers), m.method, m.target, m.version, show_headers(&m.headers)),
            });
        }
        if o.body != m.body {
            let at = o.body.iter().zip(&m.body).position(|(a, b)| a != b).unwrap_or(o.body.len().min(m.body.len()));
            return Some(Verdict {
                class: "body-bytes-differ",
                sig: format!("framing={:?}", m.framing_kind()),
                detail: format!("request #{i} {}: body {} bytes vs reference {} bytes, first difference at {at}", m.target, o.body.len(), m.body.len()),
            });
        }
        if o.end != "eof" {
            return Some(Verdict {
                class: "complete-body-not-clean",
                sig: format!("framing={:?} end={}", m.framing_kind(), o.end),
                detail: format!("request #{i} {}: complete body ended as {:?}", m.target, o.end),
            });
        }
    }
    if truncated {
        return None;
    }
    // anything beyond the served list must be the partial request
    let extra = &obs.reqs[served.len().min(obs.reqs.len())..];
    let mut partial_seen = false;
    if let Some(o) = extra.first() {
        match &rp.partial {
            Some(p) if same_head(o, p) && extra.len() == 1 => {
                partial_seen = true;
                if !p.body.starts_with(&o.body) {
                    return Some(Verdict {
                        class: "partial-body-not-prefix",
                        sig: reject_sig(rp),
                        detail: format!("body delivered for the cut-short request {} is not a prefix of its well-formed part", p.target),
                    });
                }
                if o.end == "eof" {
                    return Some(Verdict {
                        class: "truncated-body-reported-clean",
                        sig: reject_sig(rp),
                        detail: format!("request {} whose body is malformed/cut short ({:?}) ended with a clean EOF after {} bytes", p.target, rp.terminal, o.body.len()),
                    });
                }
            }
            _ => {
                return Some(Verdict {
                    class: "extra-request",
                    sig: reject_sig(rp),
                    detail: format!("{} request(s) beyond the reference parse were dispatched, first: {} {} (terminal {:?})", extra.len(), o.method, o.target, rp.terminal),
                });
            }
        }
    }
    // responses
    if obs.resp_malformed {
        return Some(Verdict { class: "response-stream-malformed", sig: reject_sig(rp), detail: "bytes written by the server do not parse as HTTP/1 responses".into() });
    }
    let n_ok = served.len() + usize::from(partial_seen);
    let oks = obs.resps.iter().take_while(|r| r.1.is_some()).count();
    for (k, r) in obs.resps.iter().take(oks).enumerate() {
        if r.1 != Some(k) || r.0 != 200 {
            return Some(Verdict { class: "response-order", sig: reject_sig(rp), detail: format!("response #{k} is status {} x-req-idx {:?}", r.0, r.1) });
        }
    }
    let tail = &obs.resps[oks..];
    match &rp.terminal {
        Terminal::Clean => {
            if oks != n_ok || !tail.is_empty() {
                return Some(Verdict {
                    class: "well-formed-stream-not-served",
                    sig: "clean".into(),
                    detail: format!("{} well-formed requests, {} handler responses, trailing responses {:?}", n_ok, oks, tail),
                });
            }
        }
        Terminal::Reject { class, .. } => {
            // the partial request's own response may or may not have been produced
            if oks < served.len() || oks > n_ok {
                return Some(Verdict { class: "response-count", sig: reject_sig(rp), detail: format!("{oks} handler responses for {} served requests (+partial {partial_seen})", served.len()) });
            }
            if tail.len() != 1 || !(400..500).contains(&tail[0].0) {
                return Some(Verdict {
                    class: "malformed-not-answered-4xx",
                    sig: format!("reject={class}"),
                    detail: format!("malformed message ({class}) must be answered with exactly one 4xx; saw {:?} after {oks} handler responses", tail),
                });
            }
            if !obs.closed || !obs.done {
                return Some(Verdict {
                    class: "not-closed-after-reject",
                    sig: format!("reject={class}"),
                    detail: format!("connection still open after the 4xx for {class} (closed={}, future done={})", obs.closed, obs.done),
                });
            }
        }
        Terminal::Incomplete { .. } => {
            if oks < served.len() || oks > n_ok {
                return Some(Verdict { class: "response-count", sig: "incomplete".into(), detail: format!("{oks} handler responses for {} served requests", served.len()) });
            }
            if tail.len() > 1 || tail.iter().any(|t| !(400..500).contains(&t.0)) {
                return Some(Verdict { class: "unexpected-response", sig: "incomplete".into(), detail: format!("after an incomplete message saw {:?}", tail) });
            }
        }
        Terminal::Unmodelled(_) => {}
    }
    let _ = stream;
    None
}

fn show_headers(h: &[(String, Vec<u8>)]) -> Vec<String> {
    h.iter().map(|(k, v)| format!("{k}: {}", esc_short(v, 40))).collect()
}

fn reject_sig(rp: &RefParse) -> String {
    match &rp.terminal {
        Terminal::Reject { class, .. } => format!("reject={class}"),
        Terminal::Incomplete { in_body } => format!("incomplete in_body={in_body}"),
        Terminal::Clean => "clean".into(),
        Terminal::Unmodelled(w) => format!("unmodelled {w}"),
    }
}

impl RefReq {
    pub fn framing_kind(&self) -> &'static str {
        match self.framing {
            h1_req::Framing::None => "none",
            h1_req::Framing::Cl(_) => "cl",
            h1_req::Framing::Chunked => "chunked",
        }
    }
}

/// Metamorphic digest: what must not depend on segmentation.
fn digest(obs: &Obs, rp: &RefParse) -> Obs {
    let mut o = obs.clone();
    // self-wake spinning behind a pending handler is counted, not part of the observation
    o.livelock = false;
    for r in o.resps.iter_mut() {
        if r.1.is_none() {
            r.0 /= 100; // which 4xx an error response carries may depend on where parsing stopped
        }
    }
    if let Some(i) = rp.reqs.iter().position(|r| r.wants_close) {
        o.reqs.truncate(i + 1);
        let keep = o.resps.iter().take_while(|r| r.1.map(|x| x <= i).unwrap_or(false)).count();
        o.resps.truncate(keep);
        o.closed = true;
        o.done = true;
        o.resp_incomplete = false;
    }
    o
}

fn shape_sig(rp: &RefParse, cut_classes: &[&str]) -> String {
    let kinds: Vec<&str> = rp.reqs.iter().map(|r| r.framing_kind()).collect();
    let mut cc: Vec<&str> = cut_classes.to_vec();
    cc.sort();
    cc.dedup();
    format!("{}|{}|{}", kinds.join(","), reject_sig(rp), cc.join(","))
}

struct Case<'a> {
    stream: &'a [u8],
    cuts: Vec<usize>,
    burst: usize,
    intended: Option<&'static str>,
    block_writes: bool,
    hold_first: bool,
}

fn replay_json(c: &Case) -> serde_json::Value {
    json!({"stream": esc(c.stream), "cuts": c.cuts, "burst": c.burst, "block_writes": c.block_writes, "hold_first": c.hold_first})
}

fn eval_case(c: &Case, rp: &RefParse, baseline: Option<&Obs>, rep: &mut Reporter) -> Option<Obs> {
    rep.eval();
    let segs = split_at_cuts(c.stream, &c.cuts);
    let obs = match guard(|| run_stream_env(&segs, c.burst, c.block_writes, c.hold_first)) {
        Ok(o) => o,
        Err(p) => {
            rep.violation("panic", &panic_site(&p), &format!("panic while serving the stream: {p}"), replay_json(c));
            return None;
        }
    };
    if obs.livelock {
        rep.count("livelock_cap_hit", 1);
    }
    if c.block_writes {
        rep.count("schedules_with_writes_blocked_during_input", 1);
    }
    if c.hold_first {
        rep.count("schedules_with_first_handler_pending_during_input", 1);
    }
    for cut in &c.cuts {
        rep.count(&format!("cut:{}", h1_req::cut_class(rp, c.stream, *cut)), 1);
    }
    rep.count("requests_observed", obs.reqs.len() as u64);
    rep.count("responses_observed", obs.resps.len() as u64);
    let ambiguous = matches!(rp.terminal, Terminal::Unmodelled(w) if w == h1_req::AMBIGUOUS_HEAD);
    let verdict = if ambiguous {
        rep.count("ambiguous_head_streams", 1);
        let a = h1_req::parse_stream_with(c.stream, h1_req::HeadLimit::RejectAboveCeiling);
        let b = h1_req::parse_stream_with(c.stream, h1_req::HeadLimit::Unlimited);
        match (check_against_model(&obs, &a, c.stream), check_against_model(&obs, &b, c.stream)) {
            (Some(v), Some(_)) => Some(v),
            _ => None,
        }
    } else {
        check_against_model(&obs, rp, c.stream)
    };
    if let Some(v) = verdict {
        let detail = format!("{} | cuts={:?} burst={} intended={:?} stream={}", v.detail, c.cuts, c.burst, c.intended, esc_short(c.stream, 400));
        rep.violation(v.class, &v.sig, &detail, replay_json(c));
    }
    if let (Some(b), false) = (baseline, ambiguous) {
        let (a, b2) = (digest(&obs, rp), digest(b, rp));
        if a != b2 {
            let what = if a.reqs != b2.reqs {
                "requests seen by the application"
            } else if a.resps != b2.resps {
                "response sequence"
            } else {
                "connection end state"
            };
            rep.violation(
                "segmentation-dependent",
                &format!("{} {}", reject_sig(rp), what),
                &format!("{what} differ between the one-buffer run and cuts {:?} (burst {}): one-buffer reqs={} resps={:?} closed={} | cut reqs={} resps={:?} closed={} | stream={}", c.cuts, c.burst, b2.reqs.len(), b2.resps, b2.closed, a.reqs.len(), a.resps, a.closed, esc_short(c.stream, 400)),
                replay_json(c),
            );
        }
    }
    Some(obs)
}

/// ~40 short streams for the exhaustive cut enumeration.
fn short_corpus() -> Vec<(Vec<u8>, Option<&'static str>)> {
    let mut v: Vec<(Vec<u8>, Option<&'static str>)> = vec![];
    let g = |s: &str| s.as_bytes().to_vec();
    v.push((g("GET /a HTTP/1.1\r\nHost: x\r\n\r\n"), None));
    v.push((g("GET /a HTTP/1.1\r\nHost: x\r\n\r\nGET /b?q=1 HTTP/1.1\r\nhost: y\r\nX-A:  v \r\n\r\n"), None));
    v.push((g("POST /a HTTP/1.1\r\nHost: x\r\nContent-Length: 5\r\n\r\nhelloGET /b HTTP/1.1\r\nHost: x\r\n\r\n"), None));
    v.push((g("POST /a HTTP/1.1\r\nHost: x\r\nContent-Length: 0\r\n\r\nGET /b HTTP/1.1\r\nHost: x\r\n\r\n"), None));
    v.push((g("POST /a HTTP/1.1\r\nHost: x\r\nTransfer-Encoding: chunked\r\n\r\n5\r\nhello\r\n0\r\n\r\nGET /b HTTP/1.1\r\nHost: x\r\n\r\n"), None));
    v.push((g("POST /a HTTP/1.1\r\nHost: x\r\nTransfer-Encoding: chunked\r\n\r\n1\r\na\r\n2;x=y\r\nbc\r\n00A\r\n0123456789\r\n0;l\r\n\r\nGET /b HTTP/1.1\r\nHost: x\r\n\r\n"), None));
    v.push((g("POST /a HTTP/1.1\r\nHost: x\r\nTransfer-Encoding: chunked\r\n\r\n0\r\n\r\nPOST /b HTTP/1.1\r\nHost: x\r\nContent-Length: 3\r\n\r\nabc"), None));
    v.push((g("POST /a HTTP/1.0\r\nConnection: keep-alive\r\nContent-Length: 3\r\n\r\nabcGET /b HTTP/1.0\r\nConnection: keep-alive\r\n\r\n"), None));
    v.push((g("PUT /a HTTP/1.1\r\nHost: x\r\nContent-Length: 32\r\n\r\nGET /SMUGGLED-1 HTTP/1.1\r\n\r\n\r\n\r\nGET /b HTTP/1.1\r\nHost: x\r\n\r\n"), None));
    v.push((g("POST /a HTTP/1.1\r\nHost: x\r\nTransfer-Encoding: chunked\r\n\r\n20\r\nGET /SMUGGLED-1 HTTP/1.1\r\n\r\n\r\n\r\n\r\n0\r\n\r\n"), None));
    // incomplete tails
    v.push((g("GET /a HTTP/1.1\r\nHost: x\r\n\r\nGET /b HTTP/1.1\r\nHo"), None));
    v.push((g("POST /a HTTP/1.1\r\nHost: x\r\nContent-Length: 10\r\n\r\nabc"), None));
    v.push((g("POST /a HTTP/1.1\r\nHost: x\r\nTransfer-Encoding: chunked\r\n\r\n5\r\nhel"), None));
    let mut rng = Rng::new(1);
    for c in BAD_CLASSES {
        if c.starts_with("head-too-large") || *c == "too-many-headers" {
            continue;
        }
        let mut s = g("GET /ok HTTP/1.1\r\nHost: x\r\n\r\n");
        s.extend_from_slice(&h1::bad_request(&mut rng, c, 1));
        s.extend_from_slice(&h1::canary_request(7));
        v.push((s, Some(c)));
    }
    v
}

fn self_check(rp: &RefParse, intended: Option<&'static str>, rep: &mut Reporter) -> bool {
    match (intended, &rp.terminal) {
        (Some(c), Terminal::Reject { class, .. }) => {
            if !h1::expected_ref_class(c).contains(class) {
                rep.inconclusive(&format!("generator class {c} parsed by the reference as {class}: generator/model mismatch"));
                return false;
            }
            true
        }
        // an ambiguous head (above the ceiling but within one read of it) may also belong to a
        // well-formed request in front of the malformed one: the case is judged under both readings
        (Some(_), Terminal::Unmodelled(w)) if *w == h1_req::AMBIGUOUS_HEAD => true,
        (Some(c), t) => {
            rep.inconclusive(&format!("generator class {c} not rejected by the reference ({t:?})"));
            false
        }
        (None, Terminal::Reject { class, offset, .. }) => {
            if std::env::var("AVMON_DEBUG").is_ok() {
                eprintln!("SELFCHECK {class} at {offset}");
            }
            rep.inconclusive(&format!("well-formed pipeline rejected by the reference ({class})"));
            false
        }
        _ => true,
    }
}

pub fn run(ctx: &Ctx, rep: &mut Reporter) {
    if let Some(r) = &ctx.replay {
        let stream = unesc(r["stream"].as_str().unwrap_or(""));
        let cuts: Vec<usize> = r["cuts"].as_array().map(|a| a.iter().filter_map(|x| x.as_u64().map(|x| x as usize)).collect()).unwrap_or_default();
        let burst = r["burst"].as_u64().unwrap_or(1) as usize;
        let rp = h1_req::parse_stream(&stream);
        let base = eval_case(&Case { stream: &stream, cuts: vec![], burst: 1, intended: None, block_writes: false, hold_first: false }, &rp, None, rep);
        let block_writes = r["block_writes"].as_bool().unwrap_or(false);
        let hold_first = r["hold_first"].as_bool().unwrap_or(false);
        eval_case(&Case { stream: &stream, cuts, burst, intended: None, block_writes, hold_first }, &rp, base.as_ref(), rep);
        rep.sig("replay-a");
        rep.sig("replay-b");
        return;
    }

    // ---- Phase A: exhaustive cuts of the short corpus
    let corpus = short_corpus();
    let pairs = ctx.thorough();
    let mut idx = 0u64;
    let mut complete = true;
    for (stream, intended) in &corpus {
        let rp = h1_req::parse_stream(stream);
        if !self_check(&rp, *intended, rep) {
            continue;
        }
        let base = eval_case(&Case { stream, cuts: vec![], burst: 1, intended: *intended, block_writes: false, hold_first: false }, &rp, None, rep);
        let Some(base) = base else { continue };
        let n = stream.len();
        // all-1-byte reads
        idx += 1;
        if ctx.mine(idx) {
            let cuts: Vec<usize> = (1..n).collect();
            eval_case(&Case { stream, cuts: cuts.clone(), burst: 1, intended: *intended, block_writes: false, hold_first: false }, &rp, Some(&base), rep);
            rep.sig(&shape_sig(&rp, &["all-1-byte"]));
            eval_case(&Case { stream, cuts, burst: 1, intended: *intended, block_writes: true, hold_first: false }, &rp, Some(&base), rep);
            eval_case(&Case { stream, cuts: vec![], burst: 1, intended: *intended, block_writes: true, hold_first: false }, &rp, Some(&base), rep);
            rep.sig(&shape_sig(&rp, &["writes-blocked"]));
            eval_case(&Case { stream, cuts: vec![], burst: 1, intended: *intended, block_writes: false, hold_first: true }, &rp, Some(&base), rep);
            eval_case(&Case { stream, cuts: (1..n).collect(), burst: 1, intended: *intended, block_writes: false, hold_first: true }, &rp, Some(&base), rep);
            rep.sig(&shape_sig(&rp, &["first-handler-pending"]));
        }
        for a in 1..n {
            idx += 1;
            if ctx.mine(idx) {
                eval_case(&Case { stream, cuts: vec![a], burst: 1, intended: *intended, block_writes: false, hold_first: false }, &rp, Some(&base), rep);
                rep.sig(&shape_sig(&rp, &[h1_req::cut_class(&rp, stream, a)]));
            }
            if pairs {
                for b in a + 1..n {
                    idx += 1;
                    if !ctx.mine(idx) {
                        continue;
                    }
                    if ctx.out_of_time() {
                        complete = false;
                        break;
                    }
                    eval_case(&Case { stream, cuts: vec![a, b], burst: 1, intended: *intended, block_writes: false, hold_first: false }, &rp, Some(&base), rep);
                    rep.sig(&shape_sig(&rp, &[h1_req::cut_class(&rp, stream, a), h1_req::cut_class(&rp, stream, b)]));
                }
            }
        }
    }
    rep.exhaustive(if pairs { "all single cuts and all cut pairs of the short corpus" } else { "all single cuts of the short corpus" }, complete);
    rep.max("short_corpus_streams", corpus.len() as u64);
    rep.sample("short-corpus-stream", json!({"stream": esc(&corpus[5].0), "reference_terminal": format!("{:?}", h1_req::parse_stream(&corpus[5].0).terminal)}));

    // ---- Phase B: random pipelines × random cut schedules
    let n = ctx.share(60_000, 3_000_000);
    let opts = ReqOpts { allow_http10: true, allow_big: true, allow_head: true, ..Default::default() };
    for k in 0..n {
        if ctx.out_of_time() {
            break;
        }
        let mut rng = Rng::derive(ctx.seed, 1, k * ctx.nshards + ctx.shard);
        let bad: Option<&'static str> = if rng.chance(1, 2) { Some(*rng.pick(BAD_CLASSES)) } else { None };
        // the 150 KiB classes are expensive: keep them rare
        let bad = match bad {
            Some(c) if (c.starts_with("head-too-large")) && !rng.chance(1, 8) => Some("cl-and-te"),
            b => b,
        };
        let maxr = if rng.chance(1, 10) { 20 } else { 5 };
        let p = h1::pipeline(&mut rng, maxr, bad, &opts);
        let rp = h1_req::parse_stream(&p.bytes);
        if !self_check(&rp, p.intended_bad, rep) {
            if std::env::var("AVMON_DEBUG").is_ok() {
                if let Terminal::Reject { offset, .. } = &rp.terminal {
                    let lo = offset.saturating_sub(120);
                    eprintln!("SELFCHECK ctx: {}", esc(&p.bytes[lo..(*offset + 40).min(p.bytes.len())]));
                }
            }
            continue;
        }
        let base = eval_case(&Case { stream: &p.bytes, cuts: vec![], burst: 1, intended: p.intended_bad, block_writes: false, hold_first: false }, &rp, None, rep);
        let Some(base) = base else { continue };
        let nsched = 3;
        for s in 0..nsched {
            let cuts: Vec<usize> = match (s, p.bytes.len()) {
                (0, l) if l <= 3000 => (1..l).collect(), // all 1-byte reads
                (_, l) => {
                    let mut c = rng.cuts(l, 12);
                    // aim some cuts at structural positions: around CRLFs
                    let crlfs: Vec<usize> = p.bytes.windows(2).enumerate().filter(|(_, w)| w == b"\r\n").map(|(i, _)| i).collect();
                    for _ in 0..rng.below(6) {
                        if !crlfs.is_empty() {
                            let at = *rng.pick(&crlfs) + rng.below(3);
                            if at > 0 && at < l {
                                c.push(at);
                            }
                        }
                    }
                    c.sort_unstable();
                    c.dedup();
                    c
                }
            };
            let burst = if rng.chance(1, 4) { rng.range(2, 4) } else { 1 };
            let classes: Vec<&str> = cuts.iter().take(64).map(|c| h1_req::cut_class(&rp, &p.bytes, *c)).collect();
            // the last schedule of each case runs against a peer that does not read while it sends
            eval_case(&Case { stream: &p.bytes, cuts: cuts.clone(), burst, intended: p.intended_bad, block_writes: s + 1 == nsched && k % 2 == 0, hold_first: s + 1 == nsched && k % 2 == 1 }, &rp, Some(&base), rep);
            rep.sig(&shape_sig(&rp, &classes));
            if k == 0 && s == 1 {
                rep.sample("random-pipeline", json!({"stream": esc_short(&p.bytes, 600), "cuts": cuts, "burst": burst, "reference": reject_sig(&rp), "requests_in_reference": rp.reqs.len()}));
            }
        }
        match &rp.terminal {
            Terminal::Reject { class, .. } => rep.count(&format!("reject-class:{class}"), 1),
            Terminal::Clean => rep.count("terminal:clean", 1),
            Terminal::Incomplete { .. } => rep.count("terminal:incomplete", 1),
            Terminal::Unmodelled(_) => rep.count("terminal:unmodelled", 1),
        }
    }

    // ---- Phase C: byte-level truncation of random pipelines (incomplete tails at every class)
    let n = ctx.share(20_000, 600_000);
    for k in 0..n {
        if ctx.out_of_time() {
            break;
        }
        let mut rng = Rng::derive(ctx.seed, 101, k * ctx.nshards + ctx.shard);
        let p = h1::pipeline(&mut rng, 3, None, &ReqOpts { allow_http10: true, ..Default::default() });
        let cut = rng.range(1, p.bytes.len());
        let stream = &p.bytes[..cut];
        let rp = h1_req::parse_stream(stream);
        let base = eval_case(&Case { stream, cuts: vec![], burst: 1, intended: None, block_writes: false, hold_first: false }, &rp, None, rep);
        let Some(base) = base else { continue };
        let cuts = rng.cuts(stream.len(), 6);
        eval_case(&Case { stream, cuts, burst: 1, intended: None, block_writes: false, hold_first: false }, &rp, Some(&base), rep);
        rep.sig(&format!("trunc|{}|{}", reject_sig(&rp), h1_req::cut_class(&h1_req::parse_stream(&p.bytes), &p.bytes, cut.min(p.bytes.len() - 1).max(1))));
        rep.count("truncated_streams", 1);
    }
}
